"""C19 — design sources survive being written and read back.

Sub-checks (each has check_<kind>(case, R) used by the generators and by replay):
  ds        DesignSpaceDocument spec -> document -> string/file -> document -> plain data
  glif      glyph record -> writeGlyphToString -> readGlyphFromString (recording point pen)
  glyphset  several glyph records through GlyphSet on a scratch directory
  ufo       UFOWriter/UFOReader formatVersion 3 (package, zip, FS object)
  upconv    UFO 1 / UFO 2 written data read through the documented up-conversion
  plist     value trees through fontTools.misc.plistlib (and the stdlib plistlib as a second reader/writer)
  names     sequences of glyph/layer names -> userNameToFileName with accumulating `existing`
  gsops     histories of GlyphSet.writeGlyph/deleteGlyph/reopen on a directory
  axismap   AxisDescriptor.map_forward / map_backward on strictly monotone maps

Expected values are computed here from the generated spec (never from the objects
the library returns); the specs are JSON-able so that a replay file re-runs one case.
"""

import datetime
import math
import os
import warnings
from fractions import Fraction

from vf.runner import Acc, HarnessError, fingerprint, hyp_collect, innermost_frame, scratch_dir, short, subseed

ID = "C19"
LEVEL = "exploration"
RULE = (
    "Hypothesis strategies (vf/gen_sources.py) build JSON-able specs: designspace documents (range/discrete axes, maps, "
    "labels, mappings, rules, sources, instances, variable fonts, nested lib; format 4 and 5), GLIF 1/2 glyph records "
    "with legal point sequences and unique identifiers, UFO 3 contents valid per the UFO validators (fontinfo, kerning, "
    "groups, lib, features, layers, data, images), UFO 1/2 data for up-conversion, plist trees, sequences of glyph/layer "
    "names biased to case/truncation/reserved-name collisions, GlyphSet operation histories, strictly monotone axis maps. "
    "Oracle: read(write(x)) equals the expected plain data computed from the spec (numbers after the writer's documented "
    "formatting, type-aware for plist values), second write byte-identical, stdlib plistlib as independent reader/writer, "
    "reference implementation of the UFO file-name convention, exact-rational piecewise-linear reference for axis maps. "
    "A case is non-trivial when it uses an optional feature (map, rule, discrete axis, lib, identifiers, components, "
    "non-default layers, ...) or the name sequence contains a case-insensitive collision or a truncation; distinct by spec."
)
ASSUMPTIONS = [
    "text is XML 1.0 representable: no surrogates, no C0/C1 control characters other than TAB and LF (CR excluded), no U+FFFE/U+FFFF",
    "designspace numbers are finite; compared after the writer's documented formatting (integers as %d, otherwise %f = 6 decimals)",
    "glyph names are non-empty; GLIF 1 anchors are named (GLIF 1 stores anchors as named single-point contours)",
    "a format-4 designspace axis map lists the axis default as an input (so the filled-in default design location is exact)",
    "case-insensitive uniqueness of file names is str.lower() equality, the notion the UFO convention defines",
    "names written to a real directory are limited to what the scratch file system accepts (255 bytes per component)",
    "axis maps for the inverse check have segment slopes in [1e-3, 1e3] and coordinates within +-5e5 (float conditioning)",
]
WALL_BUDGET = {"quick": 900, "thorough": 3 * 3600}


# ---------------------------------------------------------------------------
# reporting helper


class R:
    """Binds an Acc, a clause and the replayable case."""

    def __init__(self, acc, kind, case):
        self.acc = acc
        self.kind = kind
        self.case = {"kind": kind, "case": case}
        self.failed = False

    def fail(self, what, detail, where=""):
        self.failed = True
        self.acc.fail(self.kind, what, detail, self.case, where)

    def call(self, stage, fn, *a, **k):
        """Run library code; an exception is a failure of this case. Returns (ok, value)."""
        try:
            with warnings.catch_warnings():
                warnings.simplefilter("ignore")
                return True, fn(*a, **k)
        except (KeyboardInterrupt, MemoryError, HarnessError):
            raise
        except Exception as e:
            self.failed = True
            self.acc.fail(self.kind, "%s:%s" % (stage, type(e).__name__), "%s: %s" % (type(e).__name__, short(str(e), 300)), self.case, innermost_frame(e))
            return False, None


# ---------------------------------------------------------------------------
# spec <-> python values (plist trees)


def pl_build(spec, data_cls=None):
    """Spec tree -> python object handed to the writer."""
    if isinstance(spec, dict):
        if len(spec) == 1:
            (k, v), = spec.items()
            if k == "$date":
                return datetime.datetime(*v)
            if k == "$tuple":
                return tuple(pl_build(x, data_cls) for x in v)
            if k == "$data":
                return data_cls(bytes(v)) if data_cls is not None else bytes(v)
            if k == "$bytearray":
                return bytearray(v)
        return {k: pl_build(v, data_cls) for k, v in spec.items()}
    if isinstance(spec, list):
        return [pl_build(x, data_cls) for x in spec]
    return spec


def pl_expected(spec):
    """Spec tree -> the value a reader must return (use_builtin_types=True)."""
    if isinstance(spec, dict):
        if len(spec) == 1:
            (k, v), = spec.items()
            if k == "$date":
                return datetime.datetime(*v[:6])  # the format carries whole seconds
            if k == "$tuple":
                return [pl_expected(x) for x in v]
            if k in ("$data", "$bytearray"):
                return bytes(v)
        return {k: pl_expected(v) for k, v in spec.items()}
    if isinstance(spec, list):
        return [pl_expected(x) for x in spec]
    return spec


class Strict:
    """Marks a subtree of an expected structure that is compared type-aware."""

    def __init__(self, value):
        self.value = value


def _is_num(v):
    return isinstance(v, (int, float)) and not isinstance(v, bool)


def diff(exp, got, path="$", strict=False):
    """First difference between expected and obtained plain data, or None.
    strict: int/float/bool/str/bytes types must match exactly (plist semantics);
    otherwise numbers compare numerically, everything else by value and container type."""
    if isinstance(exp, Strict):
        return diff(exp.value, got, path, True)
    if isinstance(exp, bool) or isinstance(got, bool):
        if type(exp) is not type(got) or exp != got:
            return "%s: expected %r, got %r" % (path, exp, got)
        return None
    if _is_num(exp):
        if not _is_num(got):
            return "%s: expected number %r, got %s %r" % (path, exp, type(got).__name__, short(got, 80))
        if strict and type(exp) is not type(got):
            return "%s: expected %s %r, got %s %r" % (path, type(exp).__name__, exp, type(got).__name__, got)
        if exp != got:
            return "%s: expected %r, got %r" % (path, exp, got)
        return None
    if isinstance(exp, dict):
        if not isinstance(got, dict):
            return "%s: expected dict, got %s %s" % (path, type(got).__name__, short(got, 80))
        if set(exp) != set(got):
            return "%s: keys differ: missing %r, unexpected %r" % (path, sorted(set(exp) - set(got), key=repr)[:4], sorted(set(got) - set(exp), key=repr)[:4])
        for k in exp:
            d = diff(exp[k], got[k], "%s[%r]" % (path, k), strict)
            if d:
                return d
        return None
    if isinstance(exp, (list, tuple)):
        if strict and type(got) is not list:
            return "%s: expected list, got %s %s" % (path, type(got).__name__, short(got, 80))
        if not isinstance(got, (list, tuple)):
            return "%s: expected sequence, got %s %s" % (path, type(got).__name__, short(got, 80))
        if len(exp) != len(got):
            return "%s: expected %d items, got %d (%s vs %s)" % (path, len(exp), len(got), short(exp, 120), short(got, 120))
        for i, (a, b) in enumerate(zip(exp, got)):
            d = diff(a, b, "%s[%d]" % (path, i), strict)
            if d:
                return d
        return None
    if exp is None:
        return None if got is None else "%s: expected None, got %s" % (path, short(got, 80))
    if type(exp) is not type(got):
        return "%s: expected %s %s, got %s %s" % (path, type(exp).__name__, short(exp, 80), type(got).__name__, short(got, 80))
    if exp != got:
        return "%s: expected %s, got %s" % (path, short(exp, 120), short(got, 120))
    return None


def tree_stats(spec, st=None):
    st = st if st is not None else {"types": set(), "depth": 0, "n": 0}

    def walk(s, d):
        st["n"] += 1
        st["depth"] = max(st["depth"], d)
        if isinstance(s, dict):
            if len(s) == 1 and next(iter(s)) in ("$date", "$tuple", "$data", "$bytearray"):
                k = next(iter(s))
                st["types"].add(k)
                if k == "$tuple":
                    if not s[k]:
                        st["types"].add("empty")
                    for x in s[k]:
                        walk(x, d + 1)
                return
            st["types"].add("dict")
            if not s:
                st["types"].add("empty")
            for k, v in s.items():
                if not k.isascii() or k != k.strip() or k == "" or any(c in k for c in "<>&"):
                    st["types"].add("awkward-key")
                walk(v, d + 1)
        elif isinstance(s, list):
            st["types"].add("list")
            if not s:
                st["types"].add("empty")
            for x in s:
                walk(x, d + 1)
        elif isinstance(s, bool):
            st["types"].add("bool")
        elif isinstance(s, int):
            st["types"].add("bigint" if not -(2**31) <= s < 2**31 else "int")
        elif isinstance(s, float):
            st["types"].add("float")
        elif isinstance(s, (bytes, bytearray)):
            st["types"].add("bytes")
        elif isinstance(s, str):
            st["types"].add("str")
            if not s.isascii() or s != s.strip() or s == "" or any(c in s for c in "<>&\n\t"):
                st["types"].add("awkward-str")

    walk(spec, 0)
    return st


# ---------------------------------------------------------------------------
# (4) plist


def check_plist(case, r):
    from fontTools.misc import etree, plistlib as P
    import plistlib as S

    spec = case["tree"]
    mode = case["mode"]
    exp = pl_expected(spec)
    if mode == "builtin":
        obj = pl_build(spec)
        kw = {}
    else:
        obj = pl_build(spec, data_cls=P.Data)
        kw = {"use_builtin_types": False}
        # with use_builtin_types=False raw bytes are written as ASCII strings (documented): the
        # generator's raw bytes are therefore wrapped like $data for this mode
        obj = _wrap_bytes(obj, P.Data)
    ok, data = r.call("dumps", P.dumps, obj, sort_keys=case["sort_keys"], pretty_print=case["pretty"], **kw)
    if not ok:
        return
    if not isinstance(data, bytes):
        r.fail("dumps-type", "dumps returned %s" % type(data).__name__)
        return
    ok, back = r.call("loads", P.loads, data)
    if ok:
        d = diff(Strict(exp), back)
        if d:
            r.fail("loads(dumps)", "%s | plist %s" % (d, short(data.decode("utf-8", "replace"), 200)))
        elif case["sort_keys"]:
            d = _key_order(back, True)
            if d:
                r.fail("sort_keys-order", d)
        else:
            d = _same_order(exp, back)
            if d:
                r.fail("insertion-order", d)
    if mode == "nobuiltin":
        ok, back2 = r.call("loads-nobuiltin", P.loads, data, use_builtin_types=False)
        if ok:
            d = diff(Strict(exp), _unwrap_data(back2, P.Data))
            if d:
                r.fail("loads(use_builtin_types=False)", d)
            elif _count_bytes(exp) != _count_type(back2, P.Data):
                r.fail("data-not-wrapped", "expected %d Data objects, got %d" % (_count_bytes(exp), _count_type(back2, P.Data)))
    # the standard library reads what fontTools wrote ...
    try:
        sback = S.loads(data)
    except Exception as e:
        r.fail("stdlib-cannot-read", "%s: %s | %s" % (type(e).__name__, e, short(data.decode("utf-8", "replace"), 200)))
    else:
        d = diff(Strict(exp), sback)
        if d:
            r.fail("stdlib-reads-differently", d)
    # ... and fontTools reads what the standard library wrote
    try:
        sdata = S.dumps(pl_build(_strip_wrappers(spec)), sort_keys=case["sort_keys"])
    except (OverflowError, ValueError, TypeError) as e:
        raise HarnessError("stdlib plistlib rejected generated tree: %r" % e)
    ok, back3 = r.call("loads(stdlib-dumps)", P.loads, sdata)
    if ok:
        d = diff(Strict(exp), back3)
        if d:
            r.fail("loads(stdlib dumps)", d)
    # fixed point
    ok, data2 = r.call("dumps2", P.dumps, back if back is not None else obj, sort_keys=case["sort_keys"], pretty_print=case["pretty"])
    if ok and mode == "builtin" and back is not None and data2 != data:
        r.fail("second-dump-differs", "%s vs %s" % (short(data.decode("utf-8", "replace"), 160), short(data2.decode("utf-8", "replace"), 160)))
    # element tree path (what GLIF and designspace lib elements use)
    ok, el = r.call("totree", P.totree, obj, sort_keys=case["sort_keys"], pretty_print=case["pretty"], indent_level=case["indent"], **kw)
    if ok:
        ok, back4 = r.call("fromtree", P.fromtree, el)
        if ok:
            d = diff(Strict(exp), back4)
            if d:
                r.fail("fromtree(totree)", d)
        wrapper = etree.Element("lib")
        wrapper.append(el)
        ok, xml = r.call("tostring", etree.tostring, wrapper, encoding="utf-8", pretty_print=True)
        if ok:
            ok, el2 = r.call("fromstring", etree.fromstring, xml)
            if ok:
                ok, back5 = r.call("fromtree2", P.fromtree, el2[0])
                if ok:
                    d = diff(Strict(exp), back5)
                    if d:
                        r.fail("fromtree(reparsed totree)", d)
    st_ = tree_stats(spec)
    labels = ["plist:%s" % t for t in sorted(st_["types"])] + ["plist:mode=%s" % mode, "plist:depth>=3" if st_["depth"] >= 3 else "plist:depth<3"]
    r.acc.case(("plist", case), nontrivial=len(st_["types"]) >= 3, labels=labels, sample=case if st_["depth"] >= 2 else None)


def _wrap_bytes(o, data_cls):
    if isinstance(o, bytes):
        return data_cls(o)
    if isinstance(o, dict):
        return {k: _wrap_bytes(v, data_cls) for k, v in o.items()}
    if isinstance(o, list):
        return [_wrap_bytes(v, data_cls) for v in o]
    if isinstance(o, tuple):
        return tuple(_wrap_bytes(v, data_cls) for v in o)
    return o


def _unwrap_data(o, data_cls):
    if isinstance(o, data_cls):
        return o.data
    if isinstance(o, dict):
        return {k: _unwrap_data(v, data_cls) for k, v in o.items()}
    if isinstance(o, list):
        return [_unwrap_data(v, data_cls) for v in o]
    return o


def _count_type(o, t):
    if isinstance(o, t):
        return 1
    if isinstance(o, dict):
        return sum(_count_type(v, t) for v in o.values())
    if isinstance(o, list):
        return sum(_count_type(v, t) for v in o)
    return 0


def _count_bytes(o):
    return _count_type(o, bytes)


def _strip_wrappers(spec):
    """$data/$bytearray -> plain bytes (for the stdlib writer)."""
    if isinstance(spec, dict):
        if len(spec) == 1 and next(iter(spec)) in ("$data", "$bytearray"):
            return bytes(next(iter(spec.values())))
        if len(spec) == 1 and next(iter(spec)) == "$date":
            return spec
        return {k: _strip_wrappers(v) for k, v in spec.items()}
    if isinstance(spec, list):
        return [_strip_wrappers(v) for v in spec]
    return spec


def _key_order(o, want_sorted, path="$"):
    if isinstance(o, dict):
        keys = list(o)
        if want_sorted and keys != sorted(keys):
            return "%s: keys not sorted: %r" % (path, keys[:6])
        for k, v in o.items():
            d = _key_order(v, want_sorted, "%s[%r]" % (path, k))
            if d:
                return d
    elif isinstance(o, list):
        for i, v in enumerate(o):
            d = _key_order(v, want_sorted, "%s[%d]" % (path, i))
            if d:
                return d
    return None


def _same_order(a, b, path="$"):
    if isinstance(a, dict) and isinstance(b, dict):
        if list(a) != list(b):
            return "%s: key order %r, written %r" % (path, list(b)[:6], list(a)[:6])
        for k in a:
            d = _same_order(a[k], b[k], "%s[%r]" % (path, k))
            if d:
                return d
    elif isinstance(a, list) and isinstance(b, list):
        for i, (x, y) in enumerate(zip(a, b)):
            d = _same_order(x, y, "%s[%d]" % (path, i))
            if d:
                return d
    return None


# ---------------------------------------------------------------------------
# (6) axis maps


def ref_piecewise(v, pairs):
    """Exact piecewise-linear interpolation through (x, y) pairs (x strictly increasing), v within range."""
    v = Fraction(v)
    pts = sorted((Fraction(x), Fraction(y)) for x, y in pairs)
    for (x1, y1), (x2, y2) in zip(pts, pts[1:]):
        if x1 <= v <= x2:
            return y1 + (y2 - y1) * (v - x1) / (x2 - x1)
    if v == pts[0][0]:
        return pts[0][1]
    raise HarnessError("reference map evaluated outside its range: %r" % (v,))


def check_axismap(case, r):
    from fontTools.designspaceLib import AxisDescriptor, DesignSpaceDocument, DiscreteAxisDescriptor

    pairs = [tuple(p) for p in case["map"]]
    if case.get("discrete"):
        ax = DiscreteAxisDescriptor(name="D", tag="DDDD", values=[p[0] for p in pairs], default=pairs[0][0], map=list(pairs))
        fwd = dict(pairs)
        for v in case["vs"]:
            ok, f = r.call("map_forward", ax.map_forward, v)
            if not ok:
                continue
            if f != fwd[v]:
                r.fail("discrete-forward", "map %r: forward(%r) = %r, expected %r" % (pairs, v, f, fwd[v]))
            ok, b = r.call("map_backward", ax.map_backward, f)
            if ok and b != v:
                r.fail("discrete-backward", "map %r: backward(forward(%r)) = %r" % (pairs, v, b))
        r.acc.case(("axismap", case), nontrivial=len(pairs) > 1, labels=["axismap:discrete"])
        return
    us = [p[0] for p in pairs]
    ds = [p[1] for p in pairs]
    scale = max([1.0] + [abs(x) for x in us + ds])
    tol = 1e-9 * scale
    ax = AxisDescriptor(name="W", tag="wght", minimum=min(us), default=min(us), maximum=max(us), map=list(pairs))
    doc = DesignSpaceDocument()
    doc.addAxis(ax)
    inv = [(d, u) for u, d in pairs]
    for v in case["vs"]:
        ok, f = r.call("map_forward", ax.map_forward, v)
        if not ok:
            continue
        ref = ref_piecewise(v, pairs)
        if abs(Fraction(f) - ref) > tol:
            r.fail("forward-vs-reference", "map %r: forward(%r) = %r, exact %r" % (pairs, v, f, float(ref)))
            continue
        ok, b = r.call("map_backward", ax.map_backward, f)
        if not ok:
            continue
        if abs(b - v) > tol:
            r.fail("backward(forward)", "map %r: backward(forward(%r) = %r) = %r (tolerance %g)" % (pairs, v, f, b, tol))
        refb = ref_piecewise(ref, inv)
        if abs(Fraction(ax.map_backward(float(ref))) - refb) > tol:
            r.fail("backward-vs-reference", "map %r: backward(%r) = %r, exact %r" % (pairs, float(ref), ax.map_backward(float(ref)), float(refb)))
        # anisotropic design value: only the x value counts (documented)
        ok, b2 = r.call("map_backward-tuple", ax.map_backward, (f, f + 1))
        if ok and b2 != b:
            r.fail("backward-tuple", "map %r: backward((%r, ...)) = %r vs %r" % (pairs, f, b2, b))
        ok, df = r.call("doc.map_forward", doc.map_forward, {"W": v})
        if ok and df != {"W": f}:
            r.fail("doc-forward", "%r vs %r" % (df, f))
        ok, db = r.call("doc.map_backward", doc.map_backward, {"W": f})
        if ok and db != {"W": b}:
            r.fail("doc-backward", "%r vs %r" % (db, b))
    decreasing = ds[us.index(max(us))] < ds[us.index(min(us))]
    r.acc.case(
        ("axismap", case),
        nontrivial=len(pairs) >= 3,
        labels=["axismap:decreasing" if decreasing else "axismap:increasing", "axismap:points=%d" % min(len(pairs), 6), "axismap:unsorted-input" if us != sorted(us) else "axismap:sorted-input"],
    )


# ---------------------------------------------------------------------------
# (5) file names

UFO_ILLEGAL = set(chr(i) for i in range(0, 32)) | {"\x7f"} | set('"*+/:<>?[\\]|()')
MISC_ILLEGAL = set(chr(i) for i in range(0, 32)) | {"\x7f"} | set('"*+/:<>?[\\]|')
UFO_RESERVED = {"con", "prn", "aux", "clock$", "nul"} | {"com%d" % i for i in range(1, 10)} | {"lpt%d" % i for i in range(1, 10)}
MISC_RESERVED = {"con", "prn", "aux", "clock$", "nul", "a:-z:", "com1", "lpt1", "lpt2", "lpt3", "com2", "com3", "com4"}
MAXLEN = 255


def ref_filter(name, illegal, prefix):
    """UFO 3 convention, steps before clipping."""
    if not prefix and name[0] == ".":
        name = "_" + name[1:]
    out = []
    for ch in name:
        if ch in illegal:
            out.append("_")
        elif ch != ch.lower():
            out.append(ch + "_")
        else:
            out.append(ch)
    return "".join(out)


def ref_file_name(name, existing, illegal, reserved, prefix="", suffix=""):
    """Reference implementation of the UFO 3 'user name to file name' convention.
    Returns (fileName, clashed)."""
    s = ref_filter(name, illegal, prefix)
    s = s[: MAXLEN - len(prefix) - len(suffix)]
    s = ".".join("_" + p if p.lower() in reserved else p for p in s.split("."))
    full = prefix + s + suffix
    if full.lower() not in existing:
        return full, False
    # clash: make room for, and append, a 15 digit counter
    over = len(prefix) + len(s) + len(suffix) + 15 - MAXLEN
    if over > 0:
        s = s[: len(s) - over] if over < len(s) else ""
    n = 1
    while True:
        full = prefix + s + "%015d" % n + suffix
        if full.lower() not in existing:
            return full, True
        n += 1
        if n > 100000:
            raise HarnessError("reference clash counter ran away")


def known_overflow(name, illegal, reserved, prefix, suffix):
    """Known finding (reported): the '_' put in front of reserved parts is added after the
    255 clip, so such names can exceed 255 characters. Excluded by construction."""
    s = ref_filter(name, illegal, prefix)[: MAXLEN - len(prefix) - len(suffix)]
    nres = sum(1 for p in s.split(".") if p.lower() in reserved)
    return nres > 0 and len(prefix) + len(s) + nres + len(suffix) > MAXLEN


def name_violations(fn, illegal, reserved, prefix, suffix, existing):
    out = []
    if len(fn) > MAXLEN:
        out.append(("too-long", "%d characters" % len(fn)))
    bad = sorted(set(fn) & illegal)
    if bad:
        out.append(("illegal-character", "%r in %s" % (bad, short(repr(fn), 80))))
    if not (fn.startswith(prefix) and fn.endswith(suffix) and len(fn) >= len(prefix) + len(suffix)):
        out.append(("prefix-suffix", short(repr(fn), 80)))
    core = fn[len(prefix) : len(fn) - len(suffix)] if suffix else fn[len(prefix) :]
    if any(p.lower() in reserved for p in core.split(".")):
        out.append(("reserved-name", short(repr(fn), 80)))
    if not prefix and fn.startswith("."):
        out.append(("leading-dot", short(repr(fn), 80)))
    if core == "":
        out.append(("empty", short(repr(fn), 80)))
    if fn.lower() in existing:
        out.append(("not-unique-ignoring-case", short(repr(fn), 80)))
    return out


_VARIANTS = {
    "ufo": ("ufo", "", ""),
    "ufo-glif": ("ufo", "", ".glif"),
    "ufo-layer": ("ufo", "glyphs.", ""),
    "misc": ("misc", "", ""),
    "misc-glif": ("misc", "", ".glif"),
}


def check_names(case, r):
    from fontTools.misc import filenames as mf
    from fontTools.ufoLib import filenames as uf
    from fontTools.ufoLib.glifLib import glyphNameToFileName

    which, prefix, suffix = _VARIANTS[case["variant"]]
    mod = uf if which == "ufo" else mf
    illegal = UFO_ILLEGAL if which == "ufo" else MISC_ILLEGAL
    reserved = UFO_RESERVED if which == "ufo" else MISC_RESERVED
    existing = set()
    assigned = {}
    n_clash = n_trunc = n_res = n_used = 0
    for i, name in enumerate(case["names"]):
        if name == "":
            continue
        if known_overflow(name, illegal, reserved, prefix, suffix):
            r.acc.exclude("names:known-finding reserved part prefixed after 255 clip")
            continue
        if which == "misc" and ('"' in name or "\x00" in name):
            r.acc.exclude("names:known-finding misc.filenames keeps '\"' and NUL")
            continue
        if case["variant"] == "ufo-glif" and i % 2:
            ok, fn = r.call("glyphNameToFileName", glyphNameToFileName, name, existing)
        else:
            ok, fn = r.call("userNameToFileName", mod.userNameToFileName, name, existing, prefix=prefix, suffix=suffix)
        if not ok:
            continue
        n_used += 1
        if not isinstance(fn, str):
            r.fail("not-a-string", repr(fn))
            continue
        for what, detail in name_violations(fn, illegal, reserved, prefix, suffix, existing):
            r.fail(what, "name #%d %s -> %s" % (i, short(repr(name), 60), detail))
        ref, clashed = ref_file_name(name, existing, illegal, reserved, prefix, suffix)
        if fn != ref:
            r.fail("differs-from-convention", "name #%d %s: got %s, UFO convention gives %s" % (i, short(repr(name), 60), short(repr(fn), 90), short(repr(ref), 90)))
        n_clash += clashed
        n_trunc += len(ref_filter(name, illegal, prefix)) > MAXLEN - len(prefix) - len(suffix)
        n_res += any(p.lower() in reserved for p in ref_filter(name, illegal, prefix).split("."))
        existing.add(fn.lower())
        assigned[i] = fn
    labels = ["names:%s" % case["variant"]]
    labels += ["names:with-clash"] * bool(n_clash) + ["names:with-truncation"] * bool(n_trunc) + ["names:with-reserved"] * bool(n_res)
    labels += ["names:clash-after-truncation"] * bool(n_clash and n_trunc)
    r.acc.case(("names", case), nontrivial=bool(n_clash or n_trunc), labels=labels, sample=None)
    r.acc.label("names:individual-names", n_used)
    r.acc.label("names:individual-clashes", n_clash)


# ---------------------------------------------------------------------------
# (1) designspace documents


def ds_fmt(v):
    """The writer's documented number formatting: integral values as %d, others as %f."""
    if isinstance(v, (list, tuple)):
        return [ds_fmt(x) for x in v]
    if v is None:
        return None
    if v == int(v):
        return float(int(v))
    return float("%.6f" % v)


def _parse_format(s):
    if s is None:
        return (5, 0)
    parts = [int(x) for x in s.split(".")]
    return (parts[0], parts[1] if len(parts) > 1 else 0)


def ds_expected_format(d):
    fmt = _parse_format(d["formatVersion"])
    needs5 = (
        any(ax["kind"] == "discrete" or ax["axisOrdering"] is not None or ax["axisLabels"] for ax in d["axes"])
        or d["locationLabels"]
        or any(s["localisedFamilyName"] for s in d["sources"])
        or d["variableFonts"]
        or any(i["locationLabel"] or i["userLocation"] for i in d["instances"])
    )
    if needs5 and fmt < (5, 0):
        fmt = (5, 0)
    if d["axisMappings"] and fmt < (5, 1):
        fmt = (5, 1)
    return fmt


_LOCALISED = ("localisedFamilyName", "localisedStyleName", "localisedStyleMapFamilyName", "localisedStyleMapStyleName")


def ds_sanitize(d, acc):
    """Remove, with a counter, input classes that are known not to survive (reported as
    candidate findings or deprecated/lossy by design). Operates on a copy."""
    import copy

    d = copy.deepcopy(d)

    def ex(why):
        if acc is not None:
            acc.exclude(why)

    for ax in d["axes"]:
        for k, v in list(ax["labelNames"].items()):
            if v == "":
                ax["labelNames"][k] = "x"
                ex("ds:known-finding empty localised axis name crashes the reader")
    for s in d["sources"]:
        if "en" in s["localisedFamilyName"]:
            del s["localisedFamilyName"]["en"]
            ex("ds:known-finding 'en' entry of localised names is not written")
    for i in d["instances"]:
        for k in _LOCALISED:
            if "en" in i[k]:
                del i[k]["en"]
                ex("ds:known-finding 'en' entry of localised names is not written")
        if not i["kerning"] or not i["info"]:
            i["kerning"] = i["info"] = True
            ex("ds:instance kerning/info=False (deprecated flags, not carried by the format)")
    for vf in d["variableFonts"]:
        for sub in vf["axisSubsets"]:
            if sub["kind"] == "range":
                vals = [sub["userMinimum"], sub["userDefault"], sub["userMaximum"]]
                if any(v is None for v in vals) and not all(v is None for v in vals):
                    lo, de, hi = sorted(x for x in vals if x is not None)[0], None, None
                    present = sorted(x for x in vals if x is not None)
                    sub["userMinimum"] = present[0] if sub["userMinimum"] is None else sub["userMinimum"]
                    sub["userMaximum"] = present[-1] if sub["userMaximum"] is None else sub["userMaximum"]
                    sub["userDefault"] = sub["userMinimum"] if sub["userDefault"] is None else sub["userDefault"]
                    a, b, c = sorted([sub["userMinimum"], sub["userDefault"], sub["userMaximum"]])
                    sub["userMinimum"], sub["userDefault"], sub["userMaximum"] = a, b, c
                    ex("ds:known-finding partial range axis-subset cannot be read back")
    if ds_expected_format(d) >= (5, 0):
        for i in d["instances"]:
            if i["glyphs"]:
                i["glyphs"] = {}
                ex("ds:instance glyphs in a format 5 document (deprecated, not written)")
    if not d["rules"]:
        d["rulesProcessingLast"] = False
    n = [0]

    def negzero(o, key=None):
        # known finding: a value in (-5e-7, 0) is written as "-0" and, re-read, as "0" (second write differs)
        if isinstance(o, dict):
            return {k: (v if k == "lib" else negzero(v, k)) for k, v in o.items()}
        if isinstance(o, list):
            return [negzero(v) for v in o]
        if isinstance(o, float) and o < 0 and o != int(o) and float("%.6f" % o) == 0:
            n[0] += 1
            return 0
        return o

    d = negzero(d)
    for _ in range(n[0]):
        ex("ds:known-finding tiny negative number written as '-0' (second write differs)")
    return d


def _tup(v):
    return tuple(v) if isinstance(v, list) else v


def _loc_build(loc):
    return {k: _tup(v) for k, v in loc.items()}


def ds_build(d, base_dir=None):
    from fontTools import designspaceLib as L

    doc = L.DesignSpaceDocument()
    doc.formatVersion = d["formatVersion"]
    doc.elidedFallbackName = d["elidedFallbackName"]
    for ax in d["axes"]:
        labels = [
            L.AxisLabelDescriptor(
                name=l["name"], userValue=l["userValue"], userMinimum=l["userMinimum"], userMaximum=l["userMaximum"],
                elidable=l["elidable"], olderSibling=l["olderSibling"], linkedUserValue=l["linkedUserValue"], labelNames=dict(l["labelNames"]),
            )
            for l in ax["axisLabels"]
        ]
        common = dict(tag=ax["tag"], name=ax["name"], labelNames=dict(ax["labelNames"]), hidden=ax["hidden"], map=[tuple(p) for p in ax["map"]], axisOrdering=ax["axisOrdering"], axisLabels=labels)
        if ax["kind"] == "discrete":
            doc.addAxisDescriptor(values=list(ax["values"]), default=ax["default"], **common)
        else:
            doc.addAxisDescriptor(minimum=ax["minimum"], default=ax["default"], maximum=ax["maximum"], **common)
    for m in d["axisMappings"]:
        doc.addAxisMappingDescriptor(inputLocation=dict(m["inputLocation"]), outputLocation=dict(m["outputLocation"]), description=m["description"], groupDescription=m["groupDescription"])
    for l in d["locationLabels"]:
        doc.addLocationLabelDescriptor(name=l["name"], userLocation=dict(l["userLocation"]), elidable=l["elidable"], olderSibling=l["olderSibling"], labelNames=dict(l["labelNames"]))
    for ru in d["rules"]:
        doc.addRuleDescriptor(name=ru["name"], conditionSets=[[dict(c) for c in cs] for cs in ru["conditionSets"]], subs=[tuple(s) for s in ru["subs"]])
    doc.rulesProcessingLast = d["rulesProcessingLast"]
    for s in d["sources"]:
        path = None
        if base_dir is not None and s.get("path_rel"):
            path = os.path.join(base_dir, s["path_rel"])
        doc.addSourceDescriptor(
            filename=s["filename"], path=path, name=s["name"], location=_loc_build(s["location"]), layerName=s["layerName"], familyName=s["familyName"],
            styleName=s["styleName"], localisedFamilyName=dict(s["localisedFamilyName"]), copyLib=s["copyLib"], copyInfo=s["copyInfo"], copyGroups=s["copyGroups"],
            copyFeatures=s["copyFeatures"], muteKerning=s["muteKerning"], muteInfo=s["muteInfo"], mutedGlyphNames=list(s["mutedGlyphNames"]),
        )
    for vf in d["variableFonts"]:
        subs = []
        for sub in vf["axisSubsets"]:
            if sub["kind"] == "value":
                subs.append(L.ValueAxisSubsetDescriptor(name=sub["name"], userValue=sub["userValue"]))
            else:
                kw = {}
                if sub["userMinimum"] is not None:
                    kw["userMinimum"] = sub["userMinimum"]
                if sub["userMaximum"] is not None:
                    kw["userMaximum"] = sub["userMaximum"]
                if sub["userDefault"] is not None:
                    kw["userDefault"] = sub["userDefault"]
                subs.append(L.RangeAxisSubsetDescriptor(name=sub["name"], **kw))
        doc.addVariableFontDescriptor(name=vf["name"], filename=vf["filename"], axisSubsets=subs, lib=pl_build(vf["lib"]))
    for i in d["instances"]:
        glyphs = {}
        for gn, gd in i["glyphs"].items():
            g = {}
            for k, v in gd.items():
                if k == "instanceLocation":
                    g[k] = _loc_build(v)
                elif k == "masters":
                    g[k] = [dict(m, location=(_loc_build(m["location"]) if m["location"] is not None else None)) for m in v]
                    for m in g[k]:
                        if m["font"] is None:
                            del m["font"]
                        if m["location"] is None:
                            del m["location"]
                else:
                    g[k] = list(v) if isinstance(v, list) else v
            glyphs[gn] = g
        doc.addInstanceDescriptor(
            filename=i["filename"], name=i["name"], locationLabel=i["locationLabel"], designLocation=_loc_build(i["designLocation"]), userLocation=dict(i["userLocation"]),
            familyName=i["familyName"], styleName=i["styleName"], postScriptFontName=i["postScriptFontName"], styleMapFamilyName=i["styleMapFamilyName"],
            styleMapStyleName=i["styleMapStyleName"], localisedFamilyName=dict(i["localisedFamilyName"]), localisedStyleName=dict(i["localisedStyleName"]),
            localisedStyleMapFamilyName=dict(i["localisedStyleMapFamilyName"]), localisedStyleMapStyleName=dict(i["localisedStyleMapStyleName"]),
            glyphs=glyphs, kerning=i["kerning"], info=i["info"], lib=pl_build(i["lib"]),
        )
    doc.lib = pl_build(d["lib"])
    return doc


def _default_design(ax):
    """Design-space default of an axis: the map output listed for the default, else the default."""
    for a, b in ax["map"]:
        if ds_fmt(a) == ds_fmt(ax["default"]):
            return b
    if ax["map"] and ax["kind"] == "range":
        raise HarnessError("format-4 axis map does not list the default")
    return ax["default"]


def ds_expected(d, base_dir=None):
    fmt = ds_expected_format(d)
    axis_order = [ax["name"] for ax in d["axes"]]
    defaults = {ax["name"]: _default_design(ax) for ax in d["axes"]} if fmt < (5, 0) else None

    def loc5(design=None, user=None):
        dl, ul = {}, {}
        for n in axis_order:
            if design is not None and n in design:
                dl[n] = ds_fmt(design[n])
            elif user is not None and n in user:
                ul[n] = ds_fmt(user[n])
        return dl, ul

    def loc4(loc):
        return {n: ds_fmt(loc[n]) if n in loc else ds_fmt(defaults[n]) for n in axis_order}

    e = {"formatVersion": "%d.%d" % fmt, "elidedFallbackName": d["elidedFallbackName"], "rulesProcessingLast": d["rulesProcessingLast"]}
    e["axes"] = []
    for ax in d["axes"]:
        a = {
            "kind": ax["kind"], "name": ax["name"], "tag": ax["tag"], "hidden": ax["hidden"], "labelNames": ax["labelNames"], "default": ds_fmt(ax["default"]),
            "map": [ds_fmt(p) for p in ax["map"]], "axisOrdering": ax["axisOrdering"],
            "axisLabels": [dict(l, userValue=ds_fmt(l["userValue"]), userMinimum=ds_fmt(l["userMinimum"]), userMaximum=ds_fmt(l["userMaximum"]), linkedUserValue=ds_fmt(l["linkedUserValue"])) for l in ax["axisLabels"]],
        }
        if ax["kind"] == "discrete":
            a["values"] = ds_fmt(ax["values"])
        else:
            a["minimum"], a["maximum"] = ds_fmt(ax["minimum"]), ds_fmt(ax["maximum"])
        e["axes"].append(a)
    e["axisMappings"] = [
        dict(m, inputLocation={k: ds_fmt(v) for k, v in m["inputLocation"].items()}, outputLocation={k: ds_fmt(v) for k, v in m["outputLocation"].items()}) for m in d["axisMappings"]
    ]
    e["locationLabels"] = [dict(l, userLocation=loc5(user=l["userLocation"])[1]) for l in d["locationLabels"]]
    e["rules"] = [
        {
            "name": ru["name"],
            "conditionSets": [[{"name": c["name"], "minimum": ds_fmt(c.get("minimum")), "maximum": ds_fmt(c.get("maximum"))} for c in cs] for cs in ru["conditionSets"]],
            "subs": [list(s) for s in ru["subs"]],
        }
        for ru in d["rules"]
    ]
    e["sources"] = []
    for idx, s in enumerate(d["sources"]):
        x = {k: s[k] for k in ("layerName", "familyName", "styleName", "localisedFamilyName", "copyLib", "copyInfo", "copyGroups", "copyFeatures", "muteKerning", "muteInfo", "mutedGlyphNames")}
        x["name"] = s["name"] if s["name"] is not None else "temp_master.%d" % idx
        x["location"] = loc5(design=s["location"])[0] if fmt >= (5, 0) else loc4(s["location"])
        x["filename"] = s["filename"]
        x["path"] = None
        if base_dir is not None:
            if s.get("path_rel"):
                x["filename"] = s["path_rel"]
            if x["filename"] is not None:
                x["path"] = os.path.normpath(os.path.join(base_dir, x["filename"]))
        e["sources"].append(x)
    e["variableFonts"] = []
    for vf in d["variableFonts"]:
        subs = []
        for sub in vf["axisSubsets"]:
            if sub["kind"] == "value":
                subs.append({"kind": "value", "name": sub["name"], "userValue": ds_fmt(sub["userValue"])})
            else:
                subs.append({"kind": "range", "name": sub["name"], "userMinimum": ds_fmt(sub["userMinimum"]) if sub["userMinimum"] is not None else -math.inf,
                             "userDefault": ds_fmt(sub["userDefault"]), "userMaximum": ds_fmt(sub["userMaximum"]) if sub["userMaximum"] is not None else math.inf})
        e["variableFonts"].append({"name": vf["name"], "filename": vf["filename"], "axisSubsets": subs, "lib": Strict(pl_expected(vf["lib"]))})
    e["instances"] = []
    for i in d["instances"]:
        x = {k: i[k] for k in ("filename", "name", "locationLabel", "familyName", "styleName", "postScriptFontName", "styleMapFamilyName", "styleMapStyleName", "kerning", "info") + _LOCALISED}
        if fmt >= (5, 0):
            if i["locationLabel"] is not None:
                x["designLocation"], x["userLocation"] = {}, {}
            else:
                x["designLocation"], x["userLocation"] = loc5(i["designLocation"], i["userLocation"])
        else:
            x["designLocation"], x["userLocation"] = loc4(i["designLocation"]), {}
        x["lib"] = Strict(pl_expected(i["lib"]))
        gl = {}
        for gn, gd in i["glyphs"].items():
            g = {}
            if gd.get("mute"):
                g["mute"] = True
            if "unicodes" in gd:
                g["unicodes"] = list(gd["unicodes"])
            if "note" in gd:
                g["note"] = gd["note"]
            if "instanceLocation" in gd:
                g["instanceLocation"] = loc4(gd["instanceLocation"])
            if "masters" in gd:
                g["masters"] = [{"font": m["font"], "location": loc4(m["location"]) if m["location"] is not None else None, "glyphName": m.get("glyphName", gn)} for m in gd["masters"]]
            gl[gn] = g
        x["glyphs"] = gl
        x["path"] = None
        if base_dir is not None and i["filename"] is not None:
            x["path"] = os.path.normpath(os.path.join(base_dir, i["filename"]))
        e["instances"].append(x)
    e["lib"] = Strict(pl_expected(d["lib"]))
    return e


def _plain_loc(loc):
    return {k: (list(v) if isinstance(v, tuple) else v) for k, v in (loc or {}).items()}


def ds_extract(doc, with_paths):
    """Plain data of a (re-read) document, attribute by attribute."""
    e = {"formatVersion": doc.formatVersion, "elidedFallbackName": doc.elidedFallbackName, "rulesProcessingLast": doc.rulesProcessingLast}
    e["axes"] = []
    for ax in doc.axes:
        a = {
            "kind": "discrete" if hasattr(ax, "values") else "range", "name": ax.name, "tag": ax.tag, "hidden": ax.hidden, "labelNames": dict(ax.labelNames), "default": ax.default,
            "map": [list(p) for p in ax.map], "axisOrdering": ax.axisOrdering,
            "axisLabels": [
                {"name": l.name, "userValue": l.userValue, "userMinimum": l.userMinimum, "userMaximum": l.userMaximum, "linkedUserValue": l.linkedUserValue,
                 "elidable": l.elidable, "olderSibling": l.olderSibling, "labelNames": dict(l.labelNames)}
                for l in ax.axisLabels
            ],
        }
        if a["kind"] == "discrete":
            a["values"] = list(ax.values)
        else:
            a["minimum"], a["maximum"] = ax.minimum, ax.maximum
        e["axes"].append(a)
    e["axisMappings"] = [{"inputLocation": dict(m.inputLocation), "outputLocation": dict(m.outputLocation), "description": m.description, "groupDescription": m.groupDescription} for m in doc.axisMappings]
    e["locationLabels"] = [{"name": l.name, "userLocation": dict(l.userLocation), "elidable": l.elidable, "olderSibling": l.olderSibling, "labelNames": dict(l.labelNames)} for l in doc.locationLabels]
    e["rules"] = [{"name": ru.name, "conditionSets": [[dict(c) for c in cs] for cs in ru.conditionSets], "subs": [list(s) for s in ru.subs]} for ru in doc.rules]
    e["sources"] = []
    for s in doc.sources:
        x = {k: getattr(s, k) for k in ("layerName", "familyName", "styleName", "copyLib", "copyInfo", "copyGroups", "copyFeatures", "muteKerning", "muteInfo", "name", "filename")}
        x["localisedFamilyName"] = dict(s.localisedFamilyName)
        x["mutedGlyphNames"] = list(s.mutedGlyphNames)
        x["location"] = _plain_loc(s.location)
        x["path"] = os.path.normpath(s.path) if (with_paths and s.path is not None) else None
        e["sources"].append(x)
    e["variableFonts"] = []
    for vf in doc.variableFonts:
        subs = []
        for sub in vf.axisSubsets:
            if hasattr(sub, "userValue"):
                subs.append({"kind": "value", "name": sub.name, "userValue": sub.userValue})
            else:
                subs.append({"kind": "range", "name": sub.name, "userMinimum": sub.userMinimum, "userDefault": sub.userDefault, "userMaximum": sub.userMaximum})
        e["variableFonts"].append({"name": vf.name, "filename": vf.filename, "axisSubsets": subs, "lib": vf.lib})
    e["instances"] = []
    for i in doc.instances:
        x = {k: getattr(i, k) for k in ("filename", "name", "locationLabel", "familyName", "styleName", "postScriptFontName", "styleMapFamilyName", "styleMapStyleName", "kerning", "info")}
        for k in _LOCALISED:
            x[k] = dict(getattr(i, k))
        x["designLocation"] = _plain_loc(i.designLocation)
        x["userLocation"] = _plain_loc(i.userLocation)
        x["lib"] = i.lib
        gl = {}
        for gn, gd in i.glyphs.items():
            g = dict(gd)
            if "instanceLocation" in g:
                g["instanceLocation"] = _plain_loc(g["instanceLocation"])
            if "masters" in g:
                g["masters"] = [dict(m, location=_plain_loc(m["location"]) if m["location"] is not None else None) for m in g["masters"]]
            gl[gn] = g
        x["glyphs"] = gl
        x["path"] = os.path.normpath(i.path) if (with_paths and i.path is not None) else None
        e["instances"].append(x)
    e["lib"] = doc.lib
    return e


def check_ds(case, r):
    from fontTools.designspaceLib import DesignSpaceDocument

    d = ds_sanitize(case["doc"], r.acc)
    via = case["via"]
    fmt = ds_expected_format(d)
    if via == "file":
        with scratch_dir("c19ds") as tmp:
            _check_ds_file(d, r, tmp)
    else:
        enc = None
        if via == "str-unicode":
            # known finding: tostring(encoding=str / "unicode") raises with lxml installed
            r.acc.exclude("ds:known-finding tostring(encoding='unicode') raises (lxml)")
        doc = ds_build(d)
        ok, s1 = r.call("tostring", doc.tostring, encoding=enc)
        if not ok:
            return
        if not isinstance(s1, str if enc else bytes):
            r.fail("tostring-type", type(s1).__name__)
            return
        ok, s1b = r.call("tostring-again", doc.tostring, encoding=enc)
        if ok and s1b != s1:
            r.fail("write-not-repeatable", "two writes of the same document differ")
        ok, doc2 = r.call("fromstring", DesignSpaceDocument.fromstring, s1)
        if ok:
            got = ds_extract(doc2, False)
            df = diff(ds_expected(d), got)
            if df:
                r.fail("read(write)", "%s | xml %s" % (df, short(s1 if isinstance(s1, str) else s1.decode("utf-8", "replace"), 240)))
            ok, s2 = r.call("tostring(reread)", doc2.tostring, encoding=enc)
            # a <master> without glyphname is read with the glyph's own name filled in (documented
            # default), so the re-read document legitimately writes the attribute
            implicit = any("glyphName" not in m for i in d["instances"] for g in i["glyphs"].values() for m in g.get("masters", []))
            if implicit:
                r.acc.label("ds:fixed-point-skipped(implicit master glyphname)")
            if ok and s2 != s1 and not implicit:
                r.fail("second-write-differs", _first_text_diff(s1, s2))
    feats = []
    if any(ax["map"] for ax in d["axes"]):
        feats.append("map")
    if any(ax["kind"] == "discrete" for ax in d["axes"]):
        feats.append("discrete-axis")
    if any(ax["axisLabels"] for ax in d["axes"]):
        feats.append("axis-labels")
    for k in ("axisMappings", "locationLabels", "rules", "sources", "variableFonts", "instances", "lib"):
        if d[k]:
            feats.append(k)
    if any(i["glyphs"] for i in d["instances"]):
        feats.append("instance-glyphs")
    if any(isinstance(v, list) for i in d["instances"] for v in i["designLocation"].values()):
        feats.append("anisotropic")
    if any(i["userLocation"] for i in d["instances"]):
        feats.append("instance-userLocation")
    if any(i["locationLabel"] for i in d["instances"]):
        feats.append("instance-locationLabel")
    if any(i["lib"] for i in d["instances"]):
        feats.append("instance-lib")
    if any(s.get("path_rel") for s in d["sources"]) and via == "file":
        feats.append("source-path")
    declared = _parse_format(d["formatVersion"])
    labels = ["ds:%s" % f for f in feats] + ["ds:format=%d.%d" % fmt, "ds:via=%s" % via]
    if d["formatVersion"] is not None and declared != fmt:
        labels.append("ds:format-upgraded")
    optional = [f for f in feats if f in ("map", "rules", "discrete-axis", "lib", "axis-labels", "axisMappings", "variableFonts", "locationLabels")]
    r.acc.case(("ds", case), nontrivial=bool(optional), labels=labels, sample=case if len(feats) >= 6 else None)


def _check_ds_file(d, r, tmp):
    from fontTools.designspaceLib import DesignSpaceDocument

    doc = ds_build(d, base_dir=tmp)
    p1 = os.path.join(tmp, "Test Family.designspace")
    ok, _ = r.call("write", doc.write, p1)
    if not ok:
        return
    ok, doc2 = r.call("fromfile", DesignSpaceDocument.fromfile, p1)
    if not ok:
        return
    got = ds_extract(doc2, True)
    df = diff(ds_expected(d, base_dir=tmp), got)
    if df:
        r.fail("read(write)-file", df)
    if doc2.path != p1 or doc2.filename != os.path.basename(p1):
        r.fail("document-path", "%r / %r" % (doc2.path, doc2.filename))
    p2 = os.path.join(tmp, "second.designspace")
    ok, _ = r.call("write(reread)", doc2.write, p2)
    # writing a document read from disk recomputes filenames from the descriptors' paths (documented,
    # updatePaths case 4): an absolute filename becomes relative, a master glyphname is filled in
    skip = any(x["filename"] is not None and x["filename"].startswith("/") for x in d["sources"] + d["instances"])
    skip = skip or any("glyphName" not in m for i in d["instances"] for g in i["glyphs"].values() for m in g.get("masters", []))
    if skip:
        r.acc.label("ds:fixed-point-skipped(file)")
    if ok and not skip:
        with open(p1, "rb") as f1, open(p2, "rb") as f2:
            b1, b2 = f1.read(), f2.read()
        if b1 != b2:
            r.fail("second-write-differs-file", _first_text_diff(b1, b2))
    extra = sorted(set(os.listdir(tmp)) - {"Test Family.designspace", "second.designspace"})
    if extra:
        r.fail("unexpected-files", repr(extra))


def _first_text_diff(a, b):
    if isinstance(a, bytes):
        a = a.decode("utf-8", "replace")
    if isinstance(b, bytes):
        b = b.decode("utf-8", "replace")
    la, lb = a.splitlines(), b.splitlines()
    for i, (x, y) in enumerate(zip(la, lb)):
        if x != y:
            return "line %d: %s  |vs|  %s" % (i + 1, short(x.strip(), 160), short(y.strip(), 160))
    return "line counts %d vs %d; first extra: %s" % (len(la), len(lb), short((la[len(lb):] or lb[len(la):] or [""])[0].strip(), 160))
