"""convertCFF2ToCFF raises IndexError on a freshly loaded CFF2 font whose glyphs call local subroutines. The converter
sets cff.major = 1 and fd.setCFF2(False) BEFORE the lazily loaded Private DICT / local Subrs INDEX of the font DICT are
read, so the INDEX header (4-byte count in CFF2) is parsed with the CFF layout (2-byte count = 0): the Subrs INDEX looks
empty and decompiling '.notdef' = [-107, 'callsubr'] fails in op_callsubr with 'list index out of range'. Any access to
the subroutines before the conversion (e.g. drawing the glyphs) hides the problem. Input: a one-glyph CFF font with one
local subr, converted with convertCFFToCFF2, saved and reloaded. Expected: the conversion succeeds and the glyph draws the
same outline as before."""


def _build(charstrings, widths, private, lsubrs=()):
    """bytes of a small OpenType/CFF font; charstrings: name -> Type 2 program, lsubrs: local subroutine programs"""
    import io

    from fontTools.cffLib import SubrsIndex
    from fontTools.fontBuilder import FontBuilder
    from fontTools.misc.psCharStrings import T2CharString

    names = list(charstrings)
    fb = FontBuilder(1000, isTTF=False)
    fb.setupGlyphOrder(names)
    fb.setupCharacterMap({0x41 + i: n for i, n in enumerate(names) if i})
    fb.setupCFF("Witness", {"FullName": "Witness"}, {n: T2CharString(program=list(p)) for n, p in charstrings.items()}, dict(private))
    if lsubrs:
        subrs = SubrsIndex()
        for p in lsubrs:
            subrs.append(T2CharString(program=list(p)))
        fb.font["CFF "].cff.topDictIndex[0].Private.Subrs = subrs
    fb.setupHorizontalMetrics({n: (widths[n], 0) for n in names})
    fb.setupHorizontalHeader(ascent=800, descent=-200)
    fb.setupNameTable({"familyName": "Witness", "styleName": "Regular"})
    fb.setupOS2()
    fb.setupPost()
    buf = io.BytesIO()
    fb.font.save(buf)
    return buf.getvalue()


def reproduce():
    import io

    from fontTools.cffLib.CFF2ToCFF import convertCFF2ToCFF
    from fontTools.cffLib.CFFToCFF2 import convertCFFToCFF2
    from fontTools.pens.recordingPen import RecordingPen
    from fontTools.ttLib import TTFont

    data = _build(
        {".notdef": [-107, "callsubr", "endchar"]},
        {".notdef": 500},
        dict(defaultWidthX=500, nominalWidthX=0),
        lsubrs=[[10, 20, "rmoveto", 5, "hlineto", "return"]],
    )
    font = TTFont(io.BytesIO(data), recalcBBoxes=False)  # as the converters' command lines do
    expected = [("moveTo", ((10, 20),)), ("lineTo", ((15, 20),)), ("closePath", ())]  # hand-computed
    convertCFFToCFF2(font)
    buf = io.BytesIO()
    font.save(buf)

    font = TTFont(io.BytesIO(buf.getvalue()), recalcBBoxes=False)
    try:
        convertCFF2ToCFF(font)
    except IndexError as e:
        return "convertCFF2ToCFF(freshly loaded CFF2 font with a local subr) raises IndexError(%s)" % e
    pen = RecordingPen()
    top = font["CFF "].cff.topDictIndex[0]
    top.CharStrings[top.charset[0]].draw(pen)
    if pen.value != expected:
        return "after CFF2 -> CFF glyph 0 draws %r instead of %r" % (pen.value, expected)
    return None
