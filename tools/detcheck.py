#!/usr/bin/env python3
"""tools/detcheck.py <cNN> [seed]: runs every quick-tier job of a property twice (fresh pools) and reports
jobs whose (evaluations, distinct non-trivial, label histogram, failures) differ: a check must be a pure function
of the tree and VERIF_SEED. Run through ./check's environment: PYTHONHASHSEED=0 SOURCE_DATE_EPOCH=1700000000."""
import os, sys, multiprocessing
sys.path.insert(0, os.path.dirname(os.path.dirname(os.path.abspath(__file__))))
os.environ.setdefault("VERIF_OUT", "/verif/.scratch/detout")
from vf import runner
runner.bootstrap()
import importlib
mod = importlib.import_module("props." + sys.argv[1].lower())
seed = int(sys.argv[2]) if len(sys.argv) > 2 else 1
jobs = mod.jobs("quick", seed)

def run(j):
    acc = mod.run_job(j)
    return (j["name"], acc.evals, len(acc.nontrivial), sorted(acc.labels.items()), sorted((f["clause"], f["kind"]) for f in acc.failures))

if __name__ == "__main__":
    ctx = multiprocessing.get_context("fork")
    with ctx.Pool(16) as p:
        a = p.map(run, jobs, chunksize=1)
    with ctx.Pool(16) as p:
        b = p.map(run, list(reversed(jobs)), chunksize=1)
    b = list(reversed(b))
    bad = 0
    for x, y in zip(a, b):
        if x != y:
            bad += 1
            d = [(k, v, dict(y[3]).get(k)) for k, v in x[3] if dict(y[3]).get(k) != v]
            print("NONDET", x[0], x[1:3], y[1:3], d[:5])
    print("%s seed=%d jobs=%d nondeterministic=%d" % (sys.argv[1], seed, len(jobs), bad))
    sys.exit(1 if bad else 0)
