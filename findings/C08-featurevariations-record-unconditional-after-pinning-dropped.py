"""varLib.instancer drops a FeatureVariations record whose conditions all lie on pinned axes and hold at the pinned coordinates
when other records survive (instancer/featureVars.py _instantiateFeatureVariationRecord: shouldKeep only becomes true for a condition
on a REMAINING axis). Such a record matches at every location of the instance, so it has to stay as an unconditional record (and
shadow the later ones); instead locations outside the surviving records' ranges fall through to the appended catch-all record and get
the old default feature. Input: a two-axis font (wdth, wght) with rvrn rules 'wdth <= .328: I -> I.narrow' and 'wght <= .5: S -> S.closed'
(the rule set of Tests/varLib/data/MutatorSans_All_Variable.ttx), instanced with {"wght": None} (axis dropped at its default, where
S -> S.closed holds): HarfBuzz shapes 'S' at wdth=1000 to S.closed with the original and to S with the instance."""


def reproduce():
    from io import BytesIO
    import uharfbuzz as hb
    from fontTools.fontBuilder import FontBuilder
    from fontTools.pens.ttGlyphPen import TTGlyphPen
    from fontTools.ttLib import TTFont
    from fontTools.varLib import instancer
    from fontTools.varLib.featureVars import addFeatureVariations

    order = [".notdef", "S", "I", "S.closed", "I.narrow"]
    pen = TTGlyphPen(None)
    pen.moveTo((0, 0))
    pen.lineTo((0, 100))
    pen.lineTo((100, 100))
    pen.lineTo((100, 0))
    pen.closePath()
    box = pen.glyph()
    fb = FontBuilder(1000, isTTF=True)
    fb.setupGlyphOrder(order)
    fb.setupCharacterMap({ord("S"): "S", ord("I"): "I"})
    fb.setupGlyf({n: box for n in order})
    fb.setupHorizontalMetrics({n: (500, 0) for n in order})
    fb.setupHorizontalHeader(ascent=800, descent=-200)
    fb.setupNameTable({"familyName": "W", "styleName": "R"})
    fb.setupOS2()
    fb.setupPost()
    fb.setupFvar([("wdth", 0, 0, 1000, "Width"), ("wght", 0, 0, 1000, "Weight")], [])
    fb.setupGvar({n: [] for n in order})
    font = fb.font
    # normalised coordinates; addFeatureVariations emits [wdth&wght -> both], [wght -> S.closed], [wdth -> I.narrow]
    addFeatureVariations(font, [([{"wdth": (0, 0.328)}], {"I": "I.narrow"}), ([{"wght": (0, 0.5)}], {"S": "S.closed"})])
    buf = BytesIO()
    font.save(buf)
    original = buf.getvalue()

    def shape(data, text, location):
        f = hb.Font(hb.Face(data))
        f.set_variations(location)
        b = hb.Buffer()
        b.add_str(text)
        b.guess_segment_properties()
        hb.shape(f, b, {})
        return [f.glyph_to_string(i.codepoint) for i in b.glyph_infos]

    out = []
    for limits, pinned in (({"wght": None}, {"wght": 0}), ({"wdth": 100}, {"wdth": 100})):
        inst = instancer.instantiateVariableFont(TTFont(BytesIO(original)), dict(limits))
        buf = BytesIO()
        inst.save(buf)
        instance = buf.getvalue()
        free = "wdth" if "wght" in limits else "wght"
        for v in (0, 200, 400, 600, 1000):
            want = shape(original, "SI", dict(pinned, **{free: v}))
            got = shape(instance, "SI", {free: v})
            if got != want:
                out.append("instance %r at %s=%d shapes 'SI' to %s, the original at the same location to %s" % (limits, free, v, "+".join(got), "+".join(want)))
                break
    return "; ".join(out) or None
