"""Subsetter.subset raises AttributeError ('NoneType' object has no attribute 'subset_varidxes', subset._pruneGDEF) for
every request on a font whose GDEF table has version 1.3 and a NULL ItemVarStore offset. The OpenType specification says
the offset "may be NULL"; fontTools itself decompiles such a table to GDEF.table.VarStore = None, and
GDEF.prune_post_subset only tests hasattr(table, "VarStore"). Input: Tests/ttx/data/TestTTF.ttf with a GDEF 1.3 added that
holds a GlyphClassDef only (the shape of Tests/varLib/data/master_ttx_interpolatable_ttf/TestFamily-Master4.ttx and six
more corpus fonts), request U+002E with default options. Expected: a subset that keeps 'period'."""


def reproduce():
    import io
    import os

    from fontTools import subset
    from fontTools.ttLib import TTFont, newTable
    from fontTools.ttLib.tables import otTables as ot

    path = os.path.join(os.environ.get("VERIF_REPO", "/repo"), "Tests", "ttx", "data", "TestTTF.ttf")
    font = TTFont(path)
    gdef = font["GDEF"] = newTable("GDEF")
    gdef.table = t = ot.GDEF()
    t.Version = 0x00010003
    t.GlyphClassDef = ot.GlyphClassDef()
    t.GlyphClassDef.classDefs = {"period": 1}
    t.AttachList = t.LigCaretList = t.MarkAttachClassDef = t.MarkGlyphSetsDef = None
    t.VarStore = None  # NULL offset
    buf = io.BytesIO()
    font.save(buf)
    buf.seek(0)

    opts = subset.Options()
    font = subset.load_font(buf, opts)
    t = font["GDEF"].table
    if t.Version != 0x00010003 or getattr(t, "VarStore", 0) is not None:
        return None  # not the input this witness is about
    s = subset.Subsetter(opts)
    s.populate(unicodes=[0x2E])
    try:
        s.subset(font)
    except AttributeError as e:
        return "Subsetter.subset raised AttributeError: %s (GDEF 1.3 with NULL VarStore offset, unicodes=[0x2E])" % e
    out = io.BytesIO()
    subset.save_font(font, out, opts)
    out.seek(0)
    if "period" not in TTFont(out).getGlyphOrder():
        return "subset of U+002E does not contain 'period'"
    return None
