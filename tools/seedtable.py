#!/usr/bin/env python3
"""tools/seedtable.py : rewrites section 7.5 of DESIGN.md (between the markers) from seeded/*/meta.json."""
import glob, json, os, re
HERE = os.path.dirname(os.path.dirname(os.path.abspath(__file__)))
rows = []
for d in sorted(glob.glob(os.path.join(HERE, "seeded", "*", "meta.json"))):
    name = os.path.basename(os.path.dirname(d))
    m = json.load(open(d))
    c = m.get("confirmed", {})
    patch = open(os.path.join(os.path.dirname(d), "patch.diff")).read()
    files = sorted(set(x.replace("Lib/fontTools/", "") for x in re.findall(r"^\+\+\+ b/(\S+)", patch, re.M)))
    s = (m.get("summary") or "").replace("\n", " ").replace("|", "/")
    s = s[:170] + ("..." if len(s) > 170 else "")
    valid = c.get("demo_clean_exit") == 0 and c.get("demo_patched_exit") == 1 and c.get("tests_pass") in (True, None)
    first = "; ".join("%s %s (%ss)" % (k, "caught" if v.get("caught") else "MISSED", v.get("secs")) for k, v in (c.get("checks") or {}).items())
    a = m.get("after_strengthening")
    if isinstance(a, dict):
        a = a.get("change")
    spurious = m.get("first_catch_spurious")
    if spurious:
        first += " (through an unrelated bucket: counted as missed)"
    now = "caught" if any(v.get("caught") for v in (c.get("checks") or {}).values()) and not spurious else ("caught after strengthening: " + a[:260].replace("|", "/") if a else "MISSED")
    if not valid:
        now = "not a valid seeded change (existing tests fail with it): kept for the record" if c.get("tests_pass") is False else now
    rows.append("| %s | %s | %s | %s | %s |" % (name, ", ".join(files), s, first, now))
table = "| seeded change | file(s) | what it breaks | first run of the quick tier | status |\n|---|---|---|---|---|\n" + "\n".join(rows)
p = os.path.join(HERE, "DESIGN.md")
s = open(p).read()
a, b = "<!-- seedtable:begin -->", "<!-- seedtable:end -->"
if a not in s:
    s += "\n### 7.5 Seeded changes and the checks that catch them\n\n" + a + "\n" + b + "\n"
s = s[: s.index(a) + len(a)] + "\n" + table + "\n" + s[s.index(b):]
open(p, "w").write(s)
print("%d seeded changes; %d caught at first run, %d after strengthening, %d missed" % (len(rows), sum("caught (" in r.split("|")[4] and "MISSED" not in r.split("|")[4] for r in rows), sum("after strengthening" in r for r in rows), sum(r.rstrip(" |").endswith("MISSED") for r in rows)))
