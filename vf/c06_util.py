"""Helpers of the C06 check (serialising layout tables never changes shaping).

* swap_tables      put freshly compiled GSUB/GPOS/GDEF bytes into an existing sfnt without
                   going through fontTools (vf.sfntref reads and writes the container)
* Spy              context manager that *observes* the overflow machinery of otBase/otTables
                   (which packer returned the bytes, which resolution functions ran, how often)
                   and stops a resolution loop that makes no progress
* rule_probes      glyph-name runs read off a font's own GSUB/GPOS rules (inputs only)
* fea corpus       shell font with the glyph order of Tests/feaLib/builder_test.py
* extra generated families on top of vf.gen_layout (same spec format, same reference)
"""

import collections
import io
import os
import random
import re

from . import gen_layout as G
from . import sfntref
from .runner import TESTS, HarnessError

LAYOUT_TAGS = ("GDEF", "GSUB", "GPOS")
REPACKER_KEY = "fontTools.ttLib.tables.otBase:USE_HARFBUZZ_REPACKER"
RP = {"F": False, "N": None, "T": True}


# ---------------------------------------------------------------------------
# sfnt surgery


def sfnt_tables(data):
    c = sfntref.parse(data)
    if c.kind != "sfnt" or len(c.fonts) != 1:
        raise HarnessError("swap_tables wants a plain single sfnt, got %r" % c.kind)
    f = c.fonts[0]
    return f.sfntVersion, dict(f.tables)


def swap_tables(data, new):
    """data: plain sfnt bytes; new: {tag: bytes or None (drop)} -> sfnt bytes"""
    version, tables = sfnt_tables(data)
    for tag, b in new.items():
        if b is None:
            tables.pop(tag, None)
        else:
            tables[tag] = bytes(b)
    return sfntref.build_sfnt(version, sorted(tables.items()))


# ---------------------------------------------------------------------------
# observing overflow resolution


class OverflowLoop(BaseException):
    """Raised (by the harness) when one compile() asks for more overflow resolutions than any table
    of the generated sizes can need; BaseException so that no handler in the library swallows it."""


SPLIT_NAMES = {
    ("GSUB", 2): "MultipleSubst",
    ("GSUB", 3): "AlternateSubst",
    ("GSUB", 4): "LigatureSubst",
    ("GPOS", 1): "SinglePos",
    ("GPOS", 2): "PairPos",
    ("GPOS", 4): "MarkBasePos",
}


class Spy:
    """Wraps (call-through, result unchanged) the functions that make up offset-overflow handling.

    events: Counter of
        hb-ok, hb-fail:<Exc>                  hb.repack attempts
        py-ok, py-overflow                    pure-Python packing attempts
        promote:lookuplist                    fixLookupOverFlows for a LookupList->Lookup offset
        promote:lookup-subtable               fixLookupOverFlows for a Lookup->SubTable offset
        promote:after-subtable-fix-refused    fixLookupOverFlows as last resort for an overflow inside a subtable
        promote-refused:*                     the same, returned 0
        dontshare                             fixSubTableOverFlows set DontShare (first resort)
        split:<Type>[<format>], split-refused:<Type>
    packer: what produced the bytes compile() returned: 'hb', 'py', 'py-after-hb-fail' (no deduplication)
    """

    MAX_ATTEMPTS = 48

    def __init__(self, max_attempts=None):
        self.events = collections.Counter()
        self.packer = None
        self.attempts = 0
        self.max_attempts = max_attempts or self.MAX_ATTEMPTS
        self._undo = []

    def _patch(self, obj, name, new, is_item=False):
        if is_item:
            old = obj[name]
            obj[name] = new
            self._undo.append(lambda: obj.__setitem__(name, old))
        else:
            old = obj.__dict__[name] if isinstance(obj, type) else getattr(obj, name)
            setattr(obj, name, new)
            self._undo.append(lambda: setattr(obj, name, old))

    def __enter__(self):
        from fontTools.ttLib.tables import otBase, otTables

        spy = self
        W = otBase.OTTableWriter
        hb_orig = W.__dict__["getAllDataUsingHarfbuzz"]
        py_orig = W.__dict__["getAllData"]

        def getAllDataUsingHarfbuzz(w, tableTag):
            try:
                r = hb_orig(w, tableTag)
            except Exception as e:
                spy.events["hb-fail:%s" % type(e).__name__] += 1
                raise
            spy.events["hb-ok"] += 1
            spy.packer = "hb"
            return r

        def getAllData(w, remove_duplicate=True):
            try:
                r = py_orig(w, remove_duplicate)
            except otBase.OTLOffsetOverflowError:
                spy.events["py-overflow"] += 1
                raise
            spy.events["py-ok"] += 1
            spy.packer = "py" if remove_duplicate else "py-after-hb-fail"
            return r

        self._patch(W, "getAllDataUsingHarfbuzz", getAllDataUsingHarfbuzz)
        self._patch(W, "getAllData", getAllData)

        C = otBase.BaseTTXConverter
        resolve_orig = C.__dict__["tryResolveOverflow"]

        def tryResolveOverflow(conv, font, e, lastOverflowRecord):
            spy.attempts += 1
            if spy.attempts > spy.max_attempts:
                raise OverflowLoop("%d overflow resolutions in one compile (last: %r)" % (spy.attempts, e.value))
            return resolve_orig(conv, font, e, lastOverflowRecord)

        self._patch(C, "tryResolveOverflow", tryResolveOverflow)

        lk_orig = otTables.fixLookupOverFlows

        def fixLookupOverFlows(ttf, rec):
            ok = lk_orig(ttf, rec)
            if rec.itemName is not None:
                kind = "after-subtable-fix-refused"
            elif rec.SubTableIndex is None:
                kind = "lookuplist"
            else:
                kind = "lookup-subtable"
            spy.events[("promote:" if ok else "promote-refused:") + kind] += 1
            return ok

        self._patch(otTables, "fixLookupOverFlows", fixLookupOverFlows)

        st_orig = otTables.fixSubTableOverFlows
        self._split_called = 0

        def fixSubTableOverFlows(ttf, rec):
            before = spy._split_called
            ok = st_orig(ttf, rec)
            if ok and spy._split_called == before:
                spy.events["dontshare"] += 1
            elif not ok and spy._split_called == before:
                spy.events["split-refused:no-split-function"] += 1
            return ok

        self._patch(otTables, "fixSubTableOverFlows", fixSubTableOverFlows)

        for tag, d in otTables.splitTable.items():
            for ltype, fn in list(d.items()):
                name = SPLIT_NAMES.get((tag, ltype), "%s%d" % (tag, ltype))

                def wrapped(old, new, rec, _fn=fn, _name=name):
                    spy._split_called += 1
                    fmt = getattr(old, "Format", None)
                    ok = _fn(old, new, rec)
                    label = _name + (str(fmt) if _name == "PairPos" else "")
                    spy.events[("split:" if ok else "split-refused:") + label] += 1
                    if ok:
                        for attr in ("mapping", "alternates", "ligatures"):
                            if isinstance(getattr(old, attr, None), dict) and not getattr(old, attr):
                                # everything went to the new subtable: the same overflow comes back for it, for ever
                                spy.events["split-no-progress:" + label] += 1
                                raise OverflowLoop("split of %s left an empty subtable and moved everything to the new one (%r)" % (label, rec))
                    return ok

                self._patch(d, ltype, wrapped, is_item=True)
        return self

    def __exit__(self, *exc):
        while self._undo:
            self._undo.pop()()
        return False


# ---------------------------------------------------------------------------
# probe runs read off the rules of a (decompiled) font: inputs only, never an oracle


def _unwrap(lookup_type, st, ext_type):
    if lookup_type == ext_type:
        return st.ExtensionLookupType, st.ExtSubTable
    return lookup_type, st


def _class_members(classdef, universe):
    by = collections.defaultdict(list)
    defs = classdef.classDefs if classdef is not None else {}
    for g, c in sorted(defs.items()):
        by[c].append(g)
    zero = [g for g in universe if g not in defs]
    if zero:
        by[0] = zero
    return by


def _pick(rnd, seq, default):
    seq = list(seq)
    return rnd.choice(seq) if seq else default


def _context_probes(st, rnd, order, k):
    out = []
    fmt = st.Format
    anyg = lambda: rnd.choice(order)
    attrs = vars(st)
    if fmt == 3:
        back = [c.glyphs for c in (getattr(st, "BacktrackCoverage", None) or [])]
        inp = [c.glyphs for c in (getattr(st, "InputCoverage", None) or getattr(st, "Coverage", None) or [])]
        look = [c.glyphs for c in (getattr(st, "LookAheadCoverage", None) or [])]
        for _ in range(k):
            out.append([_pick(rnd, c, anyg()) for c in reversed(back)] + [_pick(rnd, c, anyg()) for c in inp] + [_pick(rnd, c, anyg()) for c in look])
        return out
    cov = st.Coverage.glyphs
    sets = None
    for name, v in attrs.items():
        if name.endswith(("RuleSet", "ClassSet")) and isinstance(v, list):
            sets = v
    if not sets:
        return [[g] for g in rnd.sample(cov, min(len(cov), k))]
    if fmt == 1:
        idx = [i for i, s in enumerate(sets) if s is not None and i < len(cov)]
        for i in rnd.sample(idx, min(len(idx), k)):
            rules = [v for n, v in vars(sets[i]).items() if isinstance(v, list)]
            rules = rules[0] if rules else []
            for rule in rnd.sample(rules, min(len(rules), 2)):
                back = list(getattr(rule, "Backtrack", None) or [])
                inp = list(getattr(rule, "Input", None) or [])
                look = list(getattr(rule, "LookAhead", None) or [])
                out.append(list(reversed(back)) + [cov[i]] + inp + look)
        return out
    # format 2
    in_cd = getattr(st, "InputClassDef", None) or getattr(st, "ClassDef", None)
    members_in = _class_members(in_cd, order)
    members_back = _class_members(getattr(st, "BacktrackClassDef", None), order) if hasattr(st, "BacktrackClassDef") else members_in
    members_look = _class_members(getattr(st, "LookAheadClassDef", None), order) if hasattr(st, "LookAheadClassDef") else members_in
    idx = [i for i, s in enumerate(sets) if s is not None]
    for i in rnd.sample(idx, min(len(idx), k)):
        firsts = [g for g in members_in.get(i, []) if g in set(cov)]
        if not firsts:
            continue
        rules = [v for n, v in vars(sets[i]).items() if isinstance(v, list)]
        rules = rules[0] if rules else []
        for rule in rnd.sample(rules, min(len(rules), 2)):
            back = list(getattr(rule, "Backtrack", None) or [])
            inp = list(getattr(rule, "Class", None) or getattr(rule, "Input", None) or [])
            look = list(getattr(rule, "LookAhead", None) or [])
            out.append(
                [_pick(rnd, members_back.get(c, []), anyg()) for c in reversed(back)]
                + [rnd.choice(firsts)]
                + [_pick(rnd, members_in.get(c, []), anyg()) for c in inp]
                + [_pick(rnd, members_look.get(c, []), anyg()) for c in look]
            )
    return out


def _subtable_probes(tag, t, st, rnd, order, k):
    out = []
    some = lambda seq: rnd.sample(list(seq), min(len(seq), k))
    if tag == "GSUB":
        if t == 1:
            out = [[g] for g in some(sorted(st.mapping))]
        elif t == 2:
            out = [[g] for g in some(sorted(st.mapping))]
        elif t == 3:
            out = [[g] for g in some(sorted(st.alternates))]
        elif t == 4:
            for first in some(sorted(st.ligatures)):
                for lig in some(st.ligatures[first])[:2]:
                    out.append([first] + list(lig.Component))
        elif t in (5, 6):
            out = _context_probes(st, rnd, order, k)
        elif t == 8:
            back = [c.glyphs for c in (st.BacktrackCoverage or [])]
            look = [c.glyphs for c in (st.LookAheadCoverage or [])]
            for g in some(st.Coverage.glyphs):
                out.append([_pick(rnd, c, g) for c in reversed(back)] + [g] + [_pick(rnd, c, g) for c in look])
    else:
        if t == 1:
            out = [[g] for g in some(st.Coverage.glyphs)]
        elif t == 2:
            cov = st.Coverage.glyphs
            if st.Format == 1:
                idx = [i for i in range(min(len(cov), len(st.PairSet))) if st.PairSet[i].PairValueRecord]
                for i in some(idx):
                    for rec in some(st.PairSet[i].PairValueRecord)[:2]:
                        out.append([cov[i], rec.SecondGlyph])
            else:
                m2 = _class_members(st.ClassDef2, order)
                for g in some(cov):
                    c1 = st.ClassDef1.classDefs.get(g, 0)
                    row = st.Class1Record[c1].Class2Record if c1 < len(st.Class1Record) else []
                    nz = [j for j, r in enumerate(row) if (getattr(r, "Value1", None) is not None and r.Value1.getEffectiveFormat()) or (getattr(r, "Value2", None) is not None and r.Value2.getEffectiveFormat())]
                    j = rnd.choice(nz) if nz and rnd.random() < 0.8 else rnd.randrange(max(1, len(row)))
                    out.append([g, _pick(rnd, m2.get(j, []), rnd.choice(order))])
        elif t == 3:
            cov = st.Coverage.glyphs
            for _ in range(k):
                out.append([rnd.choice(cov) for _ in range(rnd.randint(2, 3))])
        elif t == 4:
            for _ in range(k):
                out.append([rnd.choice(st.BaseCoverage.glyphs), rnd.choice(st.MarkCoverage.glyphs)] + ([rnd.choice(st.MarkCoverage.glyphs)] if rnd.random() < 0.3 else []))
        elif t == 5:
            for _ in range(k):
                out.append([rnd.choice(st.LigatureCoverage.glyphs), rnd.choice(st.MarkCoverage.glyphs)] + ([rnd.choice(st.MarkCoverage.glyphs)] if rnd.random() < 0.3 else []))
        elif t == 6:
            for _ in range(k):
                out.append([rnd.choice(st.Mark2Coverage.glyphs), rnd.choice(st.Mark1Coverage.glyphs)])
        elif t in (7, 8):
            out = _context_probes(st, rnd, order, k)
    return out


def rule_probes(font, rnd, per_subtable=3, cap=90, maxlen=12):
    """Glyph-name runs that match the input sequences of the font's own rules, plus concatenations."""
    order = font.getGlyphOrder()
    known = set(order)
    seqs = []
    for tag, ext in (("GSUB", 7), ("GPOS", 9)):
        if tag not in font:
            continue
        try:
            table = font[tag].table
            lookups = table.LookupList.Lookup if table.LookupList else []
        except Exception:
            continue
        for lookup in lookups:
            for st in lookup.SubTable or []:
                try:
                    t, inner = _unwrap(lookup.LookupType, st, ext)
                    seqs.extend(_subtable_probes(tag, t, inner, rnd, order, per_subtable))
                except Exception:
                    pass  # odd test fonts; this only loses probes
    seqs = [s for s in seqs if s and all(g in known for g in s)]
    rnd.shuffle(seqs)
    seqs = seqs[:cap]
    out = [list(s) for s in seqs]
    for _ in range(len(seqs) // 3):
        a, b = rnd.choice(seqs), rnd.choice(seqs)
        mid = [rnd.choice(order)] if rnd.random() < 0.3 else []
        out.append(list(a) + mid + list(b))
    return [s[:maxlen] for s in out]


# ---------------------------------------------------------------------------
# feature-file corpus: shell font with the glyph order the feaLib tests use

_fea_order = None
_fea_shell = None


def fea_glyph_order():
    """The glyph order of Tests/feaLib/builder_test.py:makeTTFont, read from the test source."""
    global _fea_order
    if _fea_order is None:
        src = open(os.path.join(TESTS, "feaLib", "builder_test.py")).read()
        m = re.search(r'def makeTTFont\(\):\s+glyphs = """(.*?)"""\.split\(\)', src, re.S)
        if not m:
            raise HarnessError("cannot find makeTTFont glyph list in builder_test.py")
        glyphs = m.group(1).split()
        glyphs.extend("cid{:05d}".format(cid) for cid in range(800, 1001 + 1))
        _fea_order = glyphs
    return list(_fea_order)


def fea_shell_bytes():
    """A complete TrueType font with that glyph order: empty outlines, advance of glyph i = 500 + (i % 7) * 10,
    cmap for the single-letter glyph names, no layout tables."""
    global _fea_shell
    if _fea_shell is None:
        from fontTools.fontBuilder import FontBuilder
        from fontTools.ttLib.tables._g_l_y_f import Glyph

        names = fea_glyph_order()
        fb = FontBuilder(1000, isTTF=True)
        fb.setupGlyphOrder(names)
        fb.setupCharacterMap({ord(n): n for n in names if len(n) == 1})
        fb.setupGlyf({n: Glyph() for n in names})
        fb.setupHorizontalMetrics({n: (G.adv(i), 0) for i, n in enumerate(names)})
        fb.setupHorizontalHeader(ascent=800, descent=-200)
        fb.setupNameTable({"familyName": "C06fea", "styleName": "Regular"})
        fb.setupOS2()
        fb.setupPost()
        b = io.BytesIO()
        fb.font.save(b)
        _fea_shell = b.getvalue()
    return _fea_shell


def fea_files():
    root = os.path.join(TESTS, "feaLib", "data")
    out = []
    for dp, dn, fn in os.walk(root):
        dn.sort()
        for f in sorted(fn):
            if f.endswith(".fea"):
                out.append(os.path.relpath(os.path.join(dp, f), TESTS))
    return sorted(out)


def build_fea_font(rel):
    """TTFont(shell) + GDEF/GSUB/GPOS built (not compiled) by feaLib from Tests/<rel>."""
    from fontTools.feaLib.builder import addOpenTypeFeatures
    from fontTools.ttLib import TTFont

    font = TTFont(io.BytesIO(fea_shell_bytes()), recalcTimestamp=False)
    addOpenTypeFeatures(font, os.path.join(TESTS, rel), tables=["GDEF", "GSUB", "GPOS"])
    return font


# ---------------------------------------------------------------------------
# extra generated families (spec format, builder, reference and probes of vf.gen_layout are reused)

EXTRA_FAMILIES = ["unsplittable_single_cov", "shared_gpos", "shared_gsub"]
EXTRA_UNSPLITTABLE = {"unsplittable_single_cov"}
FAMILIES = list(G.FAMILIES) + EXTRA_FAMILIES
UNSPLITTABLE = set(G.UNSPLITTABLE) | EXTRA_UNSPLITTABLE
KERN_FAMILIES = ("kern_pairs", "kern_classes", "kern_classes_compact", "manylookups_gpos", "shared_gpos")


def make_spec(family, seed, scale=1.0):
    if family not in EXTRA_FAMILIES:
        return G.make_spec(family, seed, scale)
    rnd = random.Random(seed)
    S = scale
    spec = dict(family=family, fvalue=1, gdef={}, ext0=False)
    if family == "unsplittable_single_cov":
        # SingleSubst format 2 over > 32765 scattered glyphs: the substitute array alone pushes the Coverage
        # beyond a 16-bit offset and there is no split function for SingleSubst
        n = max(40, int(65000 * S))
        glyphs = list(range(1, n))
        cnt = max(5, min(len(glyphs), int(rnd.randint(32770, 32790) * S)))
        src = sorted(rnd.sample(glyphs, cnt))
        m = {g: rnd.choice(glyphs) for g in src}
        spec.update(n=n, table="GSUB", tag="ss03", lookups=[dict(kind="single", subtables=[dict(map=m)])])
    elif family == "shared_gpos":
        _shared_gpos(spec, rnd, S)
    elif family == "shared_gsub":
        _shared_gsub(spec, rnd, S)
    return spec


def _mutate_values(rnd, d, p, mk):
    return {k: (mk() if rnd.random() < p else v) for k, v in d.items()}


def _shared_gpos(spec, rnd, S):
    """Many GPOS lookups whose subtables are drawn from a small pool of templates and of near-copies of them
    (same coverage / class definitions / PairSets / anchors, one value or one ValueFormat changed): what the
    writer may share across subtables and lookups, and what it may not, decides how this shapes."""
    n = G._sc(rnd, 1200, 3000, S, 80)
    ids = list(range(1, n))
    rnd.shuffle(ids)
    nm = max(6, int(len(ids) * 0.15))
    markg, rest = ids[:nm], ids[nm:]
    baseg = rest[: max(6, len(rest) // 3)]
    kern_glyphs = sorted(rest)  # bases may be kerned, marks never are
    spec["ext0"] = rnd.random() < 0.25
    nl = G._sc(rnd, 60, 140, S, 4)
    templates = []
    for _ in range(rnd.randint(3, 6)):
        kind = rnd.choice(["pair1", "pair1", "pair2", "markbase"])
        if kind == "pair1":
            vf1 = rnd.choice([G.VF_XADV, G.VF_XADV | G.VF_XPLA, G.VF_XPLA | G.VF_YPLA])
            vf2 = rnd.choice([0, 0, G.VF_XPLA, G.VF_XADV])
            firsts = rnd.sample(kern_glyphs, min(len(kern_glyphs), G._sc(rnd, 30, 90, S, 3)))
            seconds = rnd.sample(kern_glyphs, min(len(kern_glyphs), G._sc(rnd, 20, 60, max(S, 0.2), 3)))
            pairs = {}
            for a in firsts:
                for b in rnd.sample(seconds, rnd.randint(1, min(len(seconds), 12))):
                    pairs[(a, b)] = (G._val(rnd, vf1), G._val(rnd, vf2))
            templates.append(("pair1", dict(pairs=pairs, vf1=vf1, vf2=vf2)))
        elif kind == "pair2":
            vf1 = rnd.choice([G.VF_XADV, G.VF_XADV | G.VF_XPLA])
            vf2 = rnd.choice([0, 0, G.VF_XPLA])
            r, c = G._sc(rnd, 8, 30, S, 2), G._sc(rnd, 8, 30, S, 2)
            c1 = G._partition(rnd, rnd.sample(kern_glyphs, min(len(kern_glyphs), r * 3)), r)
            c2 = G._partition(rnd, rnd.sample(kern_glyphs, min(len(kern_glyphs), c * 3)), c)
            vals = {}
            for i in range(len(c1)):
                for j in range(len(c2)):
                    if rnd.random() < 0.4:
                        vals[(i, j)] = (G._val(rnd, vf1), G._val(rnd, vf2))
            for i in range(len(c1)):
                if not any((i, j) in vals for j in range(len(c2))):
                    vals[(i, rnd.randrange(len(c2)))] = (G._val(rnd, vf1), G._val(rnd, vf2))
            for j in range(len(c2)):
                if not any((i, j) in vals for i in range(len(c1))):
                    vals[(rnd.randrange(len(c1)), j)] = (G._val(rnd, vf1), G._val(rnd, vf2))
            templates.append(("pair2", dict(c1=c1, c2=c2, vals=vals, vf1=vf1, vf2=vf2)))
        else:
            k = rnd.randint(2, 5)
            ms = rnd.sample(markg, min(len(markg), G._sc(rnd, 20, 60, S, k + 1)))
            marks = {m: ((i if i < k else rnd.randrange(k)), rnd.randint(-300, 300), rnd.randint(-300, 800)) for i, m in enumerate(ms)}
            bases = {}
            for b in rnd.sample(baseg, min(len(baseg), G._sc(rnd, 20, 60, S, 3))):
                d = {c: (rnd.randint(-200, 900), rnd.randint(-400, 1200)) for c in range(k) if rnd.random() < 0.8}
                bases[b] = d or {0: (rnd.randint(0, 900), rnd.randint(0, 900))}
            templates.append(("markbase", dict(marks=marks, bases=bases)))

    def variant(kind, st):
        how = rnd.choice(["same", "same", "one-value", "some-values", "format"])
        if how == "same":
            return dict(st)
        if kind == "pair1":
            st = dict(st)
            if how == "format":
                # same numbers, other meaning: swap which ValueFormat bits the numbers stand for
                alt = {G.VF_XADV: G.VF_XPLA, G.VF_XPLA: G.VF_XADV}
                if st["vf1"] in alt:
                    old, new = st["vf1"], alt[st["vf1"]]
                    st["vf1"] = new
                    conv = (lambda v: (v[2], 0, 0)) if new == G.VF_XPLA else (lambda v: (0, 0, v[0]))
                    st["pairs"] = {k: (conv(v1), v2) for k, (v1, v2) in st["pairs"].items()}
                return st
            p = 0.02 if how == "one-value" else 0.3
            st["pairs"] = _mutate_values(rnd, st["pairs"], p, lambda: (G._val(rnd, st["vf1"]), G._val(rnd, st["vf2"])))
            return st
        if kind == "pair2":
            st = dict(st)
            if how == "format":
                # same class definitions, the class rows rotated by one
                keys = sorted(st["vals"])
                vs = [st["vals"][k] for k in keys]
                st["vals"] = dict(zip(keys, vs[1:] + vs[:1]))
                return st
            p = 0.02 if how == "one-value" else 0.3
            st["vals"] = _mutate_values(rnd, st["vals"], p, lambda: (G._val(rnd, st["vf1"]), G._val(rnd, st["vf2"])))
            return st
        st = dict(st)
        p = 0.03 if how == "one-value" else 0.3
        if how == "format":
            st["marks"] = {m: (c, y, x) for m, (c, x, y) in st["marks"].items()}
            return st
        st["bases"] = {b: {c: ((rnd.randint(-200, 900), rnd.randint(-400, 1200)) if rnd.random() < p else a) for c, a in d.items()} for b, d in st["bases"].items()}
        return st

    lookups = []
    for _ in range(nl):
        kind, st = rnd.choice(templates)
        sts = [variant(kind, st) for _ in range(rnd.choice([1, 1, 2, 3]))]
        lookups.append(dict(kind=kind, subtables=sts))
    gdef = {m: 3 for m in markg}
    gdef.update({b: 1 for b in baseg})
    # pair lookups first, mark attachment afterwards (attachment replaces the mark's offsets)
    lookups.sort(key=lambda lk: lk["kind"] == "markbase")
    spec.update(n=n, table="GPOS", tag="kern", gdef=gdef, lookups=lookups)


def _shared_gsub(spec, rnd, S):
    """Many GSUB lookups over one glyph range built from shared templates and near-copies."""
    n = G._sc(rnd, 3000, 9000, S, 80)
    glyphs = list(range(1, n))
    spec["ext0"] = rnd.random() < 0.25
    nl = G._sc(rnd, 50, 120, S, 4)
    templates = []
    for _ in range(rnd.randint(3, 6)):
        kind = rnd.choice(["single", "multiple", "alternate", "ligature"])
        src = rnd.sample(glyphs, min(len(glyphs), G._sc(rnd, 150, 500, S, 4)))
        if kind == "single":
            templates.append((kind, dict(map={g: rnd.choice(glyphs) for g in src})))
        elif kind == "multiple":
            templates.append((kind, dict(map={g: [rnd.choice(glyphs) for _ in range(rnd.randint(2, 4))] for g in src})))
        elif kind == "alternate":
            templates.append((kind, dict(map={g: [rnd.choice(glyphs) for _ in range(rnd.randint(1, 4))] for g in src})))
        else:
            pool = rnd.sample(glyphs, min(len(glyphs), 30))
            ligs, seen = [], set()
            for f in src[: max(3, len(src) // 3)]:
                for _ in range(rnd.randint(1, 5)):
                    comps = (f,) + tuple(rnd.choice(pool) for _ in range(rnd.randint(1, 3)))
                    if comps not in seen:
                        seen.add(comps)
                        ligs.append((comps, rnd.choice(glyphs)))
            templates.append((kind, dict(ligs=ligs)))

    def variant(kind, st):
        how = rnd.choice(["same", "same", "one", "some"])
        if how == "same":
            return dict(st)
        p = 0.02 if how == "one" else 0.3
        if kind == "single":
            return dict(map={g: (rnd.choice(glyphs) if rnd.random() < p else o) for g, o in st["map"].items()})
        if kind in ("multiple", "alternate"):
            lo = 2 if kind == "multiple" else 1
            return dict(map={g: ([rnd.choice(glyphs) for _ in range(rnd.randint(lo, 4))] if rnd.random() < p else list(o)) for g, o in st["map"].items()})
        return dict(ligs=[(c, (rnd.choice(glyphs) if rnd.random() < p else l)) for c, l in st["ligs"]])

    lookups = []
    for _ in range(nl):
        kind, st = rnd.choice(templates)
        lookups.append(dict(kind=kind, subtables=[variant(kind, st) for _ in range(rnd.choice([1, 1, 2]))]))
    spec.update(n=n, table="GSUB", tag="ss04", lookups=lookups)
    if any(lk["kind"] == "alternate" for lk in lookups):
        spec["fvalue"] = rnd.choice([1, 1, 2])


# ---------------------------------------------------------------------------
# dense probes: every rule of the spec (or a budgeted sample) is hit at least once


def _pack(seqs, maxlen):
    """concatenate short sequences into runs of at most maxlen glyphs (the reference interprets whole runs,
    so accidental matches across the seams are expected values like any other)"""
    runs, cur = [], []
    for s in seqs:
        if cur and len(cur) + len(s) > maxlen:
            runs.append(cur)
            cur = []
        cur = cur + list(s)
    if cur:
        runs.append(cur)
    return runs


def dense_probes(spec, seed, budget=120000, maxlen=16):
    """Runs that together exercise every rule of the spec: every substitution source glyph, every ligature,
    every specific pair, every non-zero class pair (one random member each) plus zero cells, every mark and
    every base. `budget` bounds the number of glyphs (scaled down for specs with many lookups, whose
    reference interpretation is linear in lookups x glyphs); beyond it rules are sampled uniformly."""
    rnd = random.Random(seed)
    nl = max(1, len(spec["lookups"]))
    budget = int(min(budget, 3000000 / nl))
    seqs = []
    for lk in spec["lookups"]:
        k = lk["kind"]
        for st in lk["subtables"]:
            if k in ("single", "multiple", "alternate"):
                seqs += [[g] for g in st["map"]]
            elif k == "ligature":
                seqs += [list(c) for c, _l in st["ligs"]]
            elif k == "pair1":
                seqs += [[a, b] for a, b in st["pairs"]]
            elif k == "pair2":
                cells = list(st["vals"])
                nz = set(cells)
                for i in range(len(st["c1"])):
                    for j in rnd.sample(range(len(st["c2"])), min(len(st["c2"]), 3)):
                        if (i, j) not in nz:
                            cells.append((i, j))
                in2 = {g for c in st["c2"] for g in c}
                out2 = [g for g in range(1, spec["n"]) if g not in in2][:4000]
                for i, j in cells:
                    if j is None:  # class-0 column
                        if out2:
                            seqs.append([rnd.choice(st["c1"][i]), rnd.choice(out2)])
                        continue
                    seqs.append([rnd.choice(st["c1"][i]), rnd.choice(st["c2"][j])])
                for g, i in st.get("cd1_extra", []):
                    row = [j for (i2, j) in nz if i2 == i and j is not None]
                    if row:
                        seqs.append([g, rnd.choice(st["c2"][rnd.choice(row)])])
                # every member of every first class once (ClassDef1 / Coverage of the pieces), every member of every second class once
                some_j = list(range(len(st["c2"])))
                for i, c in enumerate(st["c1"]):
                    row = [j for j in some_j if (i, j) in nz] or some_j
                    for g in c:
                        seqs.append([g, rnd.choice(st["c2"][rnd.choice(row)])])
                some_i = list(range(len(st["c1"])))
                for j, c in enumerate(st["c2"]):
                    col = [i for i in some_i if (i, j) in nz] or some_i
                    for g in c:
                        seqs.append([rnd.choice(st["c1"][rnd.choice(col)]), g])
            elif k == "markbase":
                ms, bs = list(st["marks"]), list(st["bases"])
                for m in ms:
                    seqs.append([rnd.choice(bs), m])
                for b in bs:
                    seqs.append([b, rnd.choice(ms)])
                    seqs.append([b, rnd.choice(ms)])
    rnd.shuffle(seqs)
    total = 0
    keep = []
    for s in seqs:
        total += len(s)
        if total > budget:
            break
        keep.append(s)
    return _pack(keep, maxlen), len(keep), len(seqs)
