"""convertCFF2ToCFF can emit a charstring that needs 49 operand-stack entries (CFF limit: 48). It inserts the width
operand in front of the first operator without looking at that operator's operand count: a glyph that starts with a
48-operand hstem (24 stems; legal in CFF when the glyph has the default width and therefore no width operand) comes back
from CFF -> CFF2 -> CFF as 'w 1 ... 1 hstem' = 49 operands as soon as optimizeWidths chooses another defaultWidthX
(here the three other glyphs are 600 wide). The converter's 'stackUse > 48' repair only desubroutinises and re-specialises,
which never splits a stem operator. Expected: no operator of the emitted CFF program has more than 48 operands."""


def _build(charstrings, widths, private, lsubrs=()):
    """bytes of a small OpenType/CFF font; charstrings: name -> Type 2 program, lsubrs: local subroutine programs"""
    import io

    from fontTools.cffLib import SubrsIndex
    from fontTools.fontBuilder import FontBuilder
    from fontTools.misc.psCharStrings import T2CharString

    names = list(charstrings)
    fb = FontBuilder(1000, isTTF=False)
    fb.setupGlyphOrder(names)
    fb.setupCharacterMap({0x41 + i: n for i, n in enumerate(names) if i})
    fb.setupCFF("Witness", {"FullName": "Witness"}, {n: T2CharString(program=list(p)) for n, p in charstrings.items()}, dict(private))
    if lsubrs:
        subrs = SubrsIndex()
        for p in lsubrs:
            subrs.append(T2CharString(program=list(p)))
        fb.font["CFF "].cff.topDictIndex[0].Private.Subrs = subrs
    fb.setupHorizontalMetrics({n: (widths[n], 0) for n in names})
    fb.setupHorizontalHeader(ascent=800, descent=-200)
    fb.setupNameTable({"familyName": "Witness", "styleName": "Regular"})
    fb.setupOS2()
    fb.setupPost()
    buf = io.BytesIO()
    fb.font.save(buf)
    return buf.getvalue()


def reproduce():
    import io

    from fontTools.cffLib.CFF2ToCFF import convertCFF2ToCFF
    from fontTools.cffLib.CFFToCFF2 import convertCFFToCFF2
    from fontTools.ttLib import TTFont

    wide = [100, 10, 20, "rmoveto", 30, "hlineto", "endchar"]  # width 500 + 100
    data = _build(
        {".notdef": list(wide), "B": [1] * 48 + ["hstem", 10, 20, "rmoveto", 30, "hlineto", "endchar"], "C": list(wide), "D": list(wide)},
        {".notdef": 600, "B": 500, "C": 600, "D": 600},
        dict(defaultWidthX=500, nominalWidthX=500),
    )
    font = TTFont(io.BytesIO(data), recalcBBoxes=False)  # as the converters' command lines do
    convertCFFToCFF2(font)
    buf = io.BytesIO()
    font.save(buf)
    font = TTFont(io.BytesIO(buf.getvalue()), recalcBBoxes=False)
    convertCFF2ToCFF(font)
    buf = io.BytesIO()
    font.save(buf)
    font = TTFont(io.BytesIO(buf.getvalue()), recalcBBoxes=False)
    top = font["CFF "].cff.topDictIndex[0]
    cs = top.CharStrings[font.getGlyphOrder()[1]]
    cs.decompile()
    n = 0
    for t in cs.program:
        if isinstance(t, str):
            if n > 48:
                return "after CFF -> CFF2 -> CFF glyph 1 starts with %d operands in front of %s (CFF stack limit 48): %r ..." % (n, t, cs.program[:3])
            n = 0
        else:
            n += 1
    return None
