"""C10 — a built variable font reproduces each of its masters.

For every designspace (corpus designspaces with their TTX masters; generated designspaces
with generated compatible masters, see vf/gen_designspace.py) the variable font built by
fontTools.varLib.build is saved to bytes and given to HarfBuzz.  At every master's *user*
location (derived with the reference inverse of the designspace axis map written in
vf/gen_designspace.py) HarfBuzz's outlines, advances, kerning, mark offsets and MVAR-backed
metrics of the variable font are compared with HarfBuzz on the static master itself.
HarfBuzz's normalised coordinates for user values are compared with the reference
map+normalisation.

Rounding budget.  varLib computes the delta of master k from the *rounded* deltas of the masters
before it (models.VariationModel.getDeltas), so at master k the stored deltas reproduce the master's
integer up to the rounding of its own delta: 0.5.  On top of that
  * gvar built with optimize=True: each tuple whose deltas were IUP-optimised may be off by the
    documented tolerance 0.5, weighted by the tuple's scalar at the location;
  * CFF2 blends are not rounded (roundTolerance 0.01 per operand), charstring operands are relative, so the
    budget is 0.011 per point of the glyph;
  * HarfBuzz rounds advances and shaped positions to integers (one more 0.5 per rounded term);
  * region peaks and HarfBuzz's coordinates are F2Dot14: the effect of being (m+1) quanta away
    from the exact location on axis a is bounded by (m+1) * S_a where S_a is the change of the observed
    quantity for one quantum along a, measured on the built font itself by finite differences
    (m = measured distance, in quanta, of HarfBuzz's coordinate from the reference coordinate).
"""

import contextlib
import io
import math
import os
import random

from vf import corpus, geom, gen_designspace as G
from vf.runner import Acc, CaseTimeout, HarnessError, TESTS, fingerprint, hyp_collect, subseed, time_limit

ID = "C10"
LEVEL = "exploration"
RULE = (
    "corpus designspaces under Tests/varLib/data with their TTX masters (master files found by stem as the repository's tests do; "
    "defaults and optimize=False) and Hypothesis-generated designspaces: 1-3 axes min<default<max in user space, optional "
    "monotone piecewise-linear <map> (incl. reversed element order and flat segments), masters at default / axis extremes / on-axis "
    "intermediates / corners / off-axis intermediates in shuffled source order, sparse masters (glyph subsets, empty glyphs with the "
    "0xFFFF advance sentinel, no GPOS/GDEF, no OS/2+hhea with the post sentinel), FontBuilder masters from one skeleton "
    "(glyf incl. composites or CFF; per-master coordinates, advances, pair and class kerning, mark-to-base anchors, "
    "OS/2/hhea/post metrics, each a fixed quadratic polynomial of the master's normalised location). Oracle: HarfBuzz on the built "
    "font at each master's user location vs HarfBuzz on the static master (outlines, advances, kerning, mark offsets), "
    "MVAR variation vs the master's table fields, HarfBuzz normalised coordinates vs reference map+normalisation. "
    "non-trivial = (>= 3 masters or an intermediate/corner master) and glyph coordinates differ between masters; distinct by designspace fingerprint"
)
ASSUMPTIONS = [
    "HarfBuzz 12.1 implements fvar/avar normalisation, gvar (incl. IUP), CFF2 blend, HVAR, MVAR and GPOS variation-device semantics correctly",
    "rounding budget as in the module docstring: 0.5 for the master's own rounded delta (+0.5 x scalar per IUP-optimised gvar tuple, "
    "0.011 per point for CFF2), +0.5 per value HarfBuzz rounds (advances: 1 in total; kerning 1.5; mark offsets 2.5 in x incl. the base "
    "advance, 2 in y), plus the measured F2Dot14 quantisation slack",
    "axis-map tolerance: 0.51 quantum without a map; (1 + 1.05 s) quanta with a map, s = slope of the map segment in normalised units "
    "(input, segment ends and output are each rounded to F2Dot14 by avar's definition)",
    "corpus designspaces the repository's own tests expect varLib to reject (IncompatibleArrays/Features/LookupTypes, InterpolateLayout3 "
    "without axes, VarLibLocationTest without master files) and designspaceLib test documents without master fonts are excluded (counted)",
    "designspaces with avar2 <mappings>: masters are evaluated at their normalised design location (set directly), the axis-map clause is skipped",
    "shaped glyph runs whose output glyphs differ between the variable font and the static master (designspace <rules> -> feature variations) are skipped (counted)",
    "mute flags of sources are not interpreted by varLib.build (it reads the compiled masters); nothing is skipped for them",
]

Q = G.QUANTUM
# HarfBuzz 12 keeps normalised coordinates as 16.16 and rounds a second time when asked for F2Dot14: 0.5 + 0.125 quanta
NOMAP_TOL = 0.63
WALL_BUDGET = {"quick": 1500, "thorough": 4 * 3600}

# MVAR value tags (OpenType MVAR "Value tags"): tag -> (table, field as named by fontTools' table classes)
MVAR_FIELDS = {
    "hasc": ("OS/2", "sTypoAscender"), "hdsc": ("OS/2", "sTypoDescender"), "hlgp": ("OS/2", "sTypoLineGap"),
    "hcla": ("OS/2", "usWinAscent"), "hcld": ("OS/2", "usWinDescent"),
    "vasc": ("vhea", "ascent"), "vdsc": ("vhea", "descent"), "vlgp": ("vhea", "lineGap"),
    "hcrs": ("hhea", "caretSlopeRise"), "hcrn": ("hhea", "caretSlopeRun"), "hcof": ("hhea", "caretOffset"),
    "vcrs": ("vhea", "caretSlopeRise"), "vcrn": ("vhea", "caretSlopeRun"), "vcof": ("vhea", "caretOffset"),
    "xhgt": ("OS/2", "sxHeight"), "cpht": ("OS/2", "sCapHeight"),
    "sbxs": ("OS/2", "ySubscriptXSize"), "sbys": ("OS/2", "ySubscriptYSize"), "sbxo": ("OS/2", "ySubscriptXOffset"), "sbyo": ("OS/2", "ySubscriptYOffset"),
    "spxs": ("OS/2", "ySuperscriptXSize"), "spys": ("OS/2", "ySuperscriptYSize"), "spxo": ("OS/2", "ySuperscriptXOffset"), "spyo": ("OS/2", "ySuperscriptYOffset"),
    "strs": ("OS/2", "yStrikeoutSize"), "stro": ("OS/2", "yStrikeoutPosition"),
    "unds": ("post", "underlineThickness"), "undo": ("post", "underlinePosition"),
}  # fmt: skip
POST_SENTINEL = -0x8000  # documented in varLib._add_MVAR: underline fields of a sparse master's post table
ADV_SENTINEL = 0xFFFF  # documented in varLib._get_advance_metrics


def _tagint(t):
    return int.from_bytes(t.encode("ascii"), "big")


# ---------------------------------------------------------------------------
# observation helpers


def _flat(ops):
    """(structure key, flat coordinate list) of recorded pen calls."""
    key = []
    vals = []
    for op, pts in ops:
        key.append((op, len(pts)))
        for p in pts:
            if p is not None:
                vals.append(float(p[0]))
                vals.append(float(p[1]))
    return tuple(key), vals


def _maxdiff(a, b):
    return max((abs(x - y) for x, y in zip(a, b)), default=0.0)


def tent(v, lo, peak, hi):
    """OpenType region scalar for one axis."""
    if peak == 0 or lo > peak or peak > hi or (lo < 0 < hi):
        return 1.0
    if v < lo or v > hi:
        return 0.0
    if v == peak:
        return 1.0
    if v < peak:
        return (v - lo) / (peak - lo) if peak != lo else 0.0
    return (hi - v) / (hi - peak) if hi != peak else 0.0


class VF:
    """The built font through HarfBuzz, plus what is needed for the budget."""

    def __init__(self, data):
        from fontTools.ttLib import TTFont
        from vf.hbref import HBFont

        self.data = data
        self.hb = HBFont(data)
        self.font = TTFont(io.BytesIO(data))
        self.order = self.font.getGlyphOrder()
        self.gid = {n: i for i, n in enumerate(self.order)}
        self.axes = self.hb.axes()
        self.tags = [a[0] for a in self.axes]
        self.is_cff = "CFF2" in self.font
        self.gvar = self.font["gvar"].variations if "gvar" in self.font else None
        self.coords = [0.0] * len(self.tags)

    def norm(self):
        n = self.hb.normalized()
        return (list(n) + [0.0] * len(self.tags))[: len(self.tags)]

    def goto_user(self, loc):
        self.hb.set_location(loc)
        self.coords = self.norm()
        return self.coords

    def goto_norm(self, coords):
        self.hb.set_normalized(coords)
        self.coords = self.norm()
        return self.coords

    def slack(self, observe, dist, step=1, rounded=False):
        """sum_a (dist_a + 1) * S_a, S_a = change of observe() per quantum along axis a (both directions)."""
        base_coords = list(self.coords)
        f0 = observe()
        total = 0.0
        for a in range(len(base_coords)):
            s = 0.0
            for sign in (1, -1):
                c = list(base_coords)
                c[a] = min(1.0, max(-1.0, c[a] + sign * step * Q))
                if c[a] == base_coords[a]:
                    continue
                self.hb.set_normalized(c)
                f1 = observe()
                d = _maxdiff(f0, f1)
                if rounded:
                    d += 1.0
                s = max(s, d / step)
            total += (dist[a] + 1.0) * s
        self.hb.set_normalized(base_coords)
        return total

    def glyf_budget(self, name, optimize, depth=0):
        """Rounding budget of a glyf outline at the current coordinates: 0.5 for the glyph's own rounded deltas
        (+ IUP); a composite adds the (transformed) budget of its worst component to that of its own offsets."""
        b = 0.5 + (self.iup_budget(name) if optimize else 0.0)
        g = self.font["glyf"][name]
        if g.isComposite() and depth < 8:
            worst = 0.0
            for c in g.components:
                k = 1.0
                if hasattr(c, "transform"):
                    (xx, xy), (yx, yy) = c.transform
                    k = max(abs(xx) + abs(yx), abs(xy) + abs(yy), 1.0)
                if c.glyphName in self.gid:
                    worst = max(worst, k * self.glyf_budget(c.glyphName, optimize, depth + 1))
            b += worst
        return b

    def iup_budget(self, name):
        """0.5 x scalar for every gvar tuple of the glyph with inferred (IUP) deltas at the current coordinates."""
        if self.gvar is None:
            return 0.0
        loc = dict(zip(self.tags, self.coords))
        b = 0.0
        for tv in self.gvar.get(name) or []:
            if None not in tv.coordinates:
                continue
            s = 1.0
            for tag, (lo, pk, hi) in tv.axes.items():
                s *= tent(loc.get(tag, 0.0), lo, pk, hi)
                if s == 0.0:
                    break
            b += 0.5 * s
        return b


class Master:
    def __init__(self, label, data, font, user_loc, norm_ref, present=None, emptied=(), layout=True, tables=True):
        from vf.hbref import HBFont

        self.label = label
        self.hb = HBFont(data)
        self.font = font  # TTFont of the static master (for glyph order and table fields)
        self.order = font.getGlyphOrder()
        self.gid = {n: i for i, n in enumerate(self.order)}
        self.user_loc = user_loc
        self.norm_ref = norm_ref
        self.present = list(present) if present is not None else list(self.order)
        self.emptied = set(emptied)
        self.layout = layout
        self.tables = tables


# ---------------------------------------------------------------------------
# the comparison at one master


def compare_master(acc, vf, m, case, opts):
    """opts: dict(avar2=bool, axis_slopes=[s per axis], glyphs=[names] | None, runs=[[names]], optimize=bool)"""
    where = "master %s at user %r" % (m.label, m.user_loc)
    if opts.get("avar2"):
        coords = vf.goto_norm([round(x * 16384) / 16384.0 for x in m.norm_ref])
    else:
        coords = vf.goto_user(m.user_loc)
    # -- clause: axis mapping at the master location
    dist = []
    for a, (c, r) in enumerate(zip(coords, m.norm_ref)):
        d = abs(c - r) / Q
        dist.append(d)
        tol = opts["axis_tol"][a]
        if d > tol:
            acc.fail("axis-map", "master-location", "%s: axis %s normalised coordinate %.6f (HarfBuzz) vs %.6f (reference map+normalisation), %.2f quanta apart, budget %.2f" % (where, vf.tags[a], c, r, d, tol), case)
            return  # the remaining clauses would only repeat this
    # -- clause: outlines and advances
    names = [g for g in (opts.get("glyphs") or m.present) if g in m.gid and g in vf.gid]
    worst = 0.0
    for name in names:
        gv, gm = vf.gid[name], m.gid[name]
        if name in m.emptied:
            acc.label("sparse:emptied-glyph-skipped")
            continue
        kv, fv = _flat(vf.hb.draw(gv))
        km, fm = _flat(m.hb.draw(gm))
        if not fm and fv and opts.get("empty_is_missing"):
            # documented: an empty glyph in a non-default master of a non-empty default glyph is a missing glyph
            acc.label("sparse:empty-glyph-treated-as-missing")
            continue
        npts = len(fm) // 2
        if vf.is_cff:
            base = 0.011 * npts + 0.02
        else:
            base = vf.glyf_budget(name, opts.get("optimize", True)) + 1e-3
        if kv == km:
            err = _maxdiff(fv, fm)
            mode = "points"
        else:
            A = [c for c in geom.canon(vf.hb.draw(gv), tol=0.01) if c["segs"]]
            B = [c for c in geom.canon(m.hb.draw(gm), tol=0.01) if c["segs"]]
            ok, detail = geom.same_geometry(A, B, tol=base)
            if ok:
                err = 0.0
                mode = "canon"
            elif len(A) == len(B):
                err = geom.outline_distance(A, B)
                mode = "distance"
                acc.label("outline:compared-by-distance")
            else:
                acc.fail("outline", "structure", "%s glyph %r: %s" % (where, name, detail), case)
                continue
        if err > base:
            if mode == "points":
                sl = vf.slack(lambda: _flat(vf.hb.draw(gv))[1], dist)
            else:
                sl = vf.slack(lambda: _flat(vf.hb.draw(gv))[1], dist) + 0.25
            if err > base + sl:
                acc.fail("outline", "points" if mode == "points" else mode, "%s glyph %r: max coordinate difference %.4f, budget %.4f (rounding %.3f + quantisation %.4f)" % (where, name, err, base + sl, base, sl), case)
        worst = max(worst, err - base)
        # advances
        am = m.hb.h_advance(gm)
        if am == ADV_SENTINEL:
            acc.label("sparse:advance-sentinel-skipped")
            continue
        av = vf.hb.h_advance(gv)
        if abs(av - am) > 1.0:
            sl = vf.slack(lambda: [vf.hb.h_advance(gv)], dist, step=8, rounded=True)
            if abs(av - am) > 1.0 + sl:
                acc.fail("advance", "h-advance", "%s glyph %r: variable font %s, master %s, budget %.3f" % (where, name, av, am, 1.0 + sl), case)
    acc.label("compared:glyph-at-master", len(names))
    acc.label("outline-error:within-rounding" if worst <= 0 else "outline-error:needed-quantisation-slack")
    # -- clause: kerning and mark attachment
    nruns = 0
    if m.layout:
        for run in opts.get("runs") or []:
            if not all(g in m.gid and g in vf.gid for g in run):
                continue
            gv = [vf.gid[g] for g in run]
            gm = [m.gid[g] for g in run]
            rv = vf.hb.shape_gids(gv)
            rm = m.hb.shape_gids(gm)
            nv = [vf.order[x[0]] if x[0] < len(vf.order) else "?" for x in rv]
            nm = [m.order[x[0]] if x[0] < len(m.order) else "?" for x in rm]
            if nv != nm:
                acc.label("shaping:glyph-sequence-differs-skipped")
                continue
            nruns += 1

            def obs_v():
                r = vf.hb.shape_gids(gv)
                out = []
                for x in r:
                    out.extend([x[2] - vf.hb.h_advance(x[0]), x[3], x[4], x[5]])
                return out

            ov = obs_v()
            om = []
            for x in rm:
                om.extend([x[2] - m.hb.h_advance(x[0]), x[3], x[4], x[5]])
            # budgets per component: kerning part of the advance 1.5; x offset 2.5 (two anchors + base advance), y 2.0
            buds = [1.5, 1.5, 2.5, 2.0] * len(rm)
            bad = [(i, a, b) for i, (a, b, t) in enumerate(zip(ov, om, buds)) if abs(a - b) > t]
            if bad:
                sl = vf.slack(obs_v, dist, step=8, rounded=True)
                bad = [(i, a, b) for i, (a, b, t) in enumerate(zip(ov, om, buds)) if abs(a - b) > t + sl]
                if bad:
                    i, a, b = bad[0]
                    what = ["kern-x", "kern-y", "x-offset", "y-offset"][i % 4]
                    clause = "kerning" if i % 4 < 2 else "mark"
                    acc.fail(clause, what, "%s run %r glyph %d (%s): %s variable font %s, master %s, budget %.2f" % (where, run, i // 4, nm[i // 4], what, a, b, buds[i] + sl), case)
            if any(x[4] or x[5] for x in rm):
                acc.label("compared:mark-offset-nonzero")
            if any(x[2] != m.hb.h_advance(x[0]) for x in rm):
                acc.label("compared:kerning-nonzero")
    acc.label("compared:shaped-run-at-master", nruns)
    # -- clause: MVAR-backed metrics
    nmet = 0
    for tag, (table, field) in MVAR_FIELDS.items():
        if table not in vf.font or table not in m.font or not m.tables:
            continue
        exp = getattr(m.font[table], field, None)
        if exp is None:
            continue
        if tag in ("unds", "undo") and exp == POST_SENTINEL:
            acc.label("sparse:post-sentinel-skipped")
            continue
        static = getattr(vf.font[table], field)
        ti = _tagint(tag)
        got = static + vf.hb.font.get_metric_variation(ti)
        nmet += 1
        if abs(got - exp) > 0.5 + 1e-3:
            sl = vf.slack(lambda: [vf.hb.font.get_metric_variation(ti)], dist)
            if abs(got - exp) > 0.5 + 1e-3 + sl:
                acc.fail("metric", tag, "%s: %s.%s variable font %.3f (static %s + MVAR), master %s, budget %.3f" % (where, table, field, got, static, exp, 0.5 + sl), case)
    acc.label("compared:metric-at-master", nmet)


def check_axis_map(acc, vf, axes, rnd, case, n_random):
    """axes: reference axis dicts (tag, min, default, max, map) in fvar order."""
    for ai, axis in enumerate(axes):
        tag = axis["tag"]
        if ai >= len(vf.axes) or vf.axes[ai][0] != tag:
            acc.fail("axis-map", "fvar-axis-order", "axis %d is %r in fvar, %r in the designspace" % (ai, vf.axes[ai][0] if ai < len(vf.axes) else None, tag), case)
            return
        _, mn, df, mx = vf.axes[ai]
        for got, want, what in ((mn, axis["min"], "minimum"), (df, axis["default"], "default"), (mx, axis["max"], "maximum")):
            if abs(got - want) > 1.0 / 65536 + 1e-9:
                acc.fail("axis-map", "fvar-" + what, "axis %s %s: fvar %r, designspace %r" % (tag, what, got, want), case)
        us = [axis["min"], axis["default"], axis["max"]]
        pts = G.axis_map_points(axis) or []
        us.extend(u for u, _ in pts)
        xs = sorted(set(us))
        us.extend((a + b) / 2.0 for a, b in zip(xs, xs[1:]))
        for _ in range(n_random):
            us.append(round(rnd.uniform(axis["min"], axis["max"]), rnd.choice([0, 1, 3])))
        span = axis["max"] - axis["min"]
        us.extend([axis["min"] - span * 0.25 - 1, axis["max"] + span * 0.5 + 1])
        for u in us:
            vf.hb.set_location({tag: u})
            got = vf.norm()[ai]
            want = G.ref_user_to_normalized(axis, u)
            if pts:
                tol = 1.13 + 1.05 * G.ref_local_slope(axis, min(max(u, axis["min"]), axis["max"]))
            else:
                tol = NOMAP_TOL
            d = abs(got - want) / Q
            acc.label("compared:axis-map-value")
            if d > tol:
                acc.fail("axis-map", "user-value", "axis %s user %r: HarfBuzz normalised %.6f, reference %.6f (design %.4f), %.2f quanta apart, budget %.2f" % (tag, u, got, want, G.ref_map_forward(axis, u), d, tol), case)
                break
    vf.hb.set_location(None)


def axis_tols(axes, user_loc):
    out = []
    for a in axes:
        if G.axis_map_points(a):
            out.append(1.13 + 1.05 * G.ref_local_slope(a, user_loc[a["tag"]]))
        else:
            out.append(NOMAP_TOL)
    return out


# ---------------------------------------------------------------------------
# generated designspaces


def run_generated(acc, spec, only=None):
    from fontTools import varLib

    case = {"gen": spec}
    if any(G.float_inverse_overshoots_maximum(a, d) for m in spec["masters"] for a, d in zip(spec["axes"], m["loc"])):
        # former finding C10-F1 (repaired: map_backward is exact at the map points): such masters are built like any other
        acc.label("gen:master-on-an-extreme-whose-naive-inverse-overshoots")
    exp = G.expand(spec)
    nm = len(spec["masters"])
    fonts, datas, plans = [], [], []
    try:
        for mi in range(nm):
            f, d, p = G.build_master(spec, exp, mi)
            fonts.append(f)
            datas.append(d)
            plans.append(p)
        doc = G.build_document(spec, fonts)
    except CaseTimeout:
        raise
    except Exception as e:
        # compiling a single static master is C02/C11's subject
        acc.exclude("generated-master-does-not-compile:%s" % type(e).__name__)
        return
    try:
        with contextlib.redirect_stdout(io.StringIO()):  # varLib.cff prints warnings
            vfont, _, _ = varLib.build(doc, optimize=spec["optimize"])
        buf = io.BytesIO()
        vfont.save(buf)
    except CaseTimeout:
        raise
    except Exception as e:
        acc.fail_exc("build-raises", e, case)
        return
    from fontTools.ttLib import TTFont

    vf = VF(buf.getvalue())
    axes = spec["axes"]
    rnd = random.Random(spec["seed"] ^ 0x5A5A)
    check_axis_map(acc, vf, axes, rnd, case, 4)
    runs = []
    for p in exp["pairs"]:
        runs.append([p["l"], p["r"]])
    if exp["classes"]:
        for l in exp["classes"]["L"]:
            for r in exp["classes"]["R"]:
                runs.append([l, r])
                runs.append([r, l])
    if exp["anchors"]:
        for b, d in exp["anchors"]["bases"].items():
            for mk, md in exp["anchors"]["marks"].items():
                if md["cls"] in d:
                    runs.append([b, mk])
        if exp["bases"]:
            runs.append([exp["bases"][0], "acutecomb", "dotbelowcomb"])
    coords_differ = False
    first = None
    for mi in range(nm):
        label = "m%d%s" % (mi, "(default)" if mi == 0 else "")
        user = G.master_user_location(spec, mi)
        nref = G.master_normalized(spec, mi)
        mfont = TTFont(io.BytesIO(datas[mi]))
        m = Master(label, datas[mi], mfont, user, nref, present=plans[mi]["names"], emptied=plans[mi]["emptied"], layout=plans[mi]["layout"], tables=plans[mi]["tables"])
        sig = [_flat(m.hb.draw(m.gid[g]))[1] for g in exp["bases"] if g in m.gid]
        if first is None:
            first = sig
        elif sig != first:
            coords_differ = True
        opts = dict(axis_tol=axis_tols(axes, user), runs=runs, optimize=spec["optimize"], empty_is_missing=False)
        compare_master(acc, vf, m, dict(case, master=mi), opts)
    # labels / non-triviality
    norms = [G.master_normalized(spec, mi) for mi in range(nm)]
    inter = any(any(0 < abs(x) < 1 for x in t) for t in norms)
    corner = any(sum(1 for x in t if x != 0) >= 2 for t in norms)
    offaxis_inter = any(sum(1 for x in t if x != 0) >= 2 and any(0 < abs(x) < 1 for x in t) for t in norms)
    labels = ["gen", "gen:kind:" + spec["kind"], "gen:axes:%d" % len(axes), "gen:masters:%s" % (nm if nm < 6 else "6+")]
    if inter:
        labels.append("gen:intermediate-master")
    if corner:
        labels.append("gen:corner-master")
    if offaxis_inter:
        labels.append("gen:off-axis-intermediate-master")
    if any(a.get("map") for a in axes):
        labels.append("gen:axis-map")
    if any(a.get("map") and len(set(d for _, d in a["map"])) < len(a["map"]) for a in axes):
        labels.append("gen:axis-map-flat-segment")
    for mm in spec["masters"]:
        if mm.get("sparse"):
            labels.append("gen:sparse:" + mm["sparse"]["mode"])
    if not spec["optimize"]:
        labels.append("gen:optimize=False")
    if spec["order"][0] != 0:
        labels.append("gen:default-master-not-first-source")
    if spec["composite"]:
        labels.append("gen:composite-glyph")
    if exp["pairs"]:
        labels.append("gen:pair-kerning")
    if any(p.get("skip") for p in exp["pairs"]):
        labels.append("gen:glyph-pair-missing-in-some-masters")
        if exp["classes"]:
            labels.append("gen:glyph-pair-missing-in-some-masters+class-kerning")
    if spec.get("smooth"):
        labels.append("gen:smooth-contours-7..13-points")
    if exp["classes"]:
        labels.append("gen:class-kerning")
    if exp["anchors"]:
        labels.append("gen:mark-anchors")
    for t in ("MVAR", "HVAR", "avar", "gvar", "CFF2", "GPOS", "GDEF"):
        if t in vf.font:
            labels.append("gen:vf-has:" + t)
    nontrivial = (nm >= 3 or inter or corner) and coords_differ
    acc.case(fingerprint(spec), nontrivial=nontrivial, labels=labels, sample=dict(axes=[(a["tag"], a["min"], a["default"], a["max"], a["map"]) for a in axes], masters=[mm["loc"] for mm in spec["masters"]], kind=spec["kind"]) if nontrivial else None)


# ---------------------------------------------------------------------------
# corpus designspaces

VARLIB_DATA = os.path.join(TESTS, "varLib", "data")
MASTER_DIR_OVERRIDE = {
    "TestCFF2": ["master_cff2"],
    "TestCFF2Input": ["master_cff2_input"],
    "DropOnCurves": ["master_ttx_drop_oncurves"],
    "SparseCFF2": ["master_sparse_cff2_empty"],
}
MASTER_DIRS = [
    "master_ttx_interpolatable_ttf", "master_base_test", "master_cff2", "master_incompatible_arrays", "master_incompatible_features",
    "master_incompatible_lookup_types", "master_kerning_merging", "master_no_overwrite_stat", "master_non_marking_cff2",
    "master_sparse_cff2", "master_sparse_cff2_empty", "master_ttx_varcolr_ttf", "master_vpal_test", "master_vvar_cff2",
]  # fmt: skip
# what the repository's tests expect varLib to refuse (Tests/varLib/varLib_test.py)
EXPECTED_REJECT = {"IncompatibleArrays", "IncompatibleFeatures", "IncompatibleLookupTypes", "InterpolateLayout3", "VarLibLocationTest"}
# second set of masters for the same document (CFF flavour of the interpolatable test family)
EXTRA_VARIANTS = {"InterpolateLayout": ["master_ttx_interpolatable_otf"]}


def corpus_cases():
    out = []
    for p in corpus.designspaces():
        rel = os.path.relpath(p, TESTS)
        name = os.path.splitext(os.path.basename(p))[0]
        out.append(dict(ds=rel, dirs=None, optimize=True))
        if rel.startswith("varLib") and name not in EXPECTED_REJECT:
            out.append(dict(ds=rel, dirs=None, optimize=False))
            if name in EXTRA_VARIANTS:
                out.append(dict(ds=rel, dirs=EXTRA_VARIANTS[name], optimize=True))
    return out


def _find_master(dsname, filename, dirs):
    stem = os.path.splitext(os.path.basename(filename or ""))[0]
    for d in dirs or MASTER_DIR_OVERRIDE.get(dsname) or MASTER_DIRS:
        p = os.path.join(VARLIB_DATA, d, stem + ".ttx")
        if os.path.exists(p):
            return p
    return None


def _import_ttx(path):
    from fontTools.ttLib import TTFont

    f = TTFont(recalcBBoxes=False, recalcTimestamp=False)
    f.importXML(path)
    return f


def _oracle_bytes(path, default_path):
    """Bytes of the static master for HarfBuzz. Sparse masters (no hhea/OS/2...) borrow the missing
    required tables from the default master; only outlines and hmtx of present glyphs are compared for them."""
    f = _import_ttx(path)
    borrowed = []
    if not {"hhea", "head", "maxp", "hmtx"}.issubset(f.keys()):
        d = _import_ttx(default_path)
        for tag in ("head", "hhea", "maxp", "hmtx", "post", "name"):
            if tag not in f and tag in d:
                if tag == "hmtx":
                    continue
                f[tag] = d[tag]
                borrowed.append(tag)
    buf = io.BytesIO()
    f.save(buf)
    return buf.getvalue(), borrowed


def run_corpus(acc, cs):
    from fontTools import varLib
    from fontTools.designspaceLib import DesignSpaceDocument
    from fontTools.ttLib import TTFont

    case = {"corpus": cs}
    path = os.path.join(TESTS, cs["ds"])
    dsname = os.path.splitext(os.path.basename(path))[0]
    try:
        doc = DesignSpaceDocument.fromfile(path)
    except Exception as e:
        if dsname in EXPECTED_REJECT:
            acc.exclude("corpus:document-rejected-as-the-tests-expect")
        else:
            acc.exclude("corpus:designspace-not-readable:%s" % type(e).__name__)
        return
    if not cs["ds"].startswith("varLib"):
        acc.exclude("corpus:designspaceLib-test-document-without-master-fonts")
        return
    paths = [_find_master(dsname, s.filename, cs.get("dirs")) for s in doc.sources]
    if not doc.sources or any(p is None for p in paths):
        acc.exclude("corpus:master-files-not-in-the-repository" if dsname not in EXPECTED_REJECT else "corpus:document-rejected-as-the-tests-expect")
        return
    if any(getattr(a, "values", None) for a in doc.axes):
        acc.exclude("corpus:discrete-axis")
        return
    # masters for varLib: compiled and reloaded when the TTX is a complete font, else as imported (sparse masters)
    loaded = {}
    for s, p in zip(doc.sources, paths):
        if p not in loaded:
            f = _import_ttx(p)
            try:
                buf = io.BytesIO()
                f.save(buf)
                f = TTFont(io.BytesIO(buf.getvalue()))
            except Exception:
                f = _import_ttx(p)
                acc.label("corpus:master-passed-as-imported-ttx")
            loaded[p] = f
        s.font = loaded[p]
    try:
        with contextlib.redirect_stdout(io.StringIO()):  # varLib.cff prints warnings
            vfont, model, _ = varLib.build(doc, optimize=cs["optimize"])
        buf = io.BytesIO()
        vfont.save(buf)
    except CaseTimeout:
        raise
    except Exception as e:
        if dsname in EXPECTED_REJECT:
            acc.exclude("corpus:build-rejected-as-the-tests-expect:%s" % type(e).__name__)
        else:
            acc.fail_exc("build-raises", e, case)
        return
    if dsname in EXPECTED_REJECT:
        acc.label("corpus:expected-reject-but-built")
    vf = VF(buf.getvalue())
    # reference axes in fvar order = document order
    axes = []
    for a in doc.axes:
        axes.append({"tag": a.tag, "name": a.name, "min": a.minimum, "default": a.default, "max": a.maximum, "map": [[u, d] for u, d in a.map] if a.map else None})
    avar2 = bool(doc.axisMappings)
    rnd = random.Random(subseed(cs.get("seed", 1), cs["ds"]))
    if not avar2:
        check_axis_map(acc, vf, axes, rnd, case, 4)
    else:
        acc.label("corpus:avar2-axis-map-clause-skipped")
    triples = [G.design_triple(a) for a in axes]
    # default master (all-zero normalised location)
    locs = []
    for s in doc.sources:
        dl = s.location or {}
        locs.append([dl.get(a["name"], tr[1]) for a, tr in zip(axes, triples)])
    norms = [[G.ref_normalize(d, *tr) for d, tr in zip(loc, triples)] for loc in locs]
    try:
        default_idx = next(i for i, t in enumerate(norms) if all(x == 0 for x in t))
    except StopIteration:
        acc.exclude("corpus:no-default-master")
        return
    coords_differ = False
    sigs = []
    dflt_font = loaded[paths[default_idx]]
    for mi, (s, p) in enumerate(zip(doc.sources, paths)):
        try:
            data, borrowed = _oracle_bytes(p, paths[default_idx])
        except Exception as e:
            acc.exclude("corpus:static-master-not-compilable:%s" % type(e).__name__)
            continue
        mfont = TTFont(io.BytesIO(data))
        user = {a["tag"]: G.ref_map_backward(a, d) for a, d in zip(axes, locs[mi])}
        m = Master("%s[%d]" % (os.path.basename(p), mi), data, mfont, user, norms[mi], tables=not borrowed)
        if borrowed:
            acc.label("corpus:sparse-master(tables-borrowed-for-the-oracle)")
            m.layout = "GPOS" in mfont
        else:
            m.layout = "GPOS" in mfont or "GPOS" not in vf.font
        if not set(m.order).issubset(vf.gid):
            acc.exclude("corpus:master-glyph-not-in-default-master")
            continue
        names = m.present
        if cs.get("maxglyphs") and len(names) > cs["maxglyphs"]:
            names = sorted(rnd.sample(names, cs["maxglyphs"]), key=names.index)
        # probe runs: glyph pairs / triples from the master's own lookup coverages
        from vf import shapecmp

        runs = shapecmp.layout_probe_sequences(mfont, rnd, cs.get("nruns", 30), maxlen=3) if m.layout and "GPOS" in mfont else []
        sig = fingerprint([_flat(m.hb.draw(m.gid[g]))[1] for g in m.order[:40]])
        sigs.append(sig)
        opts = dict(axis_tol=axis_tols(axes, user) if not avar2 else [NOMAP_TOL] * len(axes), runs=runs, optimize=cs["optimize"], glyphs=names, empty_is_missing=(mi != default_idx), avar2=avar2)
        compare_master(acc, vf, m, dict(case, master=mi), opts)
    coords_differ = len(set(sigs)) > 1
    nm = len(doc.sources)
    inter = any(any(0 < abs(x) < 1 for x in t) for t in norms)
    corner = any(sum(1 for x in t if x != 0) >= 2 for t in norms)
    labels = ["corpus", "corpus:axes:%d" % len(axes), "corpus:masters:%s" % (nm if nm < 6 else "6+"), "corpus:outlines:" + ("CFF2" if vf.is_cff else "glyf")]
    if not cs["optimize"]:
        labels.append("corpus:optimize=False")
    if doc.rules:
        labels.append("corpus:rules")
    if any(a.get("map") for a in axes):
        labels.append("corpus:axis-map")
    if inter:
        labels.append("corpus:intermediate-master")
    if corner:
        labels.append("corpus:corner-master")
    if any(s.muteKerning or s.muteInfo or s.mutedGlyphNames for s in doc.sources):
        labels.append("corpus:mute-flags-present(not interpreted by varLib.build)")
    for t in ("MVAR", "HVAR", "VVAR", "avar", "gvar", "CFF2", "GPOS", "GDEF", "BASE", "COLR"):
        if t in vf.font:
            labels.append("corpus:vf-has:" + t)
    nontrivial = (nm >= 3 or inter or corner) and coords_differ
    acc.case(fingerprint(cs), nontrivial=nontrivial, labels=labels, sample=dict(designspace=cs["ds"], masters=nm, optimize=cs["optimize"]) if nontrivial else None)


# ---------------------------------------------------------------------------
# framework entry points


def jobs(tier, seed):
    J = []
    thorough = tier == "thorough"
    nomasters = []
    for i, cs in enumerate(corpus_cases()):
        cs = dict(cs, seed=seed, maxglyphs=None if thorough else 60, nruns=80 if thorough else 30)
        if not cs["ds"].startswith("varLib"):
            nomasters.append(cs)  # designspaceLib test documents: read, counted as excluded, in one job
            continue
        J.append(dict(kind="corpus", name="corpus:%s:%s:%s" % (cs["ds"], "opt" if cs["optimize"] else "noopt", "+".join(cs["dirs"] or [])), cs=[cs]))
    J.append(dict(kind="corpus", name="corpus:designspaceLib-documents", cs=nomasters))
    njobs = 64 if thorough else 16
    total = 15360 if thorough else 640
    for i in range(njobs):
        J.append(dict(kind="generated", name="generated-%d" % i, n=total // njobs, seed=subseed(seed, "gen", i)))
    return J


def run_job(job):
    acc = Acc()
    if job["kind"] == "corpus":
        for cs in job["cs"]:
            try:
                with time_limit(900):
                    run_corpus(acc, cs)
            except CaseTimeout:
                acc.inconclusive += 1
    else:

        def body(spec, acc):
            try:
                with time_limit(600):
                    run_generated(acc, spec)
            except CaseTimeout:
                acc.inconclusive += 1

        hyp_collect(acc, G.specs(), body, job["n"], job["seed"])
    return acc


def finish(total, tier, seed):
    need = [
        "gen:kind:glyf", "gen:kind:cff", "gen:intermediate-master", "gen:corner-master", "gen:axis-map", "gen:pair-kerning",
        "gen:mark-anchors", "gen:vf-has:MVAR", "gen:vf-has:avar", "gen:default-master-not-first-source", "compared:kerning-nonzero",
        "compared:mark-offset-nonzero", "compared:metric-at-master", "compared:axis-map-value", "corpus:vf-has:CFF2", "corpus:vf-has:gvar",
    ]  # fmt: skip
    for n in need:
        if not total.labels.get(n):
            raise HarnessError("class %r never exercised" % n)


def replay(case):
    acc = Acc()
    if case.get("gen"):
        run_generated(acc, case["gen"])
    else:
        run_corpus(acc, case["corpus"])
    return acc.failures
