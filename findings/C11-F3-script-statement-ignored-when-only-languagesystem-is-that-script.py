"""feaLib Builder.set_script returns early ("Nothing to do") when the current language systems are exactly {(script, 'dflt')}, which is
also the state at the start of a feature block when the file's only languagesystem statement is `languagesystem <script> dflt;` - but then
the builder's current script is still 'DFLT'. The `script` statement is ignored: a following `language` statement is registered under
script DFLT, and the rules after it continue the lookup started before it. Input:
    languagesystem grek dflt;
    feature liga { sub a by b; script grek; language ROM exclude_dflt; sub c by d; } liga;
Expected ScriptList: grek with default LangSys (a -> b) and LangSys 'ROM ' (only c -> d); observed: script DFLT (never declared) with
LangSys 'ROM ', grek without 'ROM '. HarfBuzz shaping 'ac' for script grek, language Romanian gives b c instead of a d."""

FEA = "languagesystem grek dflt;\nfeature liga { sub a by b; script grek; language ROM exclude_dflt; sub c by d; } liga;"
ORDER = [".notdef", "a", "b", "c", "d"]


def reproduce():
    gsub, shape = _compile_and_shape(FEA, ORDER)
    out = []
    scripts = {r.ScriptTag: sorted(l.LangSysTag for l in r.Script.LangSysRecord) for r in gsub.ScriptList.ScriptRecord}
    if scripts != {"grek": ["ROM "]}:
        out.append("ScriptList has %r (script: language systems besides the default), written was grek: ['ROM ']" % scripts)
    got = shape("ac", script="Grek", language="ro")
    if got != ["a", "d"]:
        out.append("'ac' for script grek language ROM shapes to %s, the rules say a d (exclude_dflt: only c -> d)" % " ".join(got))
    got = shape("ac", script="Grek")
    if got != ["b", "c"]:
        out.append("'ac' for script grek default language shapes to %s, the rules say b c" % " ".join(got))
    return (FEA.replace("\n", " ") + " => " + "; ".join(out)) if out else None


def _compile_and_shape(fea, order):
    """-> (GSUB table, shape(text, script=None, language=None) -> glyph names by HarfBuzz)"""
    from io import BytesIO
    import uharfbuzz as hb
    from fontTools.feaLib.builder import addOpenTypeFeaturesFromString
    from fontTools.fontBuilder import FontBuilder
    from fontTools.ttLib import TTFont
    from fontTools.ttLib.tables._g_l_y_f import Glyph

    fb = FontBuilder(1000, isTTF=True)
    fb.setupGlyphOrder(order)
    fb.setupCharacterMap({ord(n): n for n in order if len(n) == 1})
    fb.setupGlyf({n: Glyph() for n in order})
    fb.setupHorizontalMetrics({n: (500, 0) for n in order})
    fb.setupHorizontalHeader(ascent=800, descent=-200)
    fb.setupNameTable({"familyName": "W", "styleName": "R"})
    fb.setupOS2()
    fb.setupPost()
    addOpenTypeFeaturesFromString(fb.font, fea)
    buf = BytesIO()
    fb.font.save(buf)
    data = buf.getvalue()

    def shape(text, script=None, language=None):
        font = hb.Font(hb.Face(data))
        b = hb.Buffer()
        b.add_str(text)
        b.guess_segment_properties()
        if script:
            b.script = script
        if language:
            b.language = language
        hb.shape(font, b, {})
        return [font.glyph_to_string(i.codepoint) for i in b.glyph_infos]

    return TTFont(BytesIO(data))["GSUB"].table, shape
