"""feaLib ignores the mark of `sub b' from [x y];` (marked glyph, no context): the parser passes forceChain=hasMarks for single, multiple
and ligature substitutions and single positioning, so that a marked rule without context is a contextual rule and joins the
neighbouring contextual rules in one lookup, but AlternateSubstStatement has no forceChain and the rule is compiled as a plain GSUB
type 3 lookup. Among contextual rules it splits the contextual lookup in two and changes the result. Input:
    feature calt { sub a' b by c; sub b' from [x y]; sub c' by d; } calt;
Written: one contextual lookup with three rules; 'ab' -> c x (first matching rule at each position). Compiled: the feature lists three
lookups (a' b | b from | c'), and HarfBuzz gives d x (the c made by the first lookup is turned into d by the third). With
`sub b' by x;` in place of the alternate rule the result is one lookup and c x."""

FEA = "feature calt { sub a' b by c; sub b' from [x y]; sub c' by d; } calt;"
ORDER = [".notdef", "a", "b", "c", "d", "x", "y"]


def reproduce():
    gsub, shape = _compile_and_shape(FEA, ORDER)
    out = []
    got = shape("ab")
    if got != ["c", "x"]:
        out.append("'ab' shapes to %s, three contextual rules in one lookup give c x" % " ".join(got))
    ref_gsub, ref_shape = _compile_and_shape(FEA.replace("sub b' from [x y];", "sub b' by x;"), ORDER)
    n, ref_n = (len(t.FeatureList.FeatureRecord[0].Feature.LookupListIndex) for t in (gsub, ref_gsub))
    if n != ref_n or ref_shape("ab") != ["c", "x"]:
        out.append("feature calt lists %d lookups (types %s); with \"sub b' by x;\" as second rule %d lookup, 'ab' -> %s" % (
            n, [l.LookupType for l in gsub.LookupList.Lookup], ref_n, " ".join(ref_shape("ab"))))
    return (FEA + " => " + "; ".join(out)) if out else None


def _compile_and_shape(fea, order):
    """-> (GSUB table, shape(text, script=None, language=None) -> glyph names by HarfBuzz)"""
    from io import BytesIO
    import uharfbuzz as hb
    from fontTools.feaLib.builder import addOpenTypeFeaturesFromString
    from fontTools.fontBuilder import FontBuilder
    from fontTools.ttLib import TTFont
    from fontTools.ttLib.tables._g_l_y_f import Glyph

    fb = FontBuilder(1000, isTTF=True)
    fb.setupGlyphOrder(order)
    fb.setupCharacterMap({ord(n): n for n in order if len(n) == 1})
    fb.setupGlyf({n: Glyph() for n in order})
    fb.setupHorizontalMetrics({n: (500, 0) for n in order})
    fb.setupHorizontalHeader(ascent=800, descent=-200)
    fb.setupNameTable({"familyName": "W", "styleName": "R"})
    fb.setupOS2()
    fb.setupPost()
    addOpenTypeFeaturesFromString(fb.font, fea)
    buf = BytesIO()
    fb.font.save(buf)
    data = buf.getvalue()

    def shape(text, script=None, language=None):
        font = hb.Font(hb.Face(data))
        b = hb.Buffer()
        b.add_str(text)
        b.guess_segment_properties()
        if script:
            b.script = script
        if language:
            b.language = language
        hb.shape(font, b, {})
        return [font.glyph_to_string(i.codepoint) for i in b.glyph_infos]

    return TTFont(BytesIO(data))["GSUB"].table, shape
