"""C19 — design sources survive being written and read back.

Sub-checks (each has check_<kind>(case, R) used by the generators and by replay):
  ds        DesignSpaceDocument spec -> document -> string/file -> document -> plain data
  glif      glyph record -> writeGlyphToString -> readGlyphFromString (recording point pen)
  glyphset  several glyph records through GlyphSet on a scratch directory
  ufo       UFOWriter/UFOReader formatVersion 3 (package, zip, FS object)
  upconv    UFO 1 / UFO 2 written data read through the documented up-conversion
  plist     value trees through fontTools.misc.plistlib (and the stdlib plistlib as a second reader/writer)
  names     sequences of glyph/layer names -> userNameToFileName with accumulating `existing`
  gsops     histories of GlyphSet.writeGlyph/deleteGlyph/reopen on a directory
  axismap   AxisDescriptor.map_forward / map_backward on strictly monotone maps

Expected values are computed here from the generated spec (never from the objects
the library returns); the specs are JSON-able so that a replay file re-runs one case.
"""

import datetime
import math
import os
import warnings
from fractions import Fraction

from vf.runner import Acc, HarnessError, fingerprint, hyp_collect, innermost_frame, scratch_dir, short, subseed

ID = "C19"
LEVEL = "exploration"
RULE = (
    "Hypothesis strategies (vf/gen_sources.py) build JSON-able specs: designspace documents (range/discrete axes, maps, "
    "labels, mappings, rules, sources, instances, variable fonts, nested lib; format 4 and 5), GLIF 1/2 glyph records "
    "with legal point sequences and unique identifiers, UFO 3 contents valid per the UFO validators (fontinfo, kerning, "
    "groups, lib, features, layers, data, images), UFO 1/2 data for up-conversion, plist trees, sequences of glyph/layer "
    "names biased to case/truncation/reserved-name collisions, GlyphSet operation histories, strictly monotone axis maps. "
    "Oracle: read(write(x)) equals the expected plain data computed from the spec (numbers after the writer's documented "
    "formatting, type-aware for plist values), second write byte-identical, stdlib plistlib as independent reader/writer, "
    "reference implementation of the UFO file-name convention, exact-rational piecewise-linear reference for axis maps. "
    "A case is non-trivial when it uses an optional feature (map, rule, discrete axis, lib, identifiers, components, "
    "non-default layers, ...) or the name sequence contains a case-insensitive collision or a truncation; distinct by spec."
)
ASSUMPTIONS = [
    "text is XML 1.0 representable: no surrogates, no C0/C1 control characters other than TAB and LF (CR excluded), no U+FFFE/U+FFFF",
    "designspace numbers are finite; compared after the writer's documented formatting (integers as %d, otherwise %f = 6 decimals)",
    "glyph names are non-empty; GLIF 1 anchors are named (GLIF 1 stores anchors as named single-point contours)",
    "a format-4 designspace axis map lists the axis default as an input (so the filled-in default design location is exact)",
    "case-insensitive uniqueness of file names is str.lower() equality, the notion the UFO convention defines",
    "names written to a real directory are limited to what the scratch file system accepts (255 bytes per component)",
    "axis maps for the inverse check have segment slopes in [1e-3, 1e3] and coordinates within +-3e6 (float conditioning)",
]
WALL_BUDGET = {"quick": 2400, "thorough": 4 * 3600}


# ---------------------------------------------------------------------------
# reporting helper


class R:
    """Binds an Acc, a clause and the replayable case."""

    def __init__(self, acc, kind, case):
        self.acc = acc
        self.kind = kind
        self.case = {"kind": kind, "case": case}
        self.failed = False

    def fail(self, what, detail, where=""):
        self.failed = True
        self.acc.fail(self.kind, what, detail, self.case, where)

    def call(self, stage, fn, *a, **k):
        """Run library code; an exception is a failure of this case. Returns (ok, value)."""
        try:
            with warnings.catch_warnings():
                warnings.simplefilter("ignore")
                return True, fn(*a, **k)
        except (KeyboardInterrupt, MemoryError, HarnessError):
            raise
        except Exception as e:
            self.failed = True
            self.acc.fail(self.kind, "%s:%s" % (stage, type(e).__name__), "%s: %s" % (type(e).__name__, short(str(e), 300)), self.case, innermost_frame(e))
            return False, None


# ---------------------------------------------------------------------------
# spec <-> python values (plist trees)


def pl_build(spec, data_cls=None):
    """Spec tree -> python object handed to the writer."""
    if isinstance(spec, dict):
        if len(spec) == 1:
            (k, v), = spec.items()
            if k == "$date":
                return datetime.datetime(*v)
            if k == "$tuple":
                return tuple(pl_build(x, data_cls) for x in v)
            if k == "$data":
                return data_cls(bytes(v)) if data_cls is not None else bytes(v)
            if k == "$bytearray":
                return bytearray(v)
        return {k: pl_build(v, data_cls) for k, v in spec.items()}
    if isinstance(spec, list):
        return [pl_build(x, data_cls) for x in spec]
    return spec


def pl_expected(spec):
    """Spec tree -> the value a reader must return (use_builtin_types=True)."""
    if isinstance(spec, dict):
        if len(spec) == 1:
            (k, v), = spec.items()
            if k == "$date":
                return datetime.datetime(*v[:6])  # the format carries whole seconds
            if k == "$tuple":
                return [pl_expected(x) for x in v]
            if k in ("$data", "$bytearray"):
                return bytes(v)
        return {k: pl_expected(v) for k, v in spec.items()}
    if isinstance(spec, list):
        return [pl_expected(x) for x in spec]
    return spec


class Strict:
    """Marks a subtree of an expected structure that is compared type-aware."""

    def __init__(self, value):
        self.value = value


def _is_num(v):
    return isinstance(v, (int, float)) and not isinstance(v, bool)


def diff(exp, got, path="$", strict=False):
    """First difference between expected and obtained plain data, or None.
    strict: int/float/bool/str/bytes types must match exactly (plist semantics);
    otherwise numbers compare numerically, everything else by value and container type."""
    if isinstance(exp, Strict):
        return diff(exp.value, got, path, True)
    if isinstance(exp, bool) or isinstance(got, bool):
        if type(exp) is not type(got) or exp != got:
            return "%s: expected %r, got %r" % (path, exp, got)
        return None
    if _is_num(exp):
        if not _is_num(got):
            return "%s: expected number %r, got %s %r" % (path, exp, type(got).__name__, short(got, 80))
        if strict and type(exp) is not type(got):
            return "%s: expected %s %r, got %s %r" % (path, type(exp).__name__, exp, type(got).__name__, got)
        if exp != got:
            return "%s: expected %r, got %r" % (path, exp, got)
        return None
    if isinstance(exp, dict):
        if not isinstance(got, dict):
            return "%s: expected dict, got %s %s" % (path, type(got).__name__, short(got, 80))
        if set(exp) != set(got):
            return "%s: keys differ: missing %r, unexpected %r" % (path, sorted(set(exp) - set(got), key=repr)[:4], sorted(set(got) - set(exp), key=repr)[:4])
        for k in exp:
            d = diff(exp[k], got[k], "%s[%r]" % (path, k), strict)
            if d:
                return d
        return None
    if isinstance(exp, (list, tuple)):
        if strict and type(got) is not list:
            return "%s: expected list, got %s %s" % (path, type(got).__name__, short(got, 80))
        if not isinstance(got, (list, tuple)):
            return "%s: expected sequence, got %s %s" % (path, type(got).__name__, short(got, 80))
        if len(exp) != len(got):
            return "%s: expected %d items, got %d (%s vs %s)" % (path, len(exp), len(got), short(exp, 120), short(got, 120))
        for i, (a, b) in enumerate(zip(exp, got)):
            d = diff(a, b, "%s[%d]" % (path, i), strict)
            if d:
                return d
        return None
    if exp is None:
        return None if got is None else "%s: expected None, got %s" % (path, short(got, 80))
    if type(exp) is not type(got):
        return "%s: expected %s %s, got %s %s" % (path, type(exp).__name__, short(exp, 80), type(got).__name__, short(got, 80))
    if exp != got:
        return "%s: expected %s, got %s" % (path, short(exp, 120), short(got, 120))
    return None


def tree_stats(spec, st=None):
    st = st if st is not None else {"types": set(), "depth": 0, "n": 0}

    def walk(s, d):
        st["n"] += 1
        st["depth"] = max(st["depth"], d)
        if isinstance(s, dict):
            if len(s) == 1 and next(iter(s)) in ("$date", "$tuple", "$data", "$bytearray"):
                k = next(iter(s))
                st["types"].add(k)
                if k == "$tuple":
                    if not s[k]:
                        st["types"].add("empty")
                    for x in s[k]:
                        walk(x, d + 1)
                return
            st["types"].add("dict")
            if not s:
                st["types"].add("empty")
            for k, v in s.items():
                if not k.isascii() or k != k.strip() or k == "" or any(c in k for c in "<>&"):
                    st["types"].add("awkward-key")
                walk(v, d + 1)
        elif isinstance(s, list):
            st["types"].add("list")
            if not s:
                st["types"].add("empty")
            for x in s:
                walk(x, d + 1)
        elif isinstance(s, bool):
            st["types"].add("bool")
        elif isinstance(s, int):
            st["types"].add("bigint" if not -(2**31) <= s < 2**31 else "int")
        elif isinstance(s, float):
            st["types"].add("float")
        elif isinstance(s, (bytes, bytearray)):
            st["types"].add("bytes")
        elif isinstance(s, str):
            st["types"].add("str")
            if not s.isascii() or s != s.strip() or s == "" or any(c in s for c in "<>&\n\t"):
                st["types"].add("awkward-str")

    walk(spec, 0)
    return st


# ---------------------------------------------------------------------------
# (4) plist


def check_plist(case, r):
    from fontTools.misc import etree, plistlib as P
    import plistlib as S

    spec = case["tree"]
    mode = case["mode"]
    exp = pl_expected(spec)
    if mode == "builtin":
        obj = pl_build(spec)
        kw = {}
    else:
        obj = pl_build(spec, data_cls=P.Data)
        kw = {"use_builtin_types": False}
        # with use_builtin_types=False raw bytes are written as ASCII strings (documented): the
        # generator's raw bytes are therefore wrapped like $data for this mode
        obj = _wrap_bytes(obj, P.Data)
    ok, data = r.call("dumps", P.dumps, obj, sort_keys=case["sort_keys"], pretty_print=case["pretty"], **kw)
    if not ok:
        return
    if not isinstance(data, bytes):
        r.fail("dumps-type", "dumps returned %s" % type(data).__name__)
        return
    ok, back = r.call("loads", P.loads, data)
    if ok:
        d = diff(Strict(exp), back)
        if d:
            r.fail("loads(dumps)", "%s | plist %s" % (d, short(data.decode("utf-8", "replace"), 200)))
        elif case["sort_keys"]:
            d = _key_order(back, True)
            if d:
                r.fail("sort_keys-order", d)
        else:
            d = _same_order(exp, back)
            if d:
                r.fail("insertion-order", d)
    if mode == "nobuiltin":
        ok, back2 = r.call("loads-nobuiltin", P.loads, data, use_builtin_types=False)
        if ok:
            d = diff(Strict(exp), _unwrap_data(back2, P.Data))
            if d:
                r.fail("loads(use_builtin_types=False)", d)
            elif _count_bytes(exp) != _count_type(back2, P.Data):
                r.fail("data-not-wrapped", "expected %d Data objects, got %d" % (_count_bytes(exp), _count_type(back2, P.Data)))
    # the standard library reads what fontTools wrote ...
    try:
        sback = S.loads(data)
    except Exception as e:
        r.fail("stdlib-cannot-read", "%s: %s | %s" % (type(e).__name__, e, short(data.decode("utf-8", "replace"), 200)))
    else:
        d = diff(Strict(exp), sback)
        if d:
            r.fail("stdlib-reads-differently", d)
    # ... and fontTools reads what the standard library wrote
    try:
        sdata = S.dumps(pl_build(_strip_wrappers(spec)), sort_keys=case["sort_keys"])
    except (OverflowError, ValueError, TypeError) as e:
        raise HarnessError("stdlib plistlib rejected generated tree: %r" % e)
    ok, back3 = r.call("loads(stdlib-dumps)", P.loads, sdata)
    if ok:
        d = diff(Strict(exp), back3)
        if d:
            r.fail("loads(stdlib dumps)", d)
    # fixed point
    ok, data2 = r.call("dumps2", P.dumps, back if back is not None else obj, sort_keys=case["sort_keys"], pretty_print=case["pretty"])
    if ok and mode == "builtin" and back is not None and data2 != data:
        r.fail("second-dump-differs", "%s vs %s" % (short(data.decode("utf-8", "replace"), 160), short(data2.decode("utf-8", "replace"), 160)))
    # element tree path (what GLIF and designspace lib elements use)
    ok, el = r.call("totree", P.totree, obj, sort_keys=case["sort_keys"], pretty_print=case["pretty"], indent_level=case["indent"], **kw)
    if ok:
        ok, back4 = r.call("fromtree", P.fromtree, el)
        if ok:
            d = diff(Strict(exp), back4)
            if d:
                r.fail("fromtree(totree)", d)
        wrapper = etree.Element("lib")
        wrapper.append(el)
        ok, xml = r.call("tostring", etree.tostring, wrapper, encoding="utf-8", pretty_print=True)
        if ok:
            ok, el2 = r.call("fromstring", etree.fromstring, xml)
            if ok:
                ok, back5 = r.call("fromtree2", P.fromtree, el2[0])
                if ok:
                    d = diff(Strict(exp), back5)
                    if d:
                        r.fail("fromtree(reparsed totree)", d)
    st_ = tree_stats(spec)
    labels = ["plist:%s" % t for t in sorted(st_["types"])] + ["plist:mode=%s" % mode, "plist:depth>=3" if st_["depth"] >= 3 else "plist:depth<3"]
    r.acc.case(("plist", case), nontrivial=len(st_["types"]) >= 3, labels=labels, sample=case if st_["depth"] >= 2 else None)


def _wrap_bytes(o, data_cls):
    if isinstance(o, bytes):
        return data_cls(o)
    if isinstance(o, dict):
        return {k: _wrap_bytes(v, data_cls) for k, v in o.items()}
    if isinstance(o, list):
        return [_wrap_bytes(v, data_cls) for v in o]
    if isinstance(o, tuple):
        return tuple(_wrap_bytes(v, data_cls) for v in o)
    return o


def _unwrap_data(o, data_cls):
    if isinstance(o, data_cls):
        return o.data
    if isinstance(o, dict):
        return {k: _unwrap_data(v, data_cls) for k, v in o.items()}
    if isinstance(o, list):
        return [_unwrap_data(v, data_cls) for v in o]
    return o


def _count_type(o, t):
    if isinstance(o, t):
        return 1
    if isinstance(o, dict):
        return sum(_count_type(v, t) for v in o.values())
    if isinstance(o, list):
        return sum(_count_type(v, t) for v in o)
    return 0


def _count_bytes(o):
    return _count_type(o, bytes)


def _strip_wrappers(spec):
    """$data/$bytearray -> plain bytes (for the stdlib writer)."""
    if isinstance(spec, dict):
        if len(spec) == 1 and next(iter(spec)) in ("$data", "$bytearray"):
            return bytes(next(iter(spec.values())))
        if len(spec) == 1 and next(iter(spec)) == "$date":
            return spec
        return {k: _strip_wrappers(v) for k, v in spec.items()}
    if isinstance(spec, list):
        return [_strip_wrappers(v) for v in spec]
    return spec


def _key_order(o, want_sorted, path="$"):
    if isinstance(o, dict):
        keys = list(o)
        if want_sorted and keys != sorted(keys):
            return "%s: keys not sorted: %r" % (path, keys[:6])
        for k, v in o.items():
            d = _key_order(v, want_sorted, "%s[%r]" % (path, k))
            if d:
                return d
    elif isinstance(o, list):
        for i, v in enumerate(o):
            d = _key_order(v, want_sorted, "%s[%d]" % (path, i))
            if d:
                return d
    return None


def _same_order(a, b, path="$"):
    if isinstance(a, dict) and isinstance(b, dict):
        if list(a) != list(b):
            return "%s: key order %r, written %r" % (path, list(b)[:6], list(a)[:6])
        for k in a:
            d = _same_order(a[k], b[k], "%s[%r]" % (path, k))
            if d:
                return d
    elif isinstance(a, list) and isinstance(b, list):
        for i, (x, y) in enumerate(zip(a, b)):
            d = _same_order(x, y, "%s[%d]" % (path, i))
            if d:
                return d
    return None


# ---------------------------------------------------------------------------
# (6) axis maps


def ref_piecewise(v, pairs):
    """Exact piecewise-linear interpolation through (x, y) pairs (x strictly increasing), v within range."""
    v = Fraction(v)
    pts = sorted((Fraction(x), Fraction(y)) for x, y in pairs)
    for (x1, y1), (x2, y2) in zip(pts, pts[1:]):
        if x1 <= v <= x2:
            return y1 + (y2 - y1) * (v - x1) / (x2 - x1)
    if v == pts[0][0]:
        return pts[0][1]
    raise HarnessError("reference map evaluated outside its range: %r" % (v,))


def check_axismap(case, r):
    from fontTools.designspaceLib import AxisDescriptor, DesignSpaceDocument, DiscreteAxisDescriptor

    pairs = [tuple(p) for p in case["map"]]
    if case.get("discrete"):
        ax = DiscreteAxisDescriptor(name="D", tag="DDDD", values=[p[0] for p in pairs], default=pairs[0][0], map=list(pairs))
        fwd = dict(pairs)
        for v in case["vs"]:
            ok, f = r.call("map_forward", ax.map_forward, v)
            if not ok:
                continue
            if f != fwd[v]:
                r.fail("discrete-forward", "map %r: forward(%r) = %r, expected %r" % (pairs, v, f, fwd[v]))
            ok, b = r.call("map_backward", ax.map_backward, f)
            if ok and b != v:
                r.fail("discrete-backward", "map %r: backward(forward(%r)) = %r" % (pairs, v, b))
        r.acc.case(("axismap", case), nontrivial=len(pairs) > 1, labels=["axismap:discrete"])
        return
    us = [p[0] for p in pairs]
    ds = [p[1] for p in pairs]
    scale = max([1.0] + [abs(x) for x in us + ds])
    tol = 1e-9 * scale
    ax = AxisDescriptor(name="W", tag="wght", minimum=min(us), default=min(us), maximum=max(us), map=list(pairs))
    doc = DesignSpaceDocument()
    doc.addAxis(ax)
    inv = [(d, u) for u, d in pairs]
    for v in case["vs"]:
        ok, f = r.call("map_forward", ax.map_forward, v)
        if not ok:
            continue
        ref = ref_piecewise(v, pairs)
        if abs(Fraction(f) - ref) > tol:
            r.fail("forward-vs-reference", "map %r: forward(%r) = %r, exact %r" % (pairs, v, f, float(ref)))
            continue
        ok, b = r.call("map_backward", ax.map_backward, f)
        if not ok:
            continue
        if abs(b - v) > tol:
            r.fail("backward(forward)", "map %r: backward(forward(%r) = %r) = %r (tolerance %g)" % (pairs, v, f, b, tol))
        refb = ref_piecewise(ref, inv)
        if abs(Fraction(ax.map_backward(float(ref))) - refb) > tol:
            r.fail("backward-vs-reference", "map %r: backward(%r) = %r, exact %r" % (pairs, float(ref), ax.map_backward(float(ref)), float(refb)))
        # anisotropic design value: only the x value counts (documented)
        ok, b2 = r.call("map_backward-tuple", ax.map_backward, (f, f + 1))
        if ok and b2 != b:
            r.fail("backward-tuple", "map %r: backward((%r, ...)) = %r vs %r" % (pairs, f, b2, b))
        ok, df = r.call("doc.map_forward", doc.map_forward, {"W": v})
        if ok and df != {"W": f}:
            r.fail("doc-forward", "%r vs %r" % (df, f))
        ok, db = r.call("doc.map_backward", doc.map_backward, {"W": f})
        if ok and db != {"W": b}:
            r.fail("doc-backward", "%r vs %r" % (db, b))
    decreasing = ds[us.index(max(us))] < ds[us.index(min(us))]
    r.acc.case(
        ("axismap", case),
        nontrivial=len(pairs) >= 3,
        labels=["axismap:decreasing" if decreasing else "axismap:increasing", "axismap:points=%d" % min(len(pairs), 6), "axismap:unsorted-input" if us != sorted(us) else "axismap:sorted-input"],
    )


# ---------------------------------------------------------------------------
# (5) file names

UFO_ILLEGAL = set(chr(i) for i in range(0, 32)) | {"\x7f"} | set('"*+/:<>?[\\]|()')
MISC_ILLEGAL = set(chr(i) for i in range(0, 32)) | {"\x7f"} | set('"*+/:<>?[\\]|')
UFO_RESERVED = {"con", "prn", "aux", "clock$", "nul"} | {"com%d" % i for i in range(1, 10)} | {"lpt%d" % i for i in range(1, 10)}
MISC_RESERVED = {"con", "prn", "aux", "clock$", "nul", "a:-z:", "com1", "lpt1", "lpt2", "lpt3", "com2", "com3", "com4"}
MAXLEN = 255


def ref_filter(name, illegal, prefix):
    """UFO 3 convention, steps before clipping."""
    if not prefix and name[0] == ".":
        name = "_" + name[1:]
    out = []
    for ch in name:
        if ch in illegal:
            out.append("_")
        elif ch != ch.lower():
            out.append(ch + "_")
        else:
            out.append(ch)
    return "".join(out)


def ref_file_name(name, existing, illegal, reserved, prefix="", suffix=""):
    """Reference implementation of the UFO 3 'user name to file name' convention.
    Returns (fileName, clashed)."""
    s = ref_filter(name, illegal, prefix)
    s = s[: MAXLEN - len(prefix) - len(suffix)]
    s = ".".join("_" + p if p.lower() in reserved else p for p in s.split("."))
    full = prefix + s + suffix
    if full.lower() not in existing:
        return full, False
    # clash: make room for, and append, a 15 digit counter
    over = len(prefix) + len(s) + len(suffix) + 15 - MAXLEN
    if over > 0:
        s = s[: len(s) - over] if over < len(s) else ""
    n = 1
    while True:
        full = prefix + s + "%015d" % n + suffix
        if full.lower() not in existing:
            return full, True
        n += 1
        if n > 100000:
            raise HarnessError("reference clash counter ran away")


def known_overflow(name, illegal, reserved, prefix, suffix):
    """Known finding (reported): the '_' put in front of reserved parts is added after the
    255 clip, so such names can exceed 255 characters. Excluded by construction."""
    s = ref_filter(name, illegal, prefix)[: MAXLEN - len(prefix) - len(suffix)]
    nres = sum(1 for p in s.split(".") if p.lower() in reserved)
    return nres > 0 and len(prefix) + len(s) + nres + len(suffix) > MAXLEN


def name_violations(fn, illegal, reserved, prefix, suffix, existing):
    out = []
    if len(fn) > MAXLEN:
        out.append(("too-long", "%d characters" % len(fn)))
    bad = sorted(set(fn) & illegal)
    if bad:
        out.append(("illegal-character", "%r in %s" % (bad, short(repr(fn), 80))))
    if not (fn.startswith(prefix) and fn.endswith(suffix) and len(fn) >= len(prefix) + len(suffix)):
        out.append(("prefix-suffix", short(repr(fn), 80)))
    core = fn[len(prefix) : len(fn) - len(suffix)] if suffix else fn[len(prefix) :]
    if any(p.lower() in reserved for p in core.split(".")):
        out.append(("reserved-name", short(repr(fn), 80)))
    if not prefix and fn.startswith("."):
        out.append(("leading-dot", short(repr(fn), 80)))
    if core == "":
        out.append(("empty", short(repr(fn), 80)))
    if fn.lower() in existing:
        out.append(("not-unique-ignoring-case", short(repr(fn), 80)))
    return out


_VARIANTS = {
    "ufo": ("ufo", "", ""),
    "ufo-glif": ("ufo", "", ".glif"),
    "ufo-layer": ("ufo", "glyphs.", ""),
    "misc": ("misc", "", ""),
    "misc-glif": ("misc", "", ".glif"),
}


def check_names(case, r):
    from fontTools.misc import filenames as mf
    from fontTools.ufoLib import filenames as uf
    from fontTools.ufoLib.glifLib import glyphNameToFileName

    which, prefix, suffix = _VARIANTS[case["variant"]]
    mod = uf if which == "ufo" else mf
    illegal = UFO_ILLEGAL if which == "ufo" else MISC_ILLEGAL
    reserved = UFO_RESERVED if which == "ufo" else MISC_RESERVED
    existing = set()
    assigned = {}
    n_clash = n_trunc = n_res = n_used = 0
    for i, name in enumerate(case["names"]):
        if name == "":
            continue
        if known_overflow(name, illegal, reserved, prefix, suffix):
            r.acc.exclude("names:known-finding reserved part prefixed after 255 clip")
            continue
        if case["variant"] == "ufo-glif" and i % 2:
            ok, fn = r.call("glyphNameToFileName", glyphNameToFileName, name, existing)
        else:
            ok, fn = r.call("userNameToFileName", mod.userNameToFileName, name, existing, prefix=prefix, suffix=suffix)
        if not ok:
            continue
        n_used += 1
        if not isinstance(fn, str):
            r.fail("not-a-string", repr(fn))
            continue
        for what, detail in name_violations(fn, illegal, reserved, prefix, suffix, existing):
            r.fail(what, "name #%d %s -> %s" % (i, short(repr(name), 60), detail))
        ref, clashed = ref_file_name(name, existing, illegal, reserved, prefix, suffix)
        if fn != ref:
            r.fail("differs-from-convention", "name #%d %s: got %s, UFO convention gives %s" % (i, short(repr(name), 60), short(repr(fn), 90), short(repr(ref), 90)))
        n_clash += clashed
        n_trunc += len(ref_filter(name, illegal, prefix)) > MAXLEN - len(prefix) - len(suffix)
        n_res += any(p.lower() in reserved for p in ref_filter(name, illegal, prefix).split("."))
        existing.add(fn.lower())
        assigned[i] = fn
    labels = ["names:%s" % case["variant"]]
    labels += ["names:with-clash"] * bool(n_clash) + ["names:with-truncation"] * bool(n_trunc) + ["names:with-reserved"] * bool(n_res)
    labels += ["names:clash-after-truncation"] * bool(n_clash and n_trunc)
    r.acc.case(("names", case), nontrivial=bool(n_clash or n_trunc), labels=labels, sample=None)
    r.acc.label("names:individual-names", n_used)
    r.acc.label("names:individual-clashes", n_clash)


# ---------------------------------------------------------------------------
# (1) designspace documents


def ds_fmt(v):
    """The writer's documented number formatting: integral values as %d, others as %f."""
    if isinstance(v, (list, tuple)):
        return [ds_fmt(x) for x in v]
    if v is None:
        return None
    if v == int(v):
        return float(int(v))
    return float("%.6f" % v)


def _parse_format(s):
    if s is None:
        return (5, 0)
    parts = [int(x) for x in s.split(".")]
    return (parts[0], parts[1] if len(parts) > 1 else 0)


def ds_expected_format(d):
    fmt = _parse_format(d["formatVersion"])
    needs5 = (
        any(ax["kind"] == "discrete" or ax["axisOrdering"] is not None or ax["axisLabels"] for ax in d["axes"])
        or d["locationLabels"]
        or any(s["localisedFamilyName"] for s in d["sources"])
        or d["variableFonts"]
        or any(i["locationLabel"] or i["userLocation"] for i in d["instances"])
    )
    if needs5 and fmt < (5, 0):
        fmt = (5, 0)
    if d["axisMappings"] and fmt < (5, 1):
        fmt = (5, 1)
    return fmt


_LOCALISED = ("localisedFamilyName", "localisedStyleName", "localisedStyleMapFamilyName", "localisedStyleMapStyleName")


def ds_sanitize(d, acc):
    """Remove, with a counter, input classes that are known not to survive (reported as
    candidate findings or deprecated/lossy by design). Operates on a copy."""
    import copy

    d = copy.deepcopy(d)

    def ex(why):
        if acc is not None:
            acc.exclude(why)

    for ax in d["axes"]:
        for k, v in list(ax["labelNames"].items()):
            if v == "":
                pass  # former finding (repaired): an empty localised name crashed the reader
    for s in d["sources"]:
        if "en" in s["localisedFamilyName"]:
            del s["localisedFamilyName"]["en"]
            ex("ds:known-finding 'en' entry of localised names is not written")
    for i in d["instances"]:
        for k in _LOCALISED:
            if "en" in i[k]:
                del i[k]["en"]
                ex("ds:known-finding 'en' entry of localised names is not written")
        if not i["kerning"] or not i["info"]:
            i["kerning"] = i["info"] = True
            ex("ds:instance kerning/info=False (deprecated flags, not carried by the format)")
    for vf in d["variableFonts"]:
        for sub in vf["axisSubsets"]:
            if sub["kind"] == "range":
                vals = [sub["userMinimum"], sub["userDefault"], sub["userMaximum"]]
                if any(v is None for v in vals) and not all(v is None for v in vals):
                    pass  # former finding (repaired): a partial range axis-subset could not be read back
    if ds_expected_format(d) >= (5, 0):
        for i in d["instances"]:
            if i["glyphs"]:
                i["glyphs"] = {}
                ex("ds:instance glyphs in a format 5 document (deprecated, not written)")
    if not d["rules"]:
        d["rulesProcessingLast"] = False
    n = [0]

    def negzero(o, key=None):
        # known finding: a value in (-5e-7, 0) is written as "-0" and, re-read, as "0" (second write differs)
        if isinstance(o, dict):
            return {k: (v if k == "lib" else negzero(v, k)) for k, v in o.items()}
        if isinstance(o, list):
            return [negzero(v) for v in o]
        # former finding (repaired): a value in (-5e-7, 0) was written as "-0"; such values are kept now
        return o

    d = negzero(d)
    for _ in range(n[0]):
        ex("ds:known-finding tiny negative number written as '-0' (second write differs)")
    return d


def _tup(v):
    return tuple(v) if isinstance(v, list) else v


def _loc_build(loc):
    return {k: _tup(v) for k, v in loc.items()}


def ds_build(d, base_dir=None):
    from fontTools import designspaceLib as L

    doc = L.DesignSpaceDocument()
    doc.formatVersion = d["formatVersion"]
    doc.elidedFallbackName = d["elidedFallbackName"]
    for ax in d["axes"]:
        labels = [
            L.AxisLabelDescriptor(
                name=l["name"], userValue=l["userValue"], userMinimum=l["userMinimum"], userMaximum=l["userMaximum"],
                elidable=l["elidable"], olderSibling=l["olderSibling"], linkedUserValue=l["linkedUserValue"], labelNames=dict(l["labelNames"]),
            )
            for l in ax["axisLabels"]
        ]
        common = dict(tag=ax["tag"], name=ax["name"], labelNames=dict(ax["labelNames"]), hidden=ax["hidden"], map=[tuple(p) for p in ax["map"]], axisOrdering=ax["axisOrdering"], axisLabels=labels)
        if ax["kind"] == "discrete":
            doc.addAxisDescriptor(values=list(ax["values"]), default=ax["default"], **common)
        else:
            doc.addAxisDescriptor(minimum=ax["minimum"], default=ax["default"], maximum=ax["maximum"], **common)
    for m in d["axisMappings"]:
        doc.addAxisMappingDescriptor(inputLocation=dict(m["inputLocation"]), outputLocation=dict(m["outputLocation"]), description=m["description"], groupDescription=m["groupDescription"])
    for l in d["locationLabels"]:
        doc.addLocationLabelDescriptor(name=l["name"], userLocation=dict(l["userLocation"]), elidable=l["elidable"], olderSibling=l["olderSibling"], labelNames=dict(l["labelNames"]))
    for ru in d["rules"]:
        doc.addRuleDescriptor(name=ru["name"], conditionSets=[[dict(c) for c in cs] for cs in ru["conditionSets"]], subs=[tuple(s) for s in ru["subs"]])
    doc.rulesProcessingLast = d["rulesProcessingLast"]
    for s in d["sources"]:
        path = None
        if base_dir is not None and s.get("path_rel"):
            path = os.path.join(base_dir, s["path_rel"])
        doc.addSourceDescriptor(
            filename=s["filename"], path=path, name=s["name"], location=_loc_build(s["location"]), layerName=s["layerName"], familyName=s["familyName"],
            styleName=s["styleName"], localisedFamilyName=dict(s["localisedFamilyName"]), copyLib=s["copyLib"], copyInfo=s["copyInfo"], copyGroups=s["copyGroups"],
            copyFeatures=s["copyFeatures"], muteKerning=s["muteKerning"], muteInfo=s["muteInfo"], mutedGlyphNames=list(s["mutedGlyphNames"]),
        )
    for vf in d["variableFonts"]:
        subs = []
        for sub in vf["axisSubsets"]:
            if sub["kind"] == "value":
                subs.append(L.ValueAxisSubsetDescriptor(name=sub["name"], userValue=sub["userValue"]))
            else:
                kw = {}
                if sub["userMinimum"] is not None:
                    kw["userMinimum"] = sub["userMinimum"]
                if sub["userMaximum"] is not None:
                    kw["userMaximum"] = sub["userMaximum"]
                if sub["userDefault"] is not None:
                    kw["userDefault"] = sub["userDefault"]
                subs.append(L.RangeAxisSubsetDescriptor(name=sub["name"], **kw))
        doc.addVariableFontDescriptor(name=vf["name"], filename=vf["filename"], axisSubsets=subs, lib=pl_build(vf["lib"]))
    for i in d["instances"]:
        glyphs = {}
        for gn, gd in i["glyphs"].items():
            g = {}
            for k, v in gd.items():
                if k == "instanceLocation":
                    g[k] = _loc_build(v)
                elif k == "masters":
                    g[k] = [dict(m, location=(_loc_build(m["location"]) if m["location"] is not None else None)) for m in v]
                    for m in g[k]:
                        if m["font"] is None:
                            del m["font"]
                        if m["location"] is None:
                            del m["location"]
                else:
                    g[k] = list(v) if isinstance(v, list) else v
            glyphs[gn] = g
        doc.addInstanceDescriptor(
            filename=i["filename"], name=i["name"], locationLabel=i["locationLabel"], designLocation=_loc_build(i["designLocation"]), userLocation=dict(i["userLocation"]),
            familyName=i["familyName"], styleName=i["styleName"], postScriptFontName=i["postScriptFontName"], styleMapFamilyName=i["styleMapFamilyName"],
            styleMapStyleName=i["styleMapStyleName"], localisedFamilyName=dict(i["localisedFamilyName"]), localisedStyleName=dict(i["localisedStyleName"]),
            localisedStyleMapFamilyName=dict(i["localisedStyleMapFamilyName"]), localisedStyleMapStyleName=dict(i["localisedStyleMapStyleName"]),
            glyphs=glyphs, kerning=i["kerning"], info=i["info"], lib=pl_build(i["lib"]),
        )
    doc.lib = pl_build(d["lib"])
    return doc


def _default_design(ax):
    """Design-space default of an axis: the map output listed for the default, else the default."""
    for a, b in ax["map"]:
        if float(a) == float(ax["default"]):
            return b
    if ax["map"] and ax["kind"] == "range":
        raise HarnessError("format-4 axis map does not list the default")
    return ax["default"]


def ds_expected(d, base_dir=None):
    fmt = ds_expected_format(d)
    axis_order = [ax["name"] for ax in d["axes"]]
    defaults = {ax["name"]: _default_design(ax) for ax in d["axes"]} if fmt < (5, 0) else None

    def loc5(design=None, user=None):
        dl, ul = {}, {}
        for n in axis_order:
            if design is not None and n in design:
                dl[n] = ds_fmt(design[n])
            elif user is not None and n in user:
                ul[n] = ds_fmt(user[n])
        return dl, ul

    def loc4(loc):
        return {n: ds_fmt(loc[n]) if n in loc else ds_fmt(defaults[n]) for n in axis_order}

    e = {"formatVersion": "%d.%d" % fmt, "elidedFallbackName": d["elidedFallbackName"], "rulesProcessingLast": d["rulesProcessingLast"]}
    e["axes"] = []
    for ax in d["axes"]:
        a = {
            "kind": ax["kind"], "name": ax["name"], "tag": ax["tag"], "hidden": ax["hidden"], "labelNames": ax["labelNames"], "default": ds_fmt(ax["default"]),
            "map": [ds_fmt(p) for p in ax["map"]], "axisOrdering": ax["axisOrdering"],
            "axisLabels": [dict(l, userValue=ds_fmt(l["userValue"]), userMinimum=ds_fmt(l["userMinimum"]), userMaximum=ds_fmt(l["userMaximum"]), linkedUserValue=ds_fmt(l["linkedUserValue"])) for l in ax["axisLabels"]],
        }
        if ax["kind"] == "discrete":
            a["values"] = ds_fmt(ax["values"])
        else:
            a["minimum"], a["maximum"] = ds_fmt(ax["minimum"]), ds_fmt(ax["maximum"])
        e["axes"].append(a)
    e["axisMappings"] = [
        dict(m, inputLocation={k: ds_fmt(v) for k, v in m["inputLocation"].items()}, outputLocation={k: ds_fmt(v) for k, v in m["outputLocation"].items()}) for m in d["axisMappings"]
    ]
    e["locationLabels"] = [dict(l, userLocation=loc5(user=l["userLocation"])[1]) for l in d["locationLabels"]]
    e["rules"] = [
        {
            "name": ru["name"],
            "conditionSets": [[{"name": c["name"], "minimum": ds_fmt(c.get("minimum")), "maximum": ds_fmt(c.get("maximum"))} for c in cs] for cs in ru["conditionSets"]],
            "subs": [list(s) for s in ru["subs"]],
        }
        for ru in d["rules"]
    ]
    e["sources"] = []
    for idx, s in enumerate(d["sources"]):
        x = {k: s[k] for k in ("layerName", "familyName", "styleName", "localisedFamilyName", "copyLib", "copyInfo", "copyGroups", "copyFeatures", "muteKerning", "muteInfo", "mutedGlyphNames")}
        x["name"] = s["name"] if s["name"] is not None else "temp_master.%d" % idx
        x["location"] = loc5(design=s["location"])[0] if fmt >= (5, 0) else loc4(s["location"])
        x["filename"] = s["filename"]
        x["path"] = None
        if base_dir is not None:
            if s.get("path_rel"):
                x["filename"] = s["path_rel"]
            if x["filename"] is not None:
                x["path"] = os.path.normpath(os.path.join(base_dir, x["filename"]))
        e["sources"].append(x)
    e["variableFonts"] = []
    for vf in d["variableFonts"]:
        subs = []
        for sub in vf["axisSubsets"]:
            if sub["kind"] == "value":
                subs.append({"kind": "value", "name": sub["name"], "userValue": ds_fmt(sub["userValue"])})
            else:
                subs.append({"kind": "range", "name": sub["name"], "userMinimum": ds_fmt(sub["userMinimum"]) if sub["userMinimum"] is not None else -math.inf,
                             "userDefault": ds_fmt(sub["userDefault"]), "userMaximum": ds_fmt(sub["userMaximum"]) if sub["userMaximum"] is not None else math.inf})
        e["variableFonts"].append({"name": vf["name"], "filename": vf["filename"], "axisSubsets": subs, "lib": Strict(pl_expected(vf["lib"]))})
    e["instances"] = []
    for i in d["instances"]:
        x = {k: i[k] for k in ("filename", "name", "locationLabel", "familyName", "styleName", "postScriptFontName", "styleMapFamilyName", "styleMapStyleName", "kerning", "info") + _LOCALISED}
        if fmt >= (5, 0):
            if i["locationLabel"] is not None:
                x["designLocation"], x["userLocation"] = {}, {}
            else:
                x["designLocation"], x["userLocation"] = loc5(i["designLocation"], i["userLocation"])
        else:
            x["designLocation"], x["userLocation"] = loc4(i["designLocation"]), {}
        x["lib"] = Strict(pl_expected(i["lib"]))
        gl = {}
        for gn, gd in i["glyphs"].items():
            g = {}
            if gd.get("mute"):
                g["mute"] = True
            if "unicodes" in gd:
                g["unicodes"] = list(gd["unicodes"])
            if "note" in gd:
                g["note"] = gd["note"]
            if "instanceLocation" in gd:
                g["instanceLocation"] = loc4(gd["instanceLocation"])
            if "masters" in gd:
                g["masters"] = [{"font": m["font"], "location": loc4(m["location"]) if m["location"] is not None else None, "glyphName": m.get("glyphName", gn)} for m in gd["masters"]]
            gl[gn] = g
        x["glyphs"] = gl
        x["path"] = None
        if base_dir is not None and i["filename"] is not None:
            x["path"] = os.path.normpath(os.path.join(base_dir, i["filename"]))
        e["instances"].append(x)
    e["lib"] = Strict(pl_expected(d["lib"]))
    return e


def _plain_loc(loc):
    return {k: (list(v) if isinstance(v, tuple) else v) for k, v in (loc or {}).items()}


def ds_extract(doc, with_paths):
    """Plain data of a (re-read) document, attribute by attribute."""
    e = {"formatVersion": doc.formatVersion, "elidedFallbackName": doc.elidedFallbackName, "rulesProcessingLast": doc.rulesProcessingLast}
    e["axes"] = []
    for ax in doc.axes:
        a = {
            "kind": "discrete" if hasattr(ax, "values") else "range", "name": ax.name, "tag": ax.tag, "hidden": ax.hidden, "labelNames": dict(ax.labelNames), "default": ax.default,
            "map": [list(p) for p in ax.map], "axisOrdering": ax.axisOrdering,
            "axisLabels": [
                {"name": l.name, "userValue": l.userValue, "userMinimum": l.userMinimum, "userMaximum": l.userMaximum, "linkedUserValue": l.linkedUserValue,
                 "elidable": l.elidable, "olderSibling": l.olderSibling, "labelNames": dict(l.labelNames)}
                for l in ax.axisLabels
            ],
        }
        if a["kind"] == "discrete":
            a["values"] = list(ax.values)
        else:
            a["minimum"], a["maximum"] = ax.minimum, ax.maximum
        e["axes"].append(a)
    e["axisMappings"] = [{"inputLocation": dict(m.inputLocation), "outputLocation": dict(m.outputLocation), "description": m.description, "groupDescription": m.groupDescription} for m in doc.axisMappings]
    e["locationLabels"] = [{"name": l.name, "userLocation": dict(l.userLocation), "elidable": l.elidable, "olderSibling": l.olderSibling, "labelNames": dict(l.labelNames)} for l in doc.locationLabels]
    e["rules"] = [{"name": ru.name, "conditionSets": [[dict(c) for c in cs] for cs in ru.conditionSets], "subs": [list(s) for s in ru.subs]} for ru in doc.rules]
    e["sources"] = []
    for s in doc.sources:
        x = {k: getattr(s, k) for k in ("layerName", "familyName", "styleName", "copyLib", "copyInfo", "copyGroups", "copyFeatures", "muteKerning", "muteInfo", "name", "filename")}
        x["localisedFamilyName"] = dict(s.localisedFamilyName)
        x["mutedGlyphNames"] = list(s.mutedGlyphNames)
        x["location"] = _plain_loc(s.location)
        x["path"] = os.path.normpath(s.path) if (with_paths and s.path is not None) else None
        e["sources"].append(x)
    e["variableFonts"] = []
    for vf in doc.variableFonts:
        subs = []
        for sub in vf.axisSubsets:
            if hasattr(sub, "userValue"):
                subs.append({"kind": "value", "name": sub.name, "userValue": sub.userValue})
            else:
                subs.append({"kind": "range", "name": sub.name, "userMinimum": sub.userMinimum, "userDefault": sub.userDefault, "userMaximum": sub.userMaximum})
        e["variableFonts"].append({"name": vf.name, "filename": vf.filename, "axisSubsets": subs, "lib": vf.lib})
    e["instances"] = []
    for i in doc.instances:
        x = {k: getattr(i, k) for k in ("filename", "name", "locationLabel", "familyName", "styleName", "postScriptFontName", "styleMapFamilyName", "styleMapStyleName", "kerning", "info")}
        for k in _LOCALISED:
            x[k] = dict(getattr(i, k))
        x["designLocation"] = _plain_loc(i.designLocation)
        x["userLocation"] = _plain_loc(i.userLocation)
        x["lib"] = i.lib
        gl = {}
        for gn, gd in i.glyphs.items():
            g = dict(gd)
            if "instanceLocation" in g:
                g["instanceLocation"] = _plain_loc(g["instanceLocation"])
            if "masters" in g:
                g["masters"] = [dict(m, location=_plain_loc(m["location"]) if m["location"] is not None else None) for m in g["masters"]]
            gl[gn] = g
        x["glyphs"] = gl
        x["path"] = os.path.normpath(i.path) if (with_paths and i.path is not None) else None
        e["instances"].append(x)
    e["lib"] = doc.lib
    return e


def check_ds(case, r):
    from fontTools.designspaceLib import DesignSpaceDocument

    d = ds_sanitize(case["doc"], r.acc)
    via = case["via"]
    fmt = ds_expected_format(d)
    if via == "file":
        with scratch_dir("c19ds") as tmp:
            _check_ds_file(d, r, tmp)
    else:
        enc = None
        if via == "str-unicode":
            # former finding (repaired): tostring(encoding=str / "unicode") raised with lxml installed
            enc = str if d.get("seed_bit", 0) % 2 == 0 else "unicode"
        doc = ds_build(d)
        ok, s1 = r.call("tostring", doc.tostring, encoding=enc)
        if not ok:
            return
        if not isinstance(s1, str if enc else bytes):
            r.fail("tostring-type", type(s1).__name__)
            return
        ok, s1b = r.call("tostring-again", doc.tostring, encoding=enc)
        if ok and s1b != s1:
            r.fail("write-not-repeatable", "two writes of the same document differ")
        ok, doc2 = r.call("fromstring", DesignSpaceDocument.fromstring, s1)
        if ok:
            got = ds_extract(doc2, False)
            df = diff(ds_expected(d), got)
            if df:
                r.fail("read(write)", "%s | xml %s" % (df, short(s1 if isinstance(s1, str) else s1.decode("utf-8", "replace"), 240)))
            ok, s2 = r.call("tostring(reread)", doc2.tostring, encoding=enc)
            # a <master> without glyphname is read with the glyph's own name filled in (documented
            # default), so the re-read document legitimately writes the attribute
            implicit = any("glyphName" not in m for i in d["instances"] for g in i["glyphs"].values() for m in g.get("masters", []))
            if implicit:
                r.acc.label("ds:fixed-point-skipped(implicit master glyphname)")
            if ok and s2 != s1 and not implicit:
                r.fail("second-write-differs", _first_text_diff(s1, s2))
    feats = []
    if any(ax["map"] for ax in d["axes"]):
        feats.append("map")
    if any(ax["kind"] == "discrete" for ax in d["axes"]):
        feats.append("discrete-axis")
    if any(ax["axisLabels"] for ax in d["axes"]):
        feats.append("axis-labels")
    for k in ("axisMappings", "locationLabels", "rules", "sources", "variableFonts", "instances", "lib"):
        if d[k]:
            feats.append(k)
    if any(i["glyphs"] for i in d["instances"]):
        feats.append("instance-glyphs")
    if any(isinstance(v, list) for i in d["instances"] for v in i["designLocation"].values()):
        feats.append("anisotropic")
    if any(i["userLocation"] for i in d["instances"]):
        feats.append("instance-userLocation")
    if any(i["locationLabel"] for i in d["instances"]):
        feats.append("instance-locationLabel")
    if any(i["lib"] for i in d["instances"]):
        feats.append("instance-lib")
    if any(s.get("path_rel") for s in d["sources"]) and via == "file":
        feats.append("source-path")
    declared = _parse_format(d["formatVersion"])
    labels = ["ds:%s" % f for f in feats] + ["ds:format=%d.%d" % fmt, "ds:via=%s" % via]
    if d["formatVersion"] is not None and declared != fmt:
        labels.append("ds:format-upgraded")
    optional = [f for f in feats if f in ("map", "rules", "discrete-axis", "lib", "axis-labels", "axisMappings", "variableFonts", "locationLabels")]
    r.acc.case(("ds", case), nontrivial=bool(optional), labels=labels, sample=case if len(feats) >= 6 else None)


def _check_ds_file(d, r, tmp):
    from fontTools.designspaceLib import DesignSpaceDocument

    doc = ds_build(d, base_dir=tmp)
    p1 = os.path.join(tmp, "Test Family.designspace")
    ok, _ = r.call("write", doc.write, p1)
    if not ok:
        return
    ok, doc2 = r.call("fromfile", DesignSpaceDocument.fromfile, p1)
    if not ok:
        return
    got = ds_extract(doc2, True)
    df = diff(ds_expected(d, base_dir=tmp), got)
    if df:
        r.fail("read(write)-file", df)
    if doc2.path != p1 or doc2.filename != os.path.basename(p1):
        r.fail("document-path", "%r / %r" % (doc2.path, doc2.filename))
    p2 = os.path.join(tmp, "second.designspace")
    ok, _ = r.call("write(reread)", doc2.write, p2)
    # writing a document read from disk recomputes filenames from the descriptors' paths (documented,
    # updatePaths case 4): an absolute filename becomes relative, a master glyphname is filled in
    skip = any(x["filename"] is not None and x["filename"].startswith("/") for x in d["sources"] + d["instances"])
    skip = skip or any("glyphName" not in m for i in d["instances"] for g in i["glyphs"].values() for m in g.get("masters", []))
    if skip:
        r.acc.label("ds:fixed-point-skipped(file)")
    if ok and not skip:
        with open(p1, "rb") as f1, open(p2, "rb") as f2:
            b1, b2 = f1.read(), f2.read()
        if b1 != b2:
            r.fail("second-write-differs-file", _first_text_diff(b1, b2))
    extra = sorted(set(os.listdir(tmp)) - {"Test Family.designspace", "second.designspace"})
    if extra:
        r.fail("unexpected-files", repr(extra))


def _first_text_diff(a, b):
    if isinstance(a, bytes):
        a = a.decode("utf-8", "replace")
    if isinstance(b, bytes):
        b = b.decode("utf-8", "replace")
    la, lb = a.splitlines(), b.splitlines()
    for i, (x, y) in enumerate(zip(la, lb)):
        if x != y:
            return "line %d: %s  |vs|  %s" % (i + 1, short(x.strip(), 160), short(y.strip(), 160))
    return "line counts %d vs %d; first extra: %s" % (len(la), len(lb), short((la[len(lb):] or lb[len(la):] or [""])[0].strip(), 160))


# ---------------------------------------------------------------------------
# (2) GLIF


class _Obj:
    pass


class RecPen:
    """Recording point pen: plain tuples of what the reader reports."""

    def __init__(self):
        self.rec = []

    def beginPath(self, identifier=None, **kwargs):
        self.rec.append(["beginPath", identifier])

    def endPath(self):
        self.rec.append(["endPath"])

    def addPoint(self, pt, segmentType=None, smooth=False, name=None, identifier=None, **kwargs):
        self.rec.append(["addPoint", list(pt), segmentType, smooth, name, identifier])

    def addComponent(self, baseGlyphName, transformation, identifier=None, **kwargs):
        self.rec.append(["addComponent", baseGlyphName, list(transformation), identifier])


def glyph_object(g):
    o = _Obj()
    for k in ("width", "height", "note", "image"):
        if g.get(k) is not None:
            setattr(o, k, dict(g[k]) if isinstance(g[k], dict) else g[k])
    if g["unicodes"]:
        o.unicodes = list(g["unicodes"])
    if g["lib"] is not None:
        o.lib = pl_build(g["lib"])
    if g["guidelines"]:
        o.guidelines = [dict(x) for x in g["guidelines"]]
    if g["anchors"]:
        o.anchors = [{k: v for k, v in a.items() if v is not None} for a in g["anchors"]]
    return o


def glyph_draw(g):
    fmt2 = g["format"] == 2

    def draw(pen):
        for el in g["outline"]:
            if el["t"] == "contour":
                if fmt2:
                    pen.beginPath(identifier=el["identifier"])
                else:
                    pen.beginPath()
                for p in el["points"]:
                    kw = {"identifier": p["identifier"]} if fmt2 else {}
                    pen.addPoint((p["x"], p["y"]), segmentType=p["type"], smooth=p["smooth"], name=p["name"], **kw)
                pen.endPath()
            else:
                kw = {"identifier": el["identifier"]} if fmt2 else {}
                pen.addComponent(el["base"], tuple(el["transformation"]), **kw)

    return draw


def norm_note(note):
    return "\n".join(line.strip() for line in note.strip().split("\n") if line.strip())


_TRANSFORM_DEFAULTS = [("xScale", 1), ("xyScale", 0), ("yxScale", 0), ("yScale", 1), ("xOffset", 0), ("yOffset", 0)]


def glyph_expected(g):
    """(attributes a blank object must carry after reading, recorded pen calls)."""
    fmt2 = g["format"] == 2
    e = {"name": g["name"]}
    w = g["width"] if g["width"] else 0
    h = g["height"] if g["height"] else 0
    if w != 0 or h != 0:
        e["width"] = Strict(w if w != 0 else 0)
        e["height"] = Strict(h if h != 0 else 0)
    un = []
    for u in g["unicodes"]:
        if u not in un:
            un.append(u)
    if un:
        e["unicodes"] = un
    if g["note"]:
        e["note"] = norm_note(g["note"])
    if g["lib"]:
        e["lib"] = Strict(pl_expected(g["lib"]))
    if fmt2:
        if g["image"] is not None:
            img = {"fileName": g["image"]["fileName"]}
            for k, dflt in _TRANSFORM_DEFAULTS:
                img[k] = g["image"].get(k, dflt)
            if "color" in g["image"]:
                img["color"] = g["image"]["color"]
            e["image"] = img
        if g["guidelines"]:
            e["guidelines"] = Strict([dict(x) for x in g["guidelines"]])
        if g["anchors"]:
            e["anchors"] = Strict([{k: v for k, v in a.items() if v is not None} for a in g["anchors"]])
    elif g["anchors"]:
        e["anchors"] = Strict([{"x": a["x"], "y": a["y"], "name": a["name"]} for a in g["anchors"]])
    rec = []
    for el in g["outline"]:
        if el["t"] == "contour":
            rec.append(["beginPath", el["identifier"] if fmt2 else None])
            for p in el["points"]:
                rec.append(["addPoint", Strict([p["x"], p["y"]]), p["type"], bool(p["smooth"]), p["name"], p["identifier"] if fmt2 else None])
            rec.append(["endPath"])
        else:
            tr = [v if v != dflt else dflt for v, (_, dflt) in zip(el["transformation"], _TRANSFORM_DEFAULTS)]
            rec.append(["addComponent", el["base"], tr, el["identifier"] if fmt2 else None])
    return e, rec


def glyph_features(g):
    f = set()
    types = set()
    for el in g["outline"]:
        if el["t"] == "component":
            f.add("component")
            if list(el["transformation"]) != [1, 0, 0, 1, 0, 0]:
                f.add("component-transform")
        else:
            f.add("contour")
            pts = el["points"]
            if not pts:
                f.add("empty-contour")
            elif pts[0]["type"] == "move":
                f.add("open-contour")
            elif all(p["type"] is None for p in pts):
                f.add("offcurve-only-contour")
            elif pts[0]["type"] is None or pts[-1]["type"] is None:
                f.add("wraparound-offcurves")
            for p in pts:
                types.add(p["type"] or "offcurve")
                if p["smooth"]:
                    f.add("smooth")
                if p["name"] is not None:
                    f.add("point-name")
                if p["identifier"]:
                    f.add("identifier")
        if el["identifier"]:
            f.add("identifier")
    f |= {"pt:" + t for t in types}
    for k in ("anchors", "guidelines", "image", "note", "lib", "unicodes"):
        if g[k]:
            f.add(k)
    if any(a.get("identifier") for a in g["anchors"]) or any(x.get("identifier") for x in g["guidelines"]):
        f.add("identifier")
    if g["width"] or g["height"]:
        f.add("advance")
    return f


def _read_glyph(r, stage, reader, *args, **kw):
    obj, pen = _Obj(), RecPen()
    ok, _ = r.call(stage, reader, *args, glyphObject=obj, pointPen=pen, **kw) if False else r.call(stage, lambda: reader(*args, obj, pen, **kw))
    return ok, obj, pen


def _compare_glyph(r, what, g, obj, pen, text=None):
    e, rec = glyph_expected(g)
    df = diff(e, dict(vars(obj)))
    if df:
        r.fail(what + ":attributes", "%s%s" % (df, " | glif %s" % short(text, 300) if text else ""))
    df = diff(rec, pen.rec)
    if df:
        r.fail(what + ":outline", "%s%s" % (df, " | glif %s" % short(text, 300) if text else ""))


def check_glif(case, r):
    import xml.etree.ElementTree as SET

    from fontTools.ufoLib.glifLib import readGlyphFromString, writeGlyphToString

    g = case["glyph"]
    validate = case["validate"]
    ok, text = r.call("write", writeGlyphToString, g["name"], glyph_object(g), glyph_draw(g), formatVersion=g["format"], validate=validate)
    if ok:
        if not isinstance(text, str):
            r.fail("write-type", type(text).__name__)
            return
        try:
            root = SET.fromstring(text.encode("utf-8"))
            if root.tag != "glyph" or root.get("name") != g["name"] or root.get("format") != str(g["format"]):
                r.fail("glif-header", "name %r format %r in %s" % (root.get("name"), root.get("format"), short(text, 200)))
        except SET.ParseError as e:
            r.fail("glif-not-wellformed", "%s | %s" % (e, short(text, 200)))
        ok, obj, pen = _read_glyph(r, "read", readGlyphFromString, text, validate=True)
        if ok:
            _compare_glyph(r, "read(write)", g, obj, pen, text)
            # restricting the accepted versions to the written one must not matter
            ok2, obj2, pen2 = _read_glyph(r, "read-formatVersions", readGlyphFromString, text, formatVersions=[g["format"]])
            if ok2 and (diff(dict(vars(obj)), dict(vars(obj2)), strict=True) or pen.rec != pen2.rec):
                r.fail("formatVersions-changes-result", "format %d" % g["format"])
            # second write: from what was read
            def redraw(p):
                for c in pen.rec:
                    if c[0] == "beginPath":
                        p.beginPath(identifier=c[1]) if g["format"] == 2 else p.beginPath()
                    elif c[0] == "endPath":
                        p.endPath()
                    elif c[0] == "addPoint":
                        kw = {"identifier": c[5]} if g["format"] == 2 else {}
                        p.addPoint(tuple(c[1]), segmentType=c[2], smooth=c[3], name=c[4], **kw)
                    else:
                        kw = {"identifier": c[3]} if g["format"] == 2 else {}
                        p.addComponent(c[1], tuple(c[2]), **kw)

            ok3, text2 = r.call("write(reread)", writeGlyphToString, g["name"], obj, redraw, formatVersion=g["format"], validate=validate)
            # (the reader strips every note line, the writer only the whole note: an indented note
            # is normalised by the first read, which is what the format documents)
            if ok3 and text2 != text and (not g["note"] or norm_note(g["note"]) == g["note"]):
                r.fail("second-write-differs", _first_text_diff(text, text2))
    f = glyph_features(g)
    labels = ["glif:format=%d" % g["format"], "glif:validate=%s" % validate] + ["glif:%s" % x for x in sorted(f)]
    r.acc.case(("glif", case), nontrivial=len(f) >= 3, labels=labels, sample=case if len(f) >= 8 else None)


def _fs_ok(name, suffix=".glif"):
    """The scratch file system accepts at most 255 bytes per name."""
    return len(ref_filter(name, UFO_ILLEGAL, "").encode("utf-8", "surrogatepass")) + len(suffix) + 15 <= 255 or name.isascii()


def check_glyphset(case, r):
    import plistlib as S

    from fontTools.ufoLib.glifLib import GlyphSet

    ufo = case["ufo"]
    glyphs = [g for g in case["glyphs"] if not known_overflow(g["name"], UFO_ILLEGAL, UFO_RESERVED, "", ".glif")]
    with scratch_dir("c19gs") as tmp:
        d = os.path.join(tmp, "glyphs")
        os.mkdir(d)
        ok, gs = r.call("GlyphSet", GlyphSet, d, ufoFormatVersion=ufo)
        if not ok:
            return
        for g in glyphs:
            r.call("writeGlyph", gs.writeGlyph, g["name"], glyph_object(g), glyph_draw(g), formatVersion=g["format"])
        if r.failed:
            return
        names1 = dict(gs.contents)
        # writing an already-written glyph keeps its file name
        for g in glyphs[:2]:
            r.call("writeGlyph-again", gs.writeGlyph, g["name"], glyph_object(g), glyph_draw(g), formatVersion=g["format"])
        if dict(gs.contents) != names1:
            r.fail("file-name-not-stable", "%r vs %r" % (names1, dict(gs.contents)))
        ok, _ = r.call("writeContents", gs.writeContents)
        r.call("close", gs.close)
        if not ok:
            return
        with open(os.path.join(d, "contents.plist"), "rb") as f:
            contents = S.load(f)
        if set(contents) != {g["name"] for g in glyphs} or list(contents) != sorted(contents):
            r.fail("contents.plist", "keys %r, glyphs written %r" % (list(contents), [g["name"] for g in glyphs]))
        seen = set()
        for gn, fn in contents.items():
            for what, detail in name_violations(fn, UFO_ILLEGAL, UFO_RESERVED, "", ".glif", seen):
                r.fail("glyph-file:" + what, "%r -> %s" % (gn, detail))
            seen.add(fn.lower())
        on_disk = sorted(os.listdir(d))
        if on_disk != sorted(list(contents.values()) + ["contents.plist"]):
            r.fail("files-on-disk", "%r vs contents %r" % (on_disk, sorted(contents.values())))
        ok, gs2 = r.call("GlyphSet-reopen", GlyphSet, d, ufoFormatVersion=ufo, expectContentsFile=True)
        if not ok:
            return
        if sorted(gs2.keys()) != sorted(g["name"] for g in glyphs):
            r.fail("keys", "%r" % sorted(gs2.keys()))
        for g in glyphs:
            if g["name"] not in gs2:
                continue
            ok, obj, pen = _read_glyph(r, "readGlyph", gs2.readGlyph, g["name"])
            if ok:
                _compare_glyph(r, "glyphset", g, obj, pen)
        ok, un = r.call("getUnicodes", gs2.getUnicodes)
        if ok:
            exp = {g["name"]: glyph_expected(g)[0].get("unicodes", []) for g in glyphs}
            df = diff(exp, un)
            if df:
                r.fail("getUnicodes", df)
        ok, comps = r.call("getComponentReferences", gs2.getComponentReferences)
        if ok:
            exp = {g["name"]: [el["base"] for el in g["outline"] if el["t"] == "component"] for g in glyphs}
            df = diff(exp, comps)
            if df:
                r.fail("getComponentReferences", df)
        ok, imgs = r.call("getImageReferences", gs2.getImageReferences)
        if ok:
            exp = {g["name"]: (g["image"]["fileName"] if g["format"] == 2 and g["image"] else None) for g in glyphs}
            df = diff(exp, imgs)
            if df:
                r.fail("getImageReferences", df)
        r.call("close2", gs2.close)
    case_clash = len({g["name"].lower() for g in glyphs}) < len(glyphs)
    r.acc.case(("glyphset", case), nontrivial=len(glyphs) >= 2, labels=["glyphset:ufo%d" % ufo, "glyphset:n=%d" % len(glyphs)] + ["glyphset:names-differ-by-case"] * case_clash)


# ---------------------------------------------------------------------------
# (3) UFOWriter / UFOReader


def _info_object(info):
    o = _Obj()
    for k, v in info.items():
        setattr(o, k, pl_build(v))
    return o


def _walk_files(root):
    out = []
    for dp, dn, fn in os.walk(root):
        for n in dn + fn:
            out.append(os.path.join(dp, n))
    return out


def check_ufo(case, r):
    import plistlib as S
    import tempfile

    from fontTools.misc import filesystem as fs
    from fontTools.ufoLib import UFOReader, UFOWriter

    structure = case["structure"]
    layers = []
    for l in case["layers"]:
        if known_overflow(l["name"], UFO_ILLEGAL, UFO_RESERVED, "glyphs.", ""):
            r.acc.exclude("names:known-finding reserved part prefixed after 255 clip")
            continue
        layers.append(dict(l, glyphs=[g for g in l["glyphs"] if not known_overflow(g["name"], UFO_ILLEGAL, UFO_RESERVED, "", ".glif")]))
    names = [l["name"] for l in layers]
    order = None
    if case["layerOrder"] is not None:
        order = [case["layers"][i]["name"] for i in case["layerOrder"] if case["layers"][i]["name"] in names]
    kerning = {(a, b): v for a, b, v in case["kerning"]}
    with scratch_dir("c19ufo") as tmp:
        old_tmp = tempfile.tempdir
        tempfile.tempdir = os.path.join(tmp, "tmp")
        os.mkdir(tempfile.tempdir)
        try:
            path = os.path.join(tmp, "out", "Font-Regular.ufoz" if structure == "zip" else "Font-Regular.ufo")
            os.mkdir(os.path.join(tmp, "out"))
            target = path
            fsobj = None
            if structure == "fs":
                fsobj = fs.osfs.OSFS(path, create=True)
                target = fsobj
            kw = {"structure": "zip"} if structure == "zip" else {}
            ok, w = r.call("UFOWriter", UFOWriter, target, **kw)
            if not ok:
                return
            try:
                r.call("writeInfo", w.writeInfo, _info_object(case["info"]))
                r.call("writeGroups", w.writeGroups, {k: list(v) for k, v in case["groups"].items()})
                r.call("writeKerning", w.writeKerning, kerning)
                r.call("writeLib", w.writeLib, pl_build(case["lib"]))
                r.call("writeFeatures", w.writeFeatures, case["features"])
                for l in layers:
                    ok, gs = r.call("getGlyphSet", w.getGlyphSet, layerName=l["name"], defaultLayer=l["default"])
                    if not ok:
                        continue
                    for g in l["glyphs"]:
                        r.call("writeGlyph", gs.writeGlyph, g["name"], glyph_object(g), glyph_draw(g), formatVersion=g["format"])
                    r.call("writeContents", gs.writeContents)
                    li = _Obj()
                    li.color = l["color"]
                    li.lib = pl_build(l["lib"])
                    r.call("writeLayerInfo", gs.writeLayerInfo, li)
                r.call("writeLayerContents", w.writeLayerContents, order)
                for n, data in case["data"].items():
                    r.call("writeData", w.writeData, n, data)
                for n, data in case["images"].items():
                    r.call("writeImage", w.writeImage, n, data)
                layer_dirs = dict(w.layerContents)
            finally:
                r.call("close", w.close)
                if fsobj is not None:
                    fsobj.close()
            if r.failed:
                return
            # everything written lies inside the requested UFO
            top = sorted(os.listdir(os.path.join(tmp, "out")))
            if top != [os.path.basename(path)]:
                r.fail("files-outside-ufo", "directory holding the UFO contains %r" % top)
            stray = [p for p in _walk_files(tmp) if not (p.startswith(path) or p.startswith(os.path.join(tmp, "tmp")) or p == os.path.join(tmp, "out"))]
            if stray:
                r.fail("files-outside-ufo", repr(stray[:4]))
            if any(os.path.islink(p) for p in _walk_files(os.path.join(tmp, "out"))):
                r.fail("symlink-created", "")
            if structure != "zip":
                # layer directory names: legal, unique ignoring case, default is 'glyphs'
                with open(os.path.join(path, "layercontents.plist"), "rb") as f:
                    lc = S.load(f)
                if [x[0] for x in lc] != (order if order is not None else names):
                    r.fail("layercontents-order", "%r vs %r" % ([x[0] for x in lc], order if order is not None else names))
                seen = set()
                for ln, dn in lc:
                    dflt = [l for l in layers if l["name"] == ln and l["default"]]
                    if dflt:
                        if dn != "glyphs":
                            r.fail("default-layer-dir", "%r -> %r" % (ln, dn))
                    else:
                        for what, detail in name_violations(dn, UFO_ILLEGAL, UFO_RESERVED, "glyphs.", "", seen):
                            r.fail("layer-dir:" + what, "%s -> %s" % (short(repr(ln), 60), detail))
                    if not os.path.isdir(os.path.join(path, dn)):
                        r.fail("layer-dir-missing", repr(dn))
                    seen.add(dn.lower())
            # ---- read back
            rfs = None
            rtarget = path
            if structure == "fs":
                rfs = fs.osfs.OSFS(path)
                rtarget = rfs
            ok, rd = r.call("UFOReader", UFOReader, rtarget)
            if not ok:
                return
            try:
                if tuple(rd.formatVersionTuple) != (3, 0):
                    r.fail("formatVersion", repr(rd.formatVersionTuple))
                io = _Obj()
                ok, _ = r.call("readInfo", rd.readInfo, io)
                if ok:
                    df = diff(Strict(pl_expected(case["info"])), dict(vars(io)))
                    if df:
                        r.fail("info", df)
                ok, got = r.call("readGroups", rd.readGroups)
                if ok:
                    df = diff(Strict({k: list(v) for k, v in case["groups"].items()}), got)
                    if df:
                        r.fail("groups", df)
                ok, got = r.call("readKerning", rd.readKerning)
                if ok:
                    df = diff(Strict({"%r" % (k,): v for k, v in kerning.items()}), {"%r" % (k,): v for k, v in got.items()})
                    if df:
                        r.fail("kerning", df)
                ok, got = r.call("readLib", rd.readLib)
                if ok:
                    df = diff(Strict(pl_expected(case["lib"])), got)
                    if df:
                        r.fail("lib", df)
                ok, got = r.call("readFeatures", rd.readFeatures)
                if ok and got != case["features"]:
                    r.fail("features", "%s vs %s" % (short(repr(got), 120), short(repr(case["features"]), 120)))
                ok, got = r.call("getLayerNames", rd.getLayerNames)
                if ok and list(got) != (order if order is not None else names):
                    r.fail("layer-names", "%r vs %r" % (got, order if order is not None else names))
                ok, got = r.call("getDefaultLayerName", rd.getDefaultLayerName)
                if ok and got != [l["name"] for l in layers if l["default"]][0]:
                    r.fail("default-layer-name", repr(got))
                for l in layers:
                    ok, gs = r.call("reader.getGlyphSet", rd.getGlyphSet, l["name"])
                    if not ok:
                        continue
                    if sorted(gs.keys()) != sorted(g["name"] for g in l["glyphs"]):
                        r.fail("layer-glyphs", "%s: %r" % (short(repr(l["name"]), 40), sorted(gs.keys())))
                        continue
                    for g in l["glyphs"]:
                        ok, obj, pen = _read_glyph(r, "readGlyph", gs.readGlyph, g["name"])
                        if ok:
                            _compare_glyph(r, "ufo-glyph", g, obj, pen)
                    li = _Obj()
                    ok, _ = r.call("readLayerInfo", gs.readLayerInfo, li)
                    if ok:
                        exp = {}
                        if l["color"] is not None:
                            exp["color"] = l["color"]
                        if l["lib"]:
                            exp["lib"] = pl_expected(l["lib"])
                        df = diff(Strict(exp), dict(vars(li)))
                        if df:
                            r.fail("layerinfo", df)
                ok, got = r.call("getDataDirectoryListing", rd.getDataDirectoryListing)
                if ok and sorted(got) != sorted(case["data"]):
                    r.fail("data-listing", "%r vs %r" % (sorted(got), sorted(case["data"])))
                for n, data in case["data"].items():
                    ok, got = r.call("readData", rd.readData, n)
                    if ok and got != data:
                        r.fail("data", "%r" % n)
                ok, got = r.call("getImageDirectoryListing", rd.getImageDirectoryListing)
                if ok and sorted(got) != sorted(case["images"]):
                    r.fail("image-listing", "%r vs %r" % (sorted(got), sorted(case["images"])))
                for n, data in case["images"].items():
                    ok, got = r.call("readImage", rd.readImage, n)
                    if ok and got != data:
                        r.fail("image", "%r" % n)
            finally:
                r.call("reader.close", rd.close)
                if rfs is not None:
                    rfs.close()
        finally:
            tempfile.tempdir = old_tmp
    feats = [k for k in ("info", "groups", "kerning", "lib", "features", "data", "images") if case[k]]
    if len(layers) > 1:
        feats.append("layers>1")
    if order is not None and order != names:
        feats.append("layer-order")
    if any(l["glyphs"] for l in layers):
        feats.append("glyphs")
    if any(l["color"] or l["lib"] for l in layers):
        feats.append("layerinfo")
    if len({ref_filter(n, UFO_ILLEGAL, "glyphs.").lower()[:248] for n in names}) < len(names):
        feats.append("layer-dir-clash")
    r.acc.case(("ufo", case), nontrivial=len(feats) >= 3, labels=["ufo:%s" % f for f in feats] + ["ufo:structure=%s" % structure], sample=None)
    r.acc.label("ufo:info-attributes", len(case["info"]))


_FLOAT_TO_INT = set(
    "openTypeHeadLowestRecPPEM openTypeHheaAscender openTypeHheaDescender openTypeHheaLineGap openTypeHheaCaretOffset openTypeOS2TypoAscender "
    "openTypeOS2TypoDescender openTypeOS2TypoLineGap openTypeOS2WinAscent openTypeOS2WinDescent openTypeOS2SubscriptXSize openTypeOS2SubscriptYSize "
    "openTypeOS2SubscriptXOffset openTypeOS2SubscriptYOffset openTypeOS2SuperscriptXSize openTypeOS2SuperscriptYSize openTypeOS2SuperscriptXOffset "
    "openTypeOS2SuperscriptYOffset openTypeOS2StrikeoutSize openTypeOS2StrikeoutPosition openTypeVheaVertTypoAscender openTypeVheaVertTypoDescender "
    "openTypeVheaVertTypoLineGap openTypeVheaCaretOffset".split()
)
_NONNEG = {"versionMinor", "openTypeHeadLowestRecPPEM", "openTypeOS2WinAscent", "openTypeOS2WinDescent"}


def upconv_expected_info(info):
    """UFO 1/2 -> 3 font info conversion as documented by the UFO 3 specification:
    the listed metrics become integers, the listed values become non-negative."""
    out = {}
    for a, v in info.items():
        if a in _FLOAT_TO_INT:
            v = Strict(int(math.floor(v + 0.5)))
            if a in _NONNEG:
                v = Strict(abs(v.value))
        elif a in _NONNEG:
            v = Strict(abs(int(v)))
        elif a == "unitsPerEm":
            v = abs(v)
        out[a] = v
    return out


def upconv_expected_kerning(groups, kerning):
    r1 = {g: "public.kern1." + g[len("@MMK_L_"):] for g in groups if g.startswith("@MMK_L_")}
    r2 = {g: "public.kern2." + g[len("@MMK_R_"):] for g in groups if g.startswith("@MMK_R_")}
    for a, b, v in kerning:
        if a in groups and a not in r1:
            r1[a] = "public.kern1." + a
        if b in groups and b not in r2:
            r2[b] = "public.kern2." + b
    ng = {k: list(v) for k, v in groups.items()}
    for old, new in list(r1.items()) + list(r2.items()):
        ng[new] = list(groups[old])
    nk = {(r1.get(a, a), r2.get(b, b)): v for a, b, v in kerning}
    return ng, nk, {"side1": r1, "side2": r2}


def check_upconv(case, r):
    from fontTools.ufoLib import UFOReader, UFOWriter

    ver = case["version"]
    kerning = {(a, b): v for a, b, v in case["kerning"]}
    with scratch_dir("c19up") as tmp:
        path = os.path.join(tmp, "Old.ufo")
        ok, w = r.call("UFOWriter", UFOWriter, path, formatVersion=ver)
        if not ok:
            return
        try:
            r.call("writeInfo", w.writeInfo, _info_object(case["info"]))
            r.call("writeGroups", w.writeGroups, {k: list(v) for k, v in case["groups"].items()})
            r.call("writeKerning", w.writeKerning, kerning)
            r.call("writeLib", w.writeLib, pl_build(case["lib"]))
            if ver == 2:
                r.call("writeFeatures", w.writeFeatures, case["features"])
            ok, gs = r.call("getGlyphSet", w.getGlyphSet)
            if ok:
                for gn in case["glyphs"]:
                    o = _Obj()
                    o.width = 500
                    r.call("writeGlyph", gs.writeGlyph, gn, o, None)
                r.call("writeContents", gs.writeContents)
            r.call("writeLayerContents", w.writeLayerContents)
        finally:
            r.call("close", w.close)
        if r.failed:
            return
        if os.path.exists(os.path.join(path, "layercontents.plist")):
            r.fail("layercontents-in-old-ufo", "UFO %d" % ver)
        ok, rd = r.call("UFOReader", UFOReader, path)
        if not ok:
            return
        try:
            if tuple(rd.formatVersionTuple) != (ver, 0):
                r.fail("formatVersion", repr(rd.formatVersionTuple))
            io = _Obj()
            ok, _ = r.call("readInfo", rd.readInfo, io)
            if ok:
                df = diff(upconv_expected_info(case["info"]), dict(vars(io)))
                if df:
                    r.fail("info-upconversion", df)
            eg, ek, emaps = upconv_expected_kerning(case["groups"], case["kerning"])
            ok, got = r.call("readGroups", rd.readGroups)
            if ok:
                df = diff(eg, got)
                if df:
                    r.fail("groups-upconversion", df)
            ok, got = r.call("readKerning", rd.readKerning)
            if ok:
                df = diff(Strict({"%r" % (k,): v for k, v in ek.items()}), {"%r" % (k,): v for k, v in got.items()})
                if df:
                    r.fail("kerning-upconversion", df)
            ok, got = r.call("getKerningGroupConversionRenameMaps", rd.getKerningGroupConversionRenameMaps)
            if ok:
                df = diff(emaps, got)
                if df:
                    r.fail("rename-maps", df)
            ok, got = r.call("readLib", rd.readLib)
            if ok:
                df = diff(Strict(pl_expected(case["lib"])), got)
                if df:
                    r.fail("lib", df)
            ok, got = r.call("readFeatures", rd.readFeatures)
            if ok and got != case["features"]:
                r.fail("features", short(repr(got), 120))
            ok, got = r.call("getLayerNames", rd.getLayerNames)
            if ok and list(got) != ["public.default"]:
                r.fail("layer-names", repr(got))
            ok, gs = r.call("reader.getGlyphSet", rd.getGlyphSet)
            if ok and sorted(gs.keys()) != sorted(case["glyphs"]):
                r.fail("glyphs", repr(sorted(gs.keys())))
        finally:
            r.call("reader.close", rd.close)
    conv = [a for a, v in case["info"].items() if (a in _FLOAT_TO_INT and isinstance(v, float)) or (a in _NONNEG | {"unitsPerEm"} and v < 0)]
    renamed = any(g.startswith("@MMK_") for g in case["groups"]) or any(a in case["groups"] or b in case["groups"] for a, b, _ in case["kerning"])
    r.acc.case(
        ("upconv", case),
        nontrivial=bool(conv or renamed),
        labels=["upconv:ufo%d" % ver] + ["upconv:info-value-converted"] * bool(conv) + ["upconv:groups-renamed"] * renamed + ["upconv:kerning"] * bool(case["kerning"]),
    )


# ---------------------------------------------------------------------------
# (5b) GlyphSet histories


def check_gsops(case, r):
    import plistlib as S

    from fontTools.ufoLib.glifLib import GlyphSet

    model = {}
    n_clash = n_del = n_reopen = 0
    with scratch_dir("c19ops") as tmp:
        d = os.path.join(tmp, "glyphs")
        os.mkdir(d)
        ok, gs = r.call("GlyphSet", GlyphSet, d)
        if not ok:
            return
        for step, (op, name) in enumerate(case["ops"]):
            if op == "write":
                if name == "" or name in model:
                    continue
                if known_overflow(name, UFO_ILLEGAL, UFO_RESERVED, "", ".glif"):
                    r.acc.exclude("names:known-finding reserved part prefixed after 255 clip")
                    continue
                existing = {f.lower() for f in model.values()}
                ref, clashed = ref_file_name(name, existing, UFO_ILLEGAL, UFO_RESERVED, "", ".glif")
                try:
                    too_long = len(ref.encode("utf-8")) > 255 or any(0xD800 <= ord(c) <= 0xDFFF for c in name)
                except UnicodeEncodeError:
                    too_long = True
                if too_long or any(ord(c) < 32 for c in name):
                    r.acc.exclude("gsops:name not storable (file system byte limit / not XML text)")
                    continue
                o = _Obj()
                o.width = step + 1
                ok, _ = r.call("writeGlyph", gs.writeGlyph, name, o, None)
                if not ok:
                    continue
                fn = gs.contents.get(name)
                if fn is None:
                    r.fail("not-in-contents", short(repr(name), 60))
                    continue
                for what, detail in name_violations(fn, UFO_ILLEGAL, UFO_RESERVED, "", ".glif", existing):
                    r.fail("glyph-file:" + what, "step %d %s -> %s" % (step, short(repr(name), 60), detail))
                if fn != ref:
                    r.fail("differs-from-convention", "step %d %s: %s vs %s" % (step, short(repr(name), 60), short(repr(fn), 90), short(repr(ref), 90)))
                n_clash += clashed
                model[name] = fn
            elif op == "rewrite":
                if name not in model:
                    continue
                o = _Obj()
                o.width = 1000 + step
                ok, _ = r.call("writeGlyph-again", gs.writeGlyph, name, o, None)
                if ok and gs.contents.get(name) != model[name]:
                    r.fail("file-name-not-stable", "step %d %s: %r -> %r" % (step, short(repr(name), 60), model[name], gs.contents.get(name)))
            elif op == "delete":
                if name not in model:
                    continue
                ok, _ = r.call("deleteGlyph", gs.deleteGlyph, name)
                if ok:
                    del model[name]
                    n_del += 1
            elif op == "contents":
                r.call("writeContents", gs.writeContents)
            elif op == "reopen":
                r.call("writeContents", gs.writeContents)
                r.call("close", gs.close)
                ok, gs = r.call("GlyphSet-reopen", GlyphSet, d, expectContentsFile=True)
                if not ok:
                    return
                n_reopen += 1
            if dict(gs.contents) != model:
                r.fail("contents-vs-model", "after step %d (%s): %s vs %s" % (step, op, short(repr(dict(gs.contents)), 150), short(repr(model), 150)))
                return
            disk = sorted(f for f in os.listdir(d) if f != "contents.plist")
            if disk != sorted(model.values()):
                r.fail("files-on-disk", "after step %d (%s): %s vs %s" % (step, op, short(repr(disk), 150), short(repr(sorted(model.values())), 150)))
                return
        r.call("writeContents", gs.writeContents)
        r.call("close", gs.close)
        if not r.failed:
            with open(os.path.join(d, "contents.plist"), "rb") as f:
                if S.load(f) != model:
                    r.fail("contents.plist", "differs from the model")
            ok, gs = r.call("GlyphSet-final", GlyphSet, d, expectContentsFile=True)
            if ok:
                for name in model:
                    o = _Obj()
                    ok, _ = r.call("readGlyph", gs.readGlyph, name, o)
                    if ok and getattr(o, "name", None) != name:
                        r.fail("glyph-name-in-file", "%s vs %s" % (short(repr(getattr(o, "name", None)), 60), short(repr(name), 60)))
                r.call("close", gs.close)
    r.acc.case(
        ("gsops", case),
        nontrivial=bool(n_clash or n_del),
        labels=["gsops:with-clash"] * bool(n_clash) + ["gsops:with-delete"] * bool(n_del) + ["gsops:with-reopen"] * bool(n_reopen) + ["gsops:all"],
    )


# ---------------------------------------------------------------------------
# jobs

CHECKS = {
    "ds": check_ds,
    "glif": check_glif,
    "glyphset": check_glyphset,
    "ufo": check_ufo,
    "upconv": check_upconv,
    "plist": check_plist,
    "names": check_names,
    "gsops": check_gsops,
    "axismap": check_axismap,
}

# kind -> (number of quick jobs, cases per quick job, thorough jobs, cases per thorough job)
PLAN = {
    "ds": (8, 175, 16, 2200),
    "glif": (4, 340, 12, 2800),
    "glyphset": (2, 150, 8, 900),
    "ufo": (4, 75, 12, 600),
    "upconv": (1, 200, 4, 1200),
    "plist": (4, 350, 8, 4500),
    "names": (3, 200, 8, 1900),
    "gsops": (1, 120, 6, 500),
    "axismap": (1, 600, 4, 3700),
    "axismap-discrete": (1, 100, 1, 2000),
}


def _strategy(kind):
    from vf import gen_sources as G

    return {
        "ds": G.designspace_doc,
        "glif": G.glif_case,
        "glyphset": G.glyphset_case,
        "ufo": G.ufo_case,
        "upconv": G.upconvert_case,
        "plist": G.plist_case,
        "names": G.name_sequence,
        "gsops": G.glyphset_ops,
        "axismap": G.axis_map_case,
        "axismap-discrete": G.discrete_map_case,
    }[kind]()


def jobs(tier, seed):
    J = []
    # longest first
    for kind in ("ds", "glif", "ufo", "plist", "glyphset", "names", "upconv", "gsops", "axismap", "axismap-discrete"):
        qj, qn, tj, tn = PLAN[kind]
        nj, n = (tj, tn) if tier == "thorough" else (qj, qn)
        for i in range(nj):
            J.append(dict(kind=kind, name="%s-%d" % (kind, i), n=n, seed=subseed(seed, kind, i)))
    J.append(dict(kind="fixed", name="fixed-examples"))
    return J


def run_case(acc, kind, case):
    k = "axismap" if kind == "axismap-discrete" else kind
    CHECKS[k](case, R(acc, k, case))


# hand-written cases that must always be exercised (documentation examples and boundaries)
def _fixed_cases():
    out = []
    doc_names = ["a", "A", "AE", "Ae", "ae", "aE", "a.alt", "A.alt", "A.Alt", "A.aLt", "A.alT", "T_H", "T_h", "t_h", "F_F_I", "f_f_i", "Aacute_V.swash", ".notdef", "con", "CON", "con.alt", "alt.con"]
    for v in _VARIANTS:
        out.append(("names", {"names": doc_names, "variant": v}))
        out.append(("names", {"names": ["a" * 300, "a" * 299 + "b", "A" * 128, "a_" * 128, "a" * 255, "a" * 240 + "000000000000001", "a" * 300], "variant": v}))
    out.append(("axismap", {"map": [[1.0, 10.0], [400.0, 66.0], [1000.0, 990.0]], "vs": [1.0, 200.0, 400.0, 650.0, 1000.0], "discrete": False}))
    out.append(("axismap", {"map": [[0, 0], [1, -11]], "vs": [0, 1], "discrete": True}))
    out.append(("plist", {"tree": {"a": [1, 1.0, True, "1", b"1", {"$date": [2020, 2, 29, 23, 59, 59, 0]}], "": {}, " ": []}, "sort_keys": True, "pretty": True, "mode": "builtin", "indent": 1}))
    out.append(("plist", {"tree": [2**64 - 1, -(2**63), {"$data": b"\x00" * 100}], "sort_keys": False, "pretty": False, "mode": "nobuiltin", "indent": 0}))
    return out


def run_job(job):
    acc = Acc()
    kind = job["kind"]
    if kind == "fixed":
        for k, case in _fixed_cases():
            run_case(acc, k, case)
        from fontTools.misc import plistlib as P

        for bad in (2**64, -(2**63) - 1):
            try:
                P.dumps({"v": bad})
                acc.fail("plist", "out-of-range-integer-accepted", repr(bad), {"kind": "plist-range", "case": bad})
            except OverflowError:
                pass
            except Exception as e:
                acc.fail_exc("plist", e, {"kind": "plist-range", "case": bad})
        acc.case(("plist-range",), nontrivial=True, labels=["plist:integer-range-rejected"])
        return acc
    if kind not in PLAN:
        raise HarnessError("unknown job kind %r" % kind)

    def body(case, acc):
        run_case(acc, kind, case)

    hyp_collect(acc, _strategy(kind), body, job["n"], job["seed"])
    return acc


def replay(case):
    acc = Acc()
    if case["kind"] == "plist-range":
        from fontTools.misc import plistlib as P

        try:
            P.dumps({"v": case["case"]})
            acc.fail("plist", "out-of-range-integer-accepted", repr(case["case"]), case)
        except OverflowError:
            pass
        return acc.failures
    run_case(acc, case["kind"], case["case"])
    return acc.failures


_MUST_OCCUR = [
    "ds:format=4.1", "ds:format=5.0", "ds:format=5.1", "ds:format-upgraded", "ds:map", "ds:discrete-axis", "ds:axis-labels", "ds:axisMappings", "ds:locationLabels",
    "ds:rules", "ds:sources", "ds:instances", "ds:variableFonts", "ds:lib", "ds:instance-glyphs", "ds:anisotropic", "ds:via=file", "ds:via=string",
    "glif:format=1", "glif:format=2", "glif:pt:move", "glif:pt:line", "glif:pt:curve", "glif:pt:qcurve", "glif:pt:offcurve", "glif:smooth", "glif:identifier",
    "glif:component-transform", "glif:anchors", "glif:guidelines", "glif:image", "glif:note", "glif:lib", "glif:wraparound-offcurves", "glif:open-contour",
    "glyphset:ufo3", "glyphset:ufo2", "ufo:structure=package", "ufo:structure=zip", "ufo:structure=fs", "ufo:info", "ufo:kerning", "ufo:groups", "ufo:layers>1",
    "ufo:data", "ufo:images", "ufo:features", "upconv:ufo1", "upconv:ufo2", "upconv:info-value-converted", "upconv:groups-renamed",
    "plist:bool", "plist:bigint", "plist:float", "plist:bytes", "plist:$date", "plist:$data", "plist:empty", "plist:awkward-str", "plist:mode=nobuiltin",
    "names:with-clash", "names:with-truncation", "names:clash-after-truncation", "names:with-reserved", "names:ufo", "names:misc", "names:ufo-glif", "names:ufo-layer",
    "gsops:with-clash", "gsops:with-delete", "gsops:with-reopen", "axismap:increasing", "axismap:decreasing", "axismap:discrete",
]


def finish(total, tier, seed):
    if total.evals == 0:
        return  # nothing ran (watchdog); the runner reports that itself
    missing = [l for l in _MUST_OCCUR if total.labels.get(l, 0) == 0]
    if missing:
        raise HarnessError("generator classes with zero hits: %s" % ", ".join(missing))
