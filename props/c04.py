"""C04 — every saved file is a valid container with consistent derived fields.

The oracle is vf/sfntref.py: an independent reader / validator for sfnt, TTC, WOFF and WOFF2 written from the
specifications (no fontTools code). This module generates the files (corpus fonts, generated glyf fonts,
collections) under every save configuration and applies the three clauses of the statement:

  container   every produced file passes sfntref.validate_container
  derived     files written with recalcBBoxes=True from decompiled tables pass sfntref.validate_derived
  padding     glyph lengths follow table__g_l_y_f.padding (documented values 0, 1, 2, 4)
  flavour     the same model saved as sfnt / woff / woff2 carries the same tables, except WOFF2's specified
              normalisation (DSIG removed, head.flags bit 11, head.checkSumAdjustment, glyf/loca equal after
              decoding, head.indexToLocFormat following the re-padded glyf)
  ttc         members of a collection carry the tables of the standalone save; sharing on/off changes nothing

`validate_saved(data, recalc=True)` is the entry point for other checks.
"""

import hashlib
import io
import random
import struct

from vf import corpus, sfntref
from vf.runner import Acc, Allowed, CaseTimeout, HarnessError, fingerprint, hyp_collect, subseed, time_limit

ID = "C04"
LEVEL = "exploration"
RULE = (
    "inputs: every corpus font (binary sfnt/TTC member/WOFF/WOFF2 and compiled TTX) and Hypothesis-generated glyf fonts built "
    "with FontBuilder (composites nested up to depth 4, scaled / flipped / 2x2 / point-matched components, SCALED/UNSCALED "
    "offset flags, empty glyphs, single-point contours, negative side bearings, equal trailing advances, vertical metrics, "
    "odd-length instructions, dummy DSIG) x flavour {sfnt, woff, woff2} x reorderTables {True, False, None} x recalcBBoxes x "
    "glyf padding {default, 0, 1, 2, 4} x lazy {None, True, False} x decompile {all, none} x model {loaded from bytes, never-serialised FontBuilder object} x WOFF metadata/private blocks x "
    "WOFF2 hmtx transform; collections of 2-3 such fonts (duplicates with one table changed, so that sharing happens) x "
    "shareTables x TTC header v1/v2(+DSIG block). Oracle: independent reader vf/sfntref.py: directory order, search fields, "
    "table and whole-file checksums, alignment, zero padding, overlaps, WOFF/WOFF2 header arithmetic, brotli/zlib stream sizes, "
    "WOFF2 transform legality; recomputation of head bbox, maxp, hhea/vhea extents and counts, loca/indexToLocFormat, glyph "
    "bboxes from the saved bytes (asserted only on files written with recalcBBoxes=True after decompiling every table; glyf "
    "fonts in full, CFF fonts through an independent Type 2 interpreter, CFF2 counts only); flavour clause on decoded tables. "
    "One evaluation = one produced file; non-trivial = the file has a composite glyph, trimmed metrics, a non-sfnt flavour or a "
    "non-default reorder/padding option, or is a collection; distinct by sha1 of the file"
)
ASSUMPTIONS = [
    "derived fields are asserted only when the library recomputes them: recalcBBoxes=True and all tables decompiled before save (files as they come from the corpus may carry stale values)",
    "TTC: head.checkSumAdjustment is not asserted (OpenType: not used for collection files); WOFF2: it is not asserted either (the decoder must recompute it)",
    "composite glyph bbox: exact when no component below carries a scale/2x2 transform, otherwise +-1 per side (the glyf chapter leaves rounding of transformed points open); SCALED_COMPONENT_OFFSET with a non-diagonal or negative matrix is not asserted (implementations differ)",
    "hhea/vhea extents: a composite glyph that resolves to no points at all may be counted as a glyph with contours or not (the hhea chapter says 'glyphs with contours'); both readings are accepted",
    "CFF glyph bounds: a moveto not followed by any line/curve may be counted or not, consistently for the whole font; bounds whose extreme lies inside a curve segment get +-1 (floating point root finding), extents derived from them +-2",
    "WOFF2 header totalSfntSize is compared with 12 + 16*numTables + sum of 4-byte-padded origLength (the value the library documents; the recommendation calls it informative)",
    "a save() that raises because of the input (CFF2 charstring with a width operand; WOFF2 hmtx transform requested for a font without hhea) produces no file and is counted as excluded; any other exception from save() is reported",
]

SFNT_FLAVORS = (None, "woff", "woff2")

# ---------------------------------------------------------------------------
# public helper for other checks


def validate_saved(data, recalc=True, notes=None):
    """Problems (strings) of a file the library has written. recalc=True additionally asserts the derived fields
    and must only be used for files saved with recalcBBoxes=True with head/maxp/hhea/vhea/hmtx/vmtx/glyf/loca/CFF
    decompiled (otherwise stale values of the input are carried through by design)."""
    P = sfntref.validate_container(data)
    if any(p.startswith("unreadable") for p in P):
        return P
    if recalc:
        c = sfntref.parse(data)
        for i, f in enumerate(c.fonts):
            pre = "font %d: " % i if c.kind == "ttc" else ""
            P += [pre + p for p in sfntref.validate_derived(f.tables, notes)]
    return P


# ---------------------------------------------------------------------------
# generated fonts

F2 = 16384
SCALES = [F2, -F2, F2 // 2, -F2 // 2, 3 * F2 // 4, F2 // 4, 5 * F2 // 4, 5461, 16383, 11585, -11585, 1]
MATRICES = [
    (0, F2, -F2, 0),  # rotate 90
    (0, -F2, F2, 0),
    (11585, 11585, -11585, 11585),  # rotate 45
    (F2, 4096, 0, F2),  # shear
    (F2 // 2, 0, 8192, -F2),
    (-F2, 0, 0, F2),  # written as 2x2 with zero off-diagonal -> library picks x/y scale
    (12288, -4096, 4096, 12288),
    (5461, 10923, -10923, 5461),
]
COMPONENT_FLAG_BITS = [0x0004, 0x0200, 0x0400]


def _st_spec():
    from hypothesis import strategies as st

    coord = st.one_of(st.integers(-200, 200), st.sampled_from([0, 1, -1, 127, 128, -128, -129, 200, -200]))

    @st.composite
    def simple(draw):
        nc = draw(st.sampled_from([1, 1, 1, 2, 3]))
        contours = []
        for _ in range(nc):
            n = draw(st.sampled_from([1, 2, 3, 3, 4, 5, 7]))
            contours.append([[draw(coord), draw(coord), draw(st.sampled_from([1, 1, 0]))] for _ in range(n)])
        return dict(k="s", contours=contours, instr=draw(st.binary(max_size=5)), overlap=draw(st.sampled_from([False, False, True])))

    # deltas around the breakpoints of the WOFF2 triplet encoding (0, 64/65, 768/769, 1279/1280, 4095/4096) and of
    # the glyf flag encoding (255/256)
    edge = st.sampled_from([0, 1, 63, 64, 65, 66, 255, 256, 257, 767, 768, 769, 770, 1279, 1280, 1281, 4095, 4096, 4097])

    @st.composite
    def boundary(draw):
        n = draw(st.integers(2, 7))
        x, y = draw(st.integers(-50, 50)), draw(st.integers(-50, 50))
        pts = [[x, y, 1]]
        for _ in range(n):
            dx = draw(edge) * draw(st.sampled_from([1, -1]))
            dy = draw(edge) * draw(st.sampled_from([1, -1]))
            if abs(x + dx) > 8000:
                dx = -dx
            if abs(y + dy) > 8000:
                dy = -dy
            x, y = x + dx, y + dy
            pts.append([x, y, draw(st.sampled_from([1, 0]))])
        return dict(k="s", contours=[pts], instr=draw(st.binary(max_size=3)), overlap=False, big=True)

    @st.composite
    def spec(draw):
        glyphs = []
        depth = []
        n = draw(st.integers(2, 9))
        for i in range(n):
            kinds = ["s", "s", "e"] if i < 2 else ["s", "e", "c", "c", "c"]
            k = draw(st.sampled_from(kinds))
            if k == "s":
                glyphs.append(draw(boundary()) if draw(st.sampled_from([False, False, False, True])) else draw(simple()))
                depth.append(0)
            elif k == "e":
                glyphs.append(dict(k="e"))
                depth.append(0)
            else:
                ncomp = draw(st.sampled_from([1, 1, 2, 2, 3, 4]))
                comps = []
                d = 1
                cands = [j for j in range(i) if depth[j] < 4 and not glyphs[j].get("big")]
                if not cands:
                    glyphs.append(dict(k="e"))
                    depth.append(0)
                    continue
                deep = [j for j in cands if depth[j] >= 1]
                for ci in range(ncomp):
                    pool = deep if deep and draw(st.booleans()) else cands
                    g = draw(st.sampled_from(pool))
                    d = max(d, depth[g] + 1 if glyphs[g]["k"] == "c" else 1)
                    tk = draw(st.sampled_from(["none", "none", "none", "scale", "xy", "2x2"]))
                    if tk == "scale":
                        s = draw(st.sampled_from(SCALES))
                        t = [s, 0, 0, s]
                    elif tk == "xy":
                        t = [draw(st.sampled_from(SCALES)), 0, 0, draw(st.sampled_from(SCALES))]
                    elif tk == "2x2":
                        t = list(draw(st.sampled_from(MATRICES)))
                    else:
                        t = None
                    fl = 0
                    for b in COMPONENT_FLAG_BITS:
                        if draw(st.sampled_from([False, False, False, True])):
                            fl |= b
                    if t is not None:
                        fl |= draw(st.sampled_from([0, 0, 0x0800, 0x1000]))
                    comps.append(
                        dict(
                            g=g,
                            mode=draw(st.sampled_from(["xy", "xy", "xy", "pt"])),
                            a=draw(st.one_of(st.integers(-200, 200), st.integers(0, 40))),
                            b=draw(st.one_of(st.integers(-200, 200), st.integers(0, 40))),
                            t=t,
                            flags=fl,
                        )
                    )
                glyphs.append(dict(k="c", comps=comps, instr=draw(st.one_of(st.none(), st.binary(max_size=4)))))
                depth.append(d)
        adv_pool = draw(st.lists(st.integers(0, 3000), min_size=1, max_size=3))
        metrics = []
        for i in range(n):
            metrics.append([draw(st.sampled_from(adv_pool)) if draw(st.booleans()) else draw(st.integers(0, 3000)), draw(st.one_of(st.integers(-500, 500), st.sampled_from([0, 0])))])
        tail = draw(st.integers(0, n - 1))
        for i in range(n - tail, n):
            metrics[i][0] = metrics[n - 1][0]
        vmetrics = None
        if draw(st.sampled_from([False, False, True])):
            vmetrics = [[draw(st.integers(0, 2000)), draw(st.integers(-400, 400))] for _ in range(n)]
        return normalise_spec(dict(glyphs=glyphs, metrics=metrics, vmetrics=vmetrics, dsig=draw(st.sampled_from([False, False, True]))))

    return spec()


def normalise_spec(spec):
    """Make a raw generated spec valid: point-matching arguments must index existing points. Also applies the
    exclusion by construction for the known finding 'a component whose own bounding box is a single point is
    left out of the parent's bounding box': such components are removed (a composite left without components
    becomes an empty glyph) and counted in spec['excluded_degenerate_components']."""
    ref = []  # glyphs in the decoded form of vf.sfntref, to reuse its exact composition
    memo = {}
    excluded = 0
    for i, g in enumerate(spec["glyphs"]):
        if g["k"] == "c":
            keep = []
            sofar = 0
            for c in g["comps"]:
                fl = sfntref._flatten(c["g"], ref, memo, set())
                if fl.pts:
                    xs = [p[0] for p in fl.pts]
                    ys = [p[1] for p in fl.pts]
                    if max(xs) - min(xs) < 2 and max(ys) - min(ys) < 2:
                        # former finding (repaired): a component whose own box is a single point used to be left out of
                        # the parent's bounding box; such components are kept now and only counted
                        excluded += 1
                cn = len(fl.pts)
                if c["mode"] == "pt":
                    if sofar == 0 or cn == 0:
                        c["mode"] = "xy"
                    else:
                        c["a"] = abs(c["a"]) % sofar
                        c["b"] = abs(c["b"]) % cn
                sofar += cn
                keep.append(c)
            if keep:
                g["comps"] = keep
            else:
                g = spec["glyphs"][i] = dict(k="e")
        if g["k"] == "s":
            pts = [(x, y) for c in g["contours"] for x, y, on in c]
            ref.append(dict(nc=len(g["contours"]), pts=pts))
        elif g["k"] == "e":
            ref.append(None)
        else:
            comps = []
            for c in g["comps"]:
                fl = c["flags"] | (0x0002 if c["mode"] == "xy" else 0)
                comps.append(sfntref._component(fl, c["g"], c["a"], c["b"], tuple(c["t"]) if c["t"] is not None else None))
            ref.append(dict(nc=-1, components=comps))
    spec["excluded_degenerate_components"] = spec.get("excluded_degenerate_components", 0) + excluded
    return spec


def glyph_names(n):
    return [".notdef"] + ["g%d" % i for i in range(1, n)]


def build_generated(spec):
    from fontTools.fontBuilder import FontBuilder
    from fontTools.ttLib.tables import ttProgram
    from fontTools.ttLib.tables._g_l_y_f import Glyph, GlyphComponent, GlyphCoordinates

    n = len(spec["glyphs"])
    names = glyph_names(n)
    fb = FontBuilder(1000, isTTF=True)
    fb.setupGlyphOrder(names)
    fb.setupCharacterMap({0x41 + i: names[i] for i in range(1, n)})
    glyphs = {}
    for name, g in zip(names, spec["glyphs"]):
        G = Glyph()
        if g["k"] == "e":
            G.numberOfContours = 0
        elif g["k"] == "s":
            pts, flags, ends = [], bytearray(), []
            for c in g["contours"]:
                for x, y, on in c:
                    pts.append((x, y))
                    flags.append(1 if on else 0)
                ends.append(len(pts) - 1)
            if g.get("overlap"):
                flags[0] |= 0x40
            G.numberOfContours = len(ends)
            G.endPtsOfContours = ends
            G.coordinates = GlyphCoordinates(pts)
            G.flags = flags
            G.program = ttProgram.Program()
            G.program.fromBytecode(bytes(g.get("instr") or b""))
        else:
            G.numberOfContours = -1
            G.components = []
            for c in g["comps"]:
                C = GlyphComponent()
                C.glyphName = names[c["g"]]
                C.flags = c["flags"]
                if c["mode"] == "pt":
                    C.firstPt, C.secondPt = c["a"], c["b"]
                else:
                    C.x, C.y = c["a"], c["b"]
                if c["t"] is not None:
                    xx, xy, yx, yy = [v / F2 for v in c["t"]]
                    C.transform = [[xx, xy], [yx, yy]]
                G.components.append(C)
            if g.get("instr") is not None:
                G.program = ttProgram.Program()
                G.program.fromBytecode(bytes(g["instr"]))
        glyphs[name] = G
    fb.setupGlyf(glyphs)
    fb.setupHorizontalMetrics({nm: tuple(m) for nm, m in zip(names, spec["metrics"])})
    fb.setupHorizontalHeader(ascent=800, descent=-200)
    if spec.get("vmetrics"):
        fb.setupVerticalHeader(ascent=500, descent=-500)
        fb.setupVerticalMetrics({nm: tuple(m) for nm, m in zip(names, spec["vmetrics"])})
    fb.setupNameTable({"familyName": "C04Gen", "styleName": "Regular"})
    fb.setupOS2()
    fb.setupPost()
    if spec.get("dsig"):
        fb.setupDummyDSIG()
    return fb.font


# ---------------------------------------------------------------------------
# building / loading / saving


def base_bytes(src):
    """-> (bytes, fontNumber) of the input a case starts from"""
    if "gen" in src:
        font = build_generated(src["gen"])
        buf = io.BytesIO()
        font.save(buf)
        return buf.getvalue(), -1
    fid = src["fid"]
    kind, rest = fid.split(":", 1)
    if kind == "bin":
        num = int(rest.split("#")[1]) if "#" in rest else -1
        return corpus.file_bytes(fid), num
    return corpus.sfnt_bytes(fid), -1


def decompile_all(font):
    bad = []
    for tag in font.keys():
        if tag == "GlyphOrder":
            continue
        try:
            t = font[tag]
            if hasattr(t, "ensureDecompiled"):
                t.ensureDecompiled(recurse=True)
        except CaseTimeout:
            raise
        except Exception:
            bad.append(tag)
    return bad


META = b'<?xml version="1.0" encoding="UTF-8"?>\n<metadata version="1.0"><uniqueid id="org.example.c04"/></metadata>\n'


def apply_options(font, case, flavor):
    """set flavour, flavour data, glyf padding on a loaded font"""
    font.flavor = flavor
    fd = case.get("flavordata")
    if flavor == "woff":
        if fd:
            from fontTools.ttLib.sfnt import WOFFFlavorData

            d = WOFFFlavorData()
            d.majorVersion, d.minorVersion = 3, 7
            if fd in ("meta", "both"):
                d.metaData = META
            if fd in ("priv", "both"):
                d.privData = b"private data of odd length.."[: 27 if fd == "both" else 25]
            font.flavorData = d
        elif not case.get("keep_flavordata"):
            font.flavorData = None
    elif flavor == "woff2":
        from fontTools.ttLib.woff2 import WOFF2FlavorData

        tt = None
        if case.get("w2transform") == "hmtx":
            tt = ("glyf", "loca", "hmtx")
        elif case.get("w2transform") == "none":
            tt = ()
        if fd or tt is not None:
            d = WOFF2FlavorData(transformedTables=tt)
            if fd:
                d.majorVersion, d.minorVersion = 3, 7
                if fd in ("meta", "both"):
                    d.metaData = META
                if fd in ("priv", "both"):
                    d.privData = b"private data of odd length.."[: 27 if fd == "both" else 25]
            font.flavorData = d
        elif not case.get("keep_flavordata"):
            font.flavorData = None
    else:
        font.flavorData = None
    pad = case.get("padding")
    if pad is not None and "glyf" in font:
        font["glyf"].padding = pad


def load(data, num, case):
    from fontTools.ttLib import TTFont

    return TTFont(io.BytesIO(data), lazy=case.get("lazy"), fontNumber=num, recalcBBoxes=bool(case.get("recalc")), recalcTimestamp=False)


# ---------------------------------------------------------------------------
# clauses


def padding_problems(tables, padding):
    """glyph lengths vs table__g_l_y_f.padding, for a glyf table whose glyphs were all recompiled"""
    P = []
    try:
        lay = sfntref.glyf_layout(tables)
        locs, fmt = sfntref._loca(tables)
    except sfntref.ParseError as e:
        return ["padding: %s" % e]
    glyf = tables["glyf"]
    used = []
    for gid, (off, ln) in enumerate(lay):
        try:
            g = sfntref.decode_glyph(glyf[off : off + ln])
        except sfntref.ParseError as e:
            return ["padding: glyph %d unreadable: %s" % (gid, e)]
        used.append(0 if g is None or g["nc"] == 0 else g["consumed"])
    if padding in (2, 4):
        for gid, ((off, ln), u) in enumerate(zip(lay, used)):
            want = (u + padding - 1) // padding * padding
            if ln != want:
                P.append("padding=%d: glyph %d occupies %d bytes, its data need %d, expected %d" % (padding, gid, ln, u, want))
                break
    elif padding == 0:
        for gid, ((off, ln), u) in enumerate(zip(lay, used)):
            if ln != u:
                P.append("padding=0: glyph %d occupies %d bytes, its data need %d" % (gid, ln, u))
                break
    else:  # 1: no padding, except when padding odd glyphs makes short loca offsets possible
        even = sum((u + 1) & ~1 for u in used)
        if any(u % 2 for u in used) and even <= 0x1FFFE:
            for gid, ((off, ln), u) in enumerate(zip(lay, used)):
                if ln != (u + 1) & ~1:
                    P.append("padding=1: short offsets are possible but glyph %d occupies %d bytes, its data need %d" % (gid, ln, u))
                    break
            if fmt != 0:
                P.append("padding=1: short offsets are possible (%d bytes) but indexToLocFormat is %d" % (even, fmt))
        else:
            for gid, ((off, ln), u) in enumerate(zip(lay, used)):
                if ln != u:
                    P.append("padding=1: glyph %d occupies %d bytes, its data need %d" % (gid, ln, u))
                    break
    return P


def mask_head(b, flags=False, locfmt=False, stamps=False):
    if len(b) < 54:
        return b
    b = bytearray(b)
    b[8:12] = b"\0\0\0\0"
    if stamps:
        b[20:36] = b"\0" * 16
    if flags:
        b[16:18] = struct.pack(">H", struct.unpack(">H", b[16:18])[0] | 0x0800)
    if locfmt:
        b[50:52] = b"\0\0"
    return bytes(b)


def compare_flavours(ts, to, flavor, mask_stamps=False):
    """ts: tables of the sfnt save, to: tables decoded from the woff / woff2 save -> [(kind, detail)]"""
    out = []
    a, b = set(ts), set(to)
    if flavor == "woff2":
        a = a - {"DSIG"}
    if a != b:
        out.append(("table-set", "missing %s, extra %s" % (sorted(a - b), sorted(b - a))))
    w2 = flavor == "woff2"
    for tag in sorted(a & b):
        x, y = ts[tag], to[tag]
        if tag == "head":
            x = mask_head(x, flags=w2, locfmt=w2 and "glyf" in ts, stamps=w2 and mask_stamps)
            y = mask_head(y, flags=w2, locfmt=w2 and "glyf" in ts, stamps=w2 and mask_stamps)
            if x != y:
                d = [i for i in range(min(len(x), len(y))) if x[i] != y[i]]
                out.append(("head", "head differs at byte offsets %s (beyond the allowed fields)" % d[:8]))
            continue
        if w2 and tag in ("glyf", "loca"):
            continue
        if x != y:
            out.append(("table:%s" % tag.strip(), "table %r: %d vs %d bytes, first difference at %s" % (tag, len(x), len(y), _firstdiff(x, y))))
    if w2 and "glyf" in a & b and "loca" in a & b:
        try:
            la, lb = sfntref.glyf_layout(ts), sfntref.glyf_layout(to)
            if len(la) != len(lb):
                out.append(("glyf", "glyph count %d vs %d" % (len(la), len(lb))))
            else:
                for gid in range(len(la)):
                    ga = sfntref.normal_glyph(sfntref.glyf_points(ts, gid))
                    gb = sfntref.normal_glyph(sfntref.glyf_points(to, gid))
                    if ga != gb:
                        out.append(("glyf", "glyph %d differs after decoding: %s vs %s" % (gid, _short(ga), _short(gb))))
                        break
        except sfntref.ParseError as e:
            out.append(("glyf-unreadable", str(e)))
    return out


def _short(g):
    s = repr(g)
    return s if len(s) < 160 else s[:160] + "..."


def _firstdiff(a, b):
    for i, (x, y) in enumerate(zip(a, b)):
        if x != y:
            return i
    return min(len(a), len(b))


DERIVED_TAGS = ("head", "maxp", "hhea", "vhea", "hmtx", "vmtx", "glyf", "loca", "CFF ", "CFF2")


def derived_key(tables):
    h = hashlib.sha1()
    for tag in DERIVED_TAGS:
        if tag in tables:
            b = tables[tag]
            if tag == "head":
                b = b[18:]
            h.update(tag.encode())
            h.update(struct.pack(">L", len(b)))
            h.update(b)
    return h.digest()


def font_labels(tables):
    """labels describing what a font exercises (from the independent reader)"""
    L = []
    try:
        maxp = tables.get("maxp", b"")
        n = struct.unpack(">H", maxp[4:6])[0] if len(maxp) >= 6 else 0
        if "glyf" in tables and "loca" in tables:
            L.append("outlines:glyf")
            locs, fmt = sfntref._loca(tables)
            L.append("loca:long" if fmt else "loca:short")
            empty = odd = comp = tr = pm = single = 0
            if n <= 3000:
                glyphs = []
                for gid in range(min(n, len(locs) - 1)):
                    g = sfntref.glyf_points(tables, gid)
                    glyphs.append(g)
                    if g is None:
                        empty += 1
                        continue
                    if g["consumed"] % 2:
                        odd += 1
                    if g["nc"] < 0:
                        comp += 1
                        for c in g["components"]:
                            if c["transform"] is not None:
                                tr += 1
                            if not c["xy"]:
                                pm += 1
                    elif g["nc"] > 0 and len(g["pts"]) == 1:
                        single += 1
                d = 0
                memo = {}
                for gid, g in enumerate(glyphs):
                    if g is not None and g["nc"] < 0:
                        d = max(d, sfntref._flatten(gid, glyphs, memo, set()).depth)
                L.append("comp:depth=%d" % min(d, 4))
                if d >= 3:
                    L.append("comp:depth>=3")
            for nm, v in (("glyph:empty", empty), ("glyph:odd-length", odd), ("glyph:composite", comp), ("comp:transformed", tr), ("comp:point-matching", pm), ("glyph:single-point", single)):
                if v:
                    L.append(nm)
        elif "CFF " in tables:
            L.append("outlines:CFF")
        elif "CFF2" in tables:
            L.append("outlines:CFF2")
        else:
            L.append("outlines:none")
        hhea = tables.get("hhea", b"")
        if len(hhea) >= 36:
            nh = struct.unpack(">H", hhea[34:36])[0]
            if nh < n:
                L.append("hmtx:trimmed")
            if struct.unpack(">h", hhea[12:14])[0] < 0:
                L.append("hhea:negative-lsb")
            if struct.unpack(">h", hhea[14:16])[0] < 0:
                L.append("hhea:negative-rsb")
        if "vhea" in tables:
            L.append("has:vhea")
        if "DSIG" in tables:
            L.append("has:DSIG")
    except (sfntref.ParseError, struct.error):
        L.append("labels:unreadable-font")
    return L


def record_file(acc, case, data, labels, container):
    fp = hashlib.sha1(data).hexdigest()[:14]
    nontrivial = any(l in labels for l in ("glyph:composite", "hmtx:trimmed", "flavor:woff", "flavor:woff2", "kind:ttc")) or case.get("reorder", True) is not True or case.get("padding") is not None
    sample = None
    if len(acc.samples) < acc.MAX_SAMPLES and "gen" not in case.get("src", {}) and case.get("kind") == "font":
        sample = dict(case=case, bytes=len(data), sha1=fp, kind=container.kind, tables=len(container.fonts[0].tables))
    acc.case(fp, nontrivial=nontrivial, labels=labels, sample=sample)


def check_file(acc, case, data, flavor, derived, cache, extra_labels=(), padding_clause=None):
    """container + derived (+ padding) clauses on one produced file; returns the parsed container or None"""
    where = "flavor=%s" % flavor
    P = sfntref.validate_container(data)
    for p in P:
        acc.fail("container", _kind(p), "%s: %s" % (where, p), case, where=str(flavor))
    try:
        c = sfntref.parse(data)
    except sfntref.ParseError:
        acc.case(hashlib.sha1(data).hexdigest()[:14], nontrivial=True, labels=["unreadable-output"])
        return None
    labels = ["flavor:%s" % (flavor or "sfnt"), "kind:%s" % c.kind] + list(extra_labels)
    for i, f in enumerate(c.fonts):
        labels += font_labels(f.tables) if i == 0 else []
        if derived:
            k = derived_key(f.tables)
            if k not in cache:
                notes = []
                cache[k] = (sfntref.validate_derived(f.tables, notes), sorted(set(notes)))
            D, notes = cache[k]
            for p in D:
                acc.fail("derived", _kind(p), "%s font %d: %s" % (where, i, p), case, where=str(flavor))
            labels += ["note:%s" % n for n in notes]
        if padding_clause is not None and "glyf" in f.tables and "loca" in f.tables and c.kind != "woff2":
            for p in padding_problems(f.tables, padding_clause):
                acc.fail("padding", _kind(p), "%s: %s" % (where, p), case, where=str(flavor))
    if c.kind == "woff2":
        for e in c.fonts[0].w2dir:
            if e["tag"] == "glyf":
                labels.append("woff2:glyf-transformed" if e["transformed"] else "woff2:glyf-null-transform")
            if e["tag"] == "hmtx" and e["transformed"]:
                labels.append("woff2:hmtx-transformed")
    if c.kind in ("woff", "woff2"):
        if c.header["metaLength"]:
            labels.append("woff:metadata")
        if c.header["privLength"]:
            labels.append("woff:private")
    if derived:
        labels.append("derived-asserted")
    record_file(acc, case, data, labels, c)
    return c


def _kind(p):
    """bucket name of a problem string: numbers, quoted names and tuples removed, first words kept"""
    import re

    t = re.sub(r"'[^']*'|\"[^\"]*\"", "T", p)
    t = re.sub(r"\([^)]*\)|\[[^\]]*\]", "(..)", t)
    t = re.sub(r"0x[0-9a-fA-F]+|-?\d+", "N", t)
    return " ".join(t.split(" ")[:9])[:80]


def _precondition_not_met(e):
    """save() exceptions that are caused by the input, not by the writer (same classes as C01 excludes)"""
    msg = str(e)
    if isinstance(e, AssertionError) and "must not have an initial width" in msg:
        return "malformed-cff2-charstring-with-width-operand"
    if type(e).__name__ == "TTLibError" and "missing required table" in msg:
        return "woff2-transform-needs-a-table-the-font-lacks"
    return None


def run_font_case(case, acc):
    src = case["src"]
    try:
        with time_limit(600):
            B, num = base_bytes(src)
    except CaseTimeout:
        acc.inconclusive += 1
        return
    except Exception as e:
        if "gen" in src:
            acc.fail_exc("build-generated-raises", e, case)
        else:
            acc.exclude("input-build-failed:%s" % type(e).__name__)
        return
    cache = {}
    decomp = case.get("decompile", "all")
    derived = bool(case.get("recalc")) and decomp == "all"
    # exclusion by construction (known finding): the WOFF2 writer always recompiles head, which rewrites
    # created/modified values outside 1970..2106 (head.decompile "regards them as unix timestamps"), so a font
    # carrying such values and saved with head *not* decompiled differs between sfnt and woff2 in those bytes
    stamps_rewritten = False
    if decomp != "all":
        try:
            h = sfntref.parse(B).fonts[max(num, 0)].tables.get("head", b"")
            if len(h) >= 36:
                stamps_rewritten = any(not 0x7C259DC0 <= v <= 0xFFFFFFFF for v in struct.unpack(">QQ", h[20:36]))
        except (sfntref.ParseError, IndexError):
            pass
        if stamps_rewritten:
            acc.exclude("head-timestamps-out-of-range-rewritten-by-woff2-writer (documented sanitisation in head.decompile; the WOFF2 writer has to recompile head)")
    if "gen" in src:
        if src["gen"].get("excluded_degenerate_components"):
            acc.label("gen:component-with-single-point-bbox", src["gen"]["excluded_degenerate_components"])
        # the file FontBuilder wrote from the object model (recalcBBoxes=True): all clauses apply
        check_file(acc, dict(case, stage="build"), B, None, True, cache, extra_labels=["stage:build"], padding_clause=1)
    outs = {}
    from_object = bool(case.get("from_object")) and "gen" in src
    if from_object:
        decomp = "all"
        derived = bool(case.get("recalc"))
    for flavor in SFNT_FLAVORS:
        try:
            if from_object:
                # the in-memory model FontBuilder made, never serialised before (no reader behind it)
                font = build_generated(src["gen"])
                font.recalcBBoxes = bool(case.get("recalc"))
            else:
                font = load(B, num, case)
        except Exception as e:
            acc.exclude("input-does-not-load:%s" % type(e).__name__)
            return
        if decomp == "all" and not from_object:
            bad = decompile_all(font)
            if bad:
                acc.exclude("table-does-not-decompile", 1)
                return
        buf = io.BytesIO()
        try:
            apply_options(font, case, flavor)
            font.save(buf, reorderTables=case.get("reorder", True))
        except CaseTimeout:
            raise
        except Exception as e:
            why = _precondition_not_met(e)
            if why:
                acc.exclude(why)
            else:
                acc.fail_exc("save-raises", e, dict(case, flavor=flavor))
            continue
        data = buf.getvalue()
        glyf_recompiled = "glyf" in font and font.isLoaded("glyf") and (bool(case.get("recalc")) or decomp == "all")
        xl = ["reorder:%s" % case.get("reorder", True), "recalc:%s" % bool(case.get("recalc")), "lazy:%s" % case.get("lazy"), "decompile:%s" % decomp, "pad:%s" % case.get("padding"), "src:%s" % ("gen" if "gen" in src else src["fid"].split(":")[0]), "model:%s" % ("object" if from_object else "file")]
        pc = (case["padding"] if case.get("padding") is not None else 1) if glyf_recompiled else None
        c = check_file(acc, case, data, flavor, derived, cache, extra_labels=xl, padding_clause=pc)
        if c is not None:
            outs[flavor] = c
    if None in outs:
        ts = outs[None].fonts[0].tables
        for flavor in ("woff", "woff2"):
            if flavor in outs:
                for kind, detail in compare_flavours(ts, outs[flavor].fonts[0].tables, flavor, mask_stamps=stamps_rewritten):
                    if kind == "glyf-unreadable":
                        acc.exclude("glyf-not-readable-by-reference")
                        continue
                    acc.fail("flavour", "%s:%s" % (flavor, kind), detail, case, where=flavor)
                acc.label("flavour-compared:%s" % flavor)


# -- collections ---------------------------------------------------------------


def member_bytes(m):
    """member descriptor -> (bytes, fontNumber, edits)"""
    B, num = base_bytes(m["src"])
    return B, num


def apply_edit(font, edit):
    from fontTools.ttLib.tables.DefaultTable import DefaultTable

    if not edit:
        return
    if edit.get("junk") is not None:
        t = DefaultTable("zzzz")
        t.data = bytes(edit["junk"])
        font["zzzz"] = t
    if edit.get("drop") and edit["drop"] in font and edit["drop"] not in ("head", "maxp", "hhea", "hmtx", "glyf", "loca", "CFF ", "post", "cmap"):
        del font[edit["drop"]]


def build_collection(case, share):
    from fontTools.ttLib import TTFont
    from fontTools.ttLib.ttCollection import TTCollection

    if case.get("ttcfile"):
        data = corpus.file_bytes(case["ttcfile"])
        coll = TTCollection(io.BytesIO(data), shareTables=bool(case.get("load_shared")), lazy=case.get("lazy"), recalcBBoxes=bool(case.get("recalc")), recalcTimestamp=False)
        fonts = coll.fonts
    else:
        coll = TTCollection()
        fonts = []
        for m in case["members"]:
            B, num = base_bytes(m["src"])
            f = TTFont(io.BytesIO(B), lazy=case.get("lazy"), fontNumber=num, recalcBBoxes=bool(case.get("recalc")), recalcTimestamp=False)
            f.flavor = None
            f.flavorData = None
            apply_edit(f, m.get("edit"))
            fonts.append(f)
        coll.fonts = fonts
    bad = []
    for f in fonts:
        if case.get("decompile", "all") == "all":
            bad += decompile_all(f)
        if case.get("padding") is not None and "glyf" in f:
            f["glyf"].padding = case["padding"]
    if case.get("header") == "v2":
        coll.dsig = None
    elif case.get("header") == "v2dsig":
        from fontTools.ttLib.tables.D_S_I_G_ import table_D_S_I_G_

        coll.dsig = table_D_S_I_G_("DSIG")
        coll.dsig.data = b"\0\0\0\1\0\0\0\0"
    elif case.get("header") == "v1" and hasattr(coll, "dsig"):
        del coll.dsig
    return coll, bad


def run_ttc_case(case, acc):
    cache = {}
    decomp = case.get("decompile", "all")
    derived = bool(case.get("recalc")) and decomp == "all"
    outs = {}
    for share in (True, False):
        try:
            coll, bad = build_collection(case, share)
        except CaseTimeout:
            raise
        except Exception as e:
            acc.exclude("input-build-failed:%s" % type(e).__name__)
            return
        if bad:
            acc.exclude("table-does-not-decompile")
            return
        buf = io.BytesIO()
        try:
            coll.save(buf, shareTables=share)
        except CaseTimeout:
            raise
        except Exception as e:
            why = _precondition_not_met(e)
            if why:
                acc.exclude(why)
            else:
                acc.fail_exc("save-raises", e, dict(case, share=share))
            return
        data = buf.getvalue()
        xl = ["ttc:share=%s" % share, "ttc:header=%s" % case.get("header", "v1"), "recalc:%s" % bool(case.get("recalc")), "lazy:%s" % case.get("lazy"), "decompile:%s" % decomp]
        c = check_file(acc, dict(case, share=share), data, None, derived, cache, extra_labels=xl)
        if c is None:
            return
        outs[share] = c
        offs = [o for f in c.fonts for (t, cs, o, l) in f.dir if l]
        nshared = len(offs) - len(set(offs))
        acc.label("ttc:shared-entries" if nshared else "ttc:no-shared-entries")
        if not share and nshared:
            acc.fail("ttc", "shared-entries-with-shareTables-False", "%d directory entries point at data of another font" % nshared, dict(case, share=share))
        if c.ttcVersion == 0x00020000 and c.dsig and c.dsig[0] == b"DSIG":
            acc.label("ttc:dsig-block")
        # members vs standalone saves of the same models
        if share:
            try:
                coll2, _ = build_collection(case, share)
            except Exception:
                coll2 = None
            if coll2 is not None:
                for i, f in enumerate(coll2.fonts):
                    b2 = io.BytesIO()
                    try:
                        f.save(b2, reorderTables=None)
                    except CaseTimeout:
                        raise
                    except Exception as e:
                        why = _precondition_not_met(e)
                        if why:
                            acc.exclude(why)
                        else:
                            acc.fail_exc("save-raises", e, dict(case, member=i))
                        continue
                    d2 = b2.getvalue()
                    c2 = check_file(acc, dict(case, member=i), d2, None, derived, cache, extra_labels=["stage:ttc-member-standalone"])
                    if c2 is None or i >= len(c.fonts):
                        continue
                    _cmp_tables(acc, case, c.fonts[i].tables, c2.fonts[0].tables, "member-vs-standalone", "member %d" % i)
    if True in outs and False in outs:
        a, b = outs[True], outs[False]
        if len(a.fonts) != len(b.fonts):
            acc.fail("ttc", "font-count", "%d vs %d fonts" % (len(a.fonts), len(b.fonts)), case)
        for i, (fa, fb) in enumerate(zip(a.fonts, b.fonts)):
            _cmp_tables(acc, case, fa.tables, fb.tables, "share-on-vs-off", "member %d" % i)


def _cmp_tables(acc, case, ta, tb, clause, what):
    if set(ta) != set(tb):
        acc.fail("ttc", "%s:table-set" % clause, "%s: %s vs %s" % (what, sorted(set(ta) - set(tb)), sorted(set(tb) - set(ta))), case)
    for tag in sorted(set(ta) & set(tb)):
        x, y = ta[tag], tb[tag]
        if tag == "head":
            x, y = mask_head(x), mask_head(y)
        if x != y:
            acc.fail("ttc", "%s:table:%s" % (clause, tag.strip()), "%s table %r: %d vs %d bytes, first difference at %s" % (what, tag, len(x), len(y), _firstdiff(x, y)), case)


# ---------------------------------------------------------------------------
# jobs


def run_case(case, acc):
    try:
        with time_limit(900):
            if case["kind"] == "ttc":
                run_ttc_case(case, acc)
            else:
                run_font_case(case, acc)
    except CaseTimeout:
        acc.inconclusive += 1


def _options(rnd, glyf, first=False):
    o = dict(
        reorder=rnd.choice([True, True, False, None]),
        recalc=rnd.random() < 0.6,
        lazy=rnd.choice([None, True, False]),
        decompile=rnd.choice(["all", "all", "none"]),
        flavordata=rnd.choice([None, None, None, "meta", "priv", "both"]),
    )
    if glyf:
        o["padding"] = rnd.choice([None, 0, 1, 2, 4])
        o["w2transform"] = rnd.choice([None, None, "hmtx", "none"])
    if first:
        o.update(recalc=True, decompile="all")
    if rnd.random() < 0.3:
        o["keep_flavordata"] = True
    return o


def font_cases(fid, seed, tier):
    e = corpus.entry(fid)
    rnd = random.Random(seed)
    glyf = "glyf" in e["tables"]
    n = 2 if e["size"] < 60000 and seed % 3 == 0 else 1
    if tier == "thorough":
        n = 24 if e["size"] < 60000 else 6
    cases = []
    for i in range(n):
        cases.append(dict(kind="font", src=dict(fid=fid), **_options(rnd, glyf, first=(i == 0))))
    return cases


def _st_gen_case():
    from hypothesis import strategies as st

    @st.composite
    def s(draw):
        rnd = random.Random(draw(st.integers(0, 2**32)))
        return dict(kind="font", src=dict(gen=draw(_st_spec())), from_object=draw(st.sampled_from([False, False, True])), **_options(rnd, True, first=draw(st.booleans())))

    return s()


def _st_ttc_case(small):
    from hypothesis import strategies as st

    @st.composite
    def s(draw):
        n = draw(st.sampled_from([2, 2, 3]))
        members = []
        for i in range(n):
            how = draw(st.sampled_from(["gen", "corpus", "dup", "dup"])) if members else draw(st.sampled_from(["gen", "corpus"]))
            if how == "gen":
                src = dict(gen=draw(_st_spec()))
            elif how == "corpus":
                src = dict(fid=draw(st.sampled_from(small)))
            else:
                src = members[draw(st.integers(0, len(members) - 1))]["src"]
            edit = None
            if how == "dup" or draw(st.sampled_from([False, False, True])):
                edit = dict(junk=draw(st.one_of(st.none(), st.binary(max_size=9))), drop=draw(st.sampled_from([None, None, "name", "OS/2", "GSUB", "gasp"])))
            members.append(dict(src=src, edit=edit))
        return dict(
            kind="ttc",
            members=members,
            recalc=draw(st.booleans()),
            lazy=draw(st.sampled_from([None, True, False])),
            decompile=draw(st.sampled_from(["all", "all", "none"])),
            header=draw(st.sampled_from(["v1", "v1", "v2", "v2dsig"])),
            padding=draw(st.sampled_from([None, None, 0, 2, 4])),
        )

    return s()


def jobs(tier, seed):
    thorough = tier == "thorough"
    J = []
    for fid in corpus.ids():
        J.append(dict(kind="font", name="font:" + fid, fid=fid, seed=subseed(seed, fid), tier=tier))
    ng = 16
    for i in range(ng):
        J.append(dict(kind="gen", name="gen-%d" % i, n=(110 if thorough else 7), seed=subseed(seed, "gen", i)))
    for i in range(8):
        J.append(dict(kind="ttc", name="ttc-%d" % i, n=(60 if thorough else 5), seed=subseed(seed, "ttc", i)))
    J.append(dict(kind="ttcfiles", name="ttc-corpus-files", seed=subseed(seed, "ttcfiles"), tier=tier))
    # large fonts first so that they do not end up as the tail of the run
    size = {e["id"]: e["size"] for e in corpus.fonts()}
    J.sort(key=lambda j: -size.get(j.get("fid"), 0))
    return J


def run_job(job):
    acc = Acc()
    k = job["kind"]
    if k == "font":
        for case in font_cases(job["fid"], job["seed"], job["tier"]):
            run_case(case, acc)
    elif k == "gen":
        hyp_collect(acc, _st_gen_case(), run_case, job["n"], job["seed"])
    elif k == "ttc":
        small = [e["id"] for e in corpus.fonts() if e["size"] < 30000]
        hyp_collect(acc, _st_ttc_case(small), run_case, job["n"], job["seed"])
    elif k == "ttcfiles":
        rnd = random.Random(job["seed"])
        files = sorted(set(fid.split("#")[0] for fid in corpus.ids() if "#" in fid))
        for f in files:
            for header in ("keep", "v1", "v2dsig"):
                for load_shared in (False, True):
                    run_case(dict(kind="ttc", ttcfile=f, header=header, load_shared=load_shared, recalc=rnd.random() < 0.5, lazy=rnd.choice([None, True, False]), decompile=rnd.choice(["all", "none"])), acc)
    else:
        raise HarnessError("unknown job kind %r" % k)
    return acc


MUST_OCCUR = [
    "flavor:sfnt",
    "flavor:woff",
    "flavor:woff2",
    "kind:ttc",
    "woff2:glyf-transformed",
    "woff2:hmtx-transformed",
    "woff:metadata",
    "woff:private",
    "comp:depth>=3",
    "comp:transformed",
    "comp:point-matching",
    "glyph:empty",
    "glyph:odd-length",
    "hmtx:trimmed",
    "hhea:negative-lsb",
    "hhea:negative-rsb",
    "has:vhea",
    "has:DSIG",
    "derived-asserted",
    "note:derived:glyf",
    "note:derived:cff",
    "ttc:shared-entries",
    "ttc:dsig-block",
    "pad:0",
    "pad:1",
    "pad:2",
    "pad:4",
    "reorder:None",
    "reorder:False",
    "model:object",
    "flavour-compared:woff",
    "flavour-compared:woff2",
]


def finish(total, tier, seed):
    missing = [l for l in MUST_OCCUR if not total.labels.get(l)]
    if missing:
        raise HarnessError("generator classes with zero hits: %s" % missing)


def replay(case):
    acc = Acc()
    case = dict(case)
    for k in ("stage", "flavor", "share", "member"):
        case.pop(k, None)
    run_case(case, acc)
    return acc.failures
