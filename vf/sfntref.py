"""Independent reader / validator for sfnt, TTC, WOFF 1.0 and WOFF 2.0 files.

Written from the OpenType specification (font file, head, maxp, hhea, vhea, hmtx,
loca, glyf chapters), the W3C WOFF 1.0 recommendation, the W3C WOFF 2.0
recommendation (sections 3-5: header, table directory, known tags, UIntBase128,
255UInt16, transformed glyf / loca / hmtx) and Adobe TN#5176 (CFF) for the few
CFF structures that are needed.  Only `struct`, `zlib`, `brotli` (decompression
only) and `fractions` are used; nothing is shared with fontTools.  The Type 2
charstring interpreter comes from vf/ref_t2.py (also independent of fontTools).

API
    parse(data) -> Container
    validate_container(data) -> [problem strings]      (empty = valid)
    validate_derived(font_tables, notes=None) -> [problem strings]
    glyf_points(font_tables, gid) -> dict | None       (decoded glyph)
    glyf_layout(font_tables) -> [(offset, length, consumed)] per glyph
    checksum(data) -> uint32 table checksum
"""

import struct
import zlib
from fractions import Fraction


class ParseError(ValueError):
    pass


# ---------------------------------------------------------------------------
# primitives


def _need(d, o, n, what="data"):
    if o < 0 or o + n > len(d):
        raise ParseError("%s: need %d bytes at %d, have %d" % (what, n, o, len(d)))


def _u8(d, o, what="u8"):
    _need(d, o, 1, what)
    return d[o]


def _s8(d, o, what="s8"):
    v = _u8(d, o, what)
    return v - 256 if v > 127 else v


def _u16(d, o, what="u16"):
    _need(d, o, 2, what)
    return (d[o] << 8) | d[o + 1]


def _s16(d, o, what="s16"):
    v = _u16(d, o, what)
    return v - 65536 if v > 32767 else v


def _u32(d, o, what="u32"):
    _need(d, o, 4, what)
    return (d[o] << 24) | (d[o + 1] << 16) | (d[o + 2] << 8) | d[o + 3]


def pad4(n):
    return (n + 3) & ~3


def checksum(data):
    """OpenType table checksum: sum of big-endian uint32, data zero-padded to 4."""
    r = len(data) & 3
    if r:
        data = bytes(data) + b"\0" * (4 - r)
    n = len(data) >> 2
    total = 0
    step = 16384
    for i in range(0, n, step):
        k = min(step, n - i)
        total += sum(struct.unpack_from(">%dL" % k, data, i * 4))
    return total & 0xFFFFFFFF


def head_checksum(head):
    """checksum of a head table with checkSumAdjustment taken as zero"""
    if len(head) >= 12:
        head = head[:8] + b"\0\0\0\0" + head[12:]
    return checksum(head)


def search_fields(n, item=16):
    """(searchRange, entrySelector, rangeShift) as the OpenType spec defines them"""
    if n <= 0:
        return 0, 0, 0
    e = 0
    while (1 << (e + 1)) <= n:
        e += 1
    sr = (1 << e) * item
    return sr, e, n * item - sr


# ---------------------------------------------------------------------------
# containers


class Font:
    def __init__(self):
        self.sfntVersion = b""
        self.offset = 0  # where the table directory header starts
        self.numTables = 0
        self.searchRange = self.entrySelector = self.rangeShift = None
        self.dir = []  # (tag, checksum, offset, length) as stored
        self.tables = {}  # tag (str) -> bytes, decoded / decompressed / reconstructed
        self.wdir = []  # WOFF: (tag, offset, compLength, origLength, origChecksum)
        self.w2dir = []  # WOFF2: dicts

    def __repr__(self):
        return "<Font %r %d tables>" % (self.sfntVersion, len(self.tables))


class Container:
    def __init__(self, kind):
        self.kind = kind
        self.sfntVersion = b""
        self.fonts = []
        self.header = {}
        self.ttcOffsets = []
        self.ttcVersion = None
        self.dsig = None
        self.meta = None
        self.priv = None
        self.problems = []  # structural problems found while parsing


def _tagstr(b):
    return b.decode("latin-1")


def _parse_directory(data, off, c, what="font"):
    f = Font()
    f.offset = off
    _need(data, off, 12, "%s header" % what)
    f.sfntVersion = data[off : off + 4]
    f.numTables = _u16(data, off + 4)
    f.searchRange = _u16(data, off + 6)
    f.entrySelector = _u16(data, off + 8)
    f.rangeShift = _u16(data, off + 10)
    _need(data, off + 12, 16 * f.numTables, "%s table directory" % what)
    for i in range(f.numTables):
        p = off + 12 + 16 * i
        tag = _tagstr(data[p : p + 4])
        cs, o, ln = _u32(data, p + 4), _u32(data, p + 8), _u32(data, p + 12)
        f.dir.append((tag, cs, o, ln))
        if tag in f.tables:
            c.problems.append("%s: duplicate table tag %r" % (what, tag))
        f.tables[tag] = data[o : o + ln]
    return f


def _parse_sfnt(data):
    c = Container("sfnt")
    f = _parse_directory(data, 0, c)
    c.sfntVersion = f.sfntVersion
    c.fonts.append(f)
    return c


def _parse_ttc(data):
    c = Container("ttc")
    _need(data, 0, 12, "ttc header")
    c.ttcVersion = _u32(data, 4)
    n = _u32(data, 8)
    if n > 0xFFFF:
        raise ParseError("ttc: absurd numFonts %d" % n)
    _need(data, 12, 4 * n, "ttc offset array")
    c.ttcOffsets = [_u32(data, 12 + 4 * i) for i in range(n)]
    c.header = dict(version=c.ttcVersion, numFonts=n, headerEnd=12 + 4 * n)
    if c.ttcVersion == 0x00020000:
        p = 12 + 4 * n
        _need(data, p, 12, "ttc v2 DSIG fields")
        c.dsig = (data[p : p + 4], _u32(data, p + 4), _u32(data, p + 8))
        c.header["headerEnd"] = p + 12
    for i, off in enumerate(c.ttcOffsets):
        c.fonts.append(_parse_directory(data, off, c, "font %d" % i))
    if c.fonts:
        c.sfntVersion = c.fonts[0].sfntVersion
    return c


def _parse_woff(data):
    c = Container("woff")
    _need(data, 0, 44, "woff header")
    h = dict(
        flavor=data[4:8],
        length=_u32(data, 8),
        numTables=_u16(data, 12),
        reserved=_u16(data, 14),
        totalSfntSize=_u32(data, 16),
        majorVersion=_u16(data, 20),
        minorVersion=_u16(data, 22),
        metaOffset=_u32(data, 24),
        metaLength=_u32(data, 28),
        metaOrigLength=_u32(data, 32),
        privOffset=_u32(data, 36),
        privLength=_u32(data, 40),
    )
    c.header = h
    c.sfntVersion = h["flavor"]
    f = Font()
    f.sfntVersion = h["flavor"]
    f.numTables = h["numTables"]
    _need(data, 44, 20 * f.numTables, "woff table directory")
    for i in range(f.numTables):
        p = 44 + 20 * i
        tag = _tagstr(data[p : p + 4])
        off, cl, ol, cs = _u32(data, p + 4), _u32(data, p + 8), _u32(data, p + 12), _u32(data, p + 16)
        f.wdir.append((tag, off, cl, ol, cs))
        f.dir.append((tag, cs, off, cl))
        raw = data[off : off + cl]
        if len(raw) != cl:
            c.problems.append("woff table %r: data [%d,+%d) outside the file" % (tag, off, cl))
            body = raw
        elif cl == ol:
            body = raw
        elif cl > ol:
            c.problems.append("woff table %r: compLength %d > origLength %d" % (tag, cl, ol))
            body = raw
        else:
            try:
                body = zlib.decompress(raw)
            except zlib.error as e:
                c.problems.append("woff table %r: zlib stream does not decompress (%s)" % (tag, e))
                body = b""
            else:
                if len(body) != ol:
                    c.problems.append("woff table %r: decompresses to %d bytes, origLength %d" % (tag, len(body), ol))
        if tag in f.tables:
            c.problems.append("woff: duplicate table tag %r" % tag)
        f.tables[tag] = body
    if h["metaLength"]:
        raw = data[h["metaOffset"] : h["metaOffset"] + h["metaLength"]]
        try:
            c.meta = zlib.decompress(raw)
        except zlib.error as e:
            c.problems.append("woff metadata does not decompress (%s)" % e)
    if h["privLength"]:
        c.priv = data[h["privOffset"] : h["privOffset"] + h["privLength"]]
    c.fonts.append(f)
    return c


# -- WOFF2 -------------------------------------------------------------------

# WOFF2 recommendation, section 4.1 "Known Table Tags" (flag values 0..62)
W2_KNOWN = [
    "cmap", "head", "hhea", "hmtx", "maxp", "name", "OS/2", "post", "cvt ", "fpgm", "glyf", "loca", "prep", "CFF ", "VORG",
    "EBDT", "EBLC", "gasp", "hdmx", "kern", "LTSH", "PCLT", "VDMX", "vhea", "vmtx", "BASE", "GDEF", "GPOS", "GSUB", "EBSC",
    "JSTF", "MATH", "CBDT", "CBLC", "COLR", "CPAL", "SVG ", "sbix", "acnt", "avar", "bdat", "bloc", "bsln", "cvar", "fdsc",
    "feat", "fmtx", "fvar", "gvar", "hsty", "just", "lcar", "mort", "morx", "opbd", "prop", "trak", "Zapf", "Silf", "Glat",
    "Gloc", "Feat", "Sill",
]
assert len(W2_KNOWN) == 63


def read_base128(d, o):
    """UIntBase128 (WOFF2 section 6.1.1) -> (value, new offset)"""
    acc = 0
    for i in range(5):
        b = _u8(d, o + i, "UIntBase128")
        if i == 0 and b == 0x80:
            raise ParseError("UIntBase128 with leading zeros")
        if acc & 0xFE000000:
            raise ParseError("UIntBase128 overflows 32 bits")
        acc = (acc << 7) | (b & 0x7F)
        if not b & 0x80:
            return acc, o + i + 1
    raise ParseError("UIntBase128 longer than 5 bytes")


def read_255u16(d, o):
    """255UInt16 (WOFF2 section 6.1.2) -> (value, new offset)"""
    code = _u8(d, o, "255UInt16")
    if code == 253:
        return _u16(d, o + 1, "255UInt16"), o + 3
    if code == 255:
        return _u8(d, o + 1, "255UInt16") + 253, o + 2
    if code == 254:
        return _u8(d, o + 1, "255UInt16") + 506, o + 2
    return code, o + 1


def _triplet_table():
    """The 128-entry triplet encoding table of WOFF2 section 5.2:
    (byteCount, xBits, yBits, deltaX, deltaY, xSign, ySign)"""
    T = []
    for k in range(5):  # 0..9: x = 0
        for s in (-1, 1):
            T.append((2, 0, 8, 0, 256 * k, 0, s))
    for k in range(5):  # 10..19: y = 0
        for s in (-1, 1):
            T.append((2, 8, 0, 256 * k, 0, s, 0))
    for dx in (1, 17, 33, 49):  # 20..83
        for dy in (1, 17, 33, 49):
            for sx, sy in ((-1, -1), (1, -1), (-1, 1), (1, 1)):
                T.append((2, 4, 4, dx, dy, sx, sy))
    for dx in (1, 257, 513):  # 84..119
        for dy in (1, 257, 513):
            for sx, sy in ((-1, -1), (1, -1), (-1, 1), (1, 1)):
                T.append((3, 8, 8, dx, dy, sx, sy))
    for sx, sy in ((-1, -1), (1, -1), (-1, 1), (1, 1)):  # 120..123
        T.append((4, 12, 12, 0, 0, sx, sy))
    for sx, sy in ((-1, -1), (1, -1), (-1, 1), (1, 1)):  # 124..127
        T.append((5, 16, 16, 0, 0, sx, sy))
    assert len(T) == 128
    return T


_TRIPLETS = _triplet_table()


class _Stream:
    def __init__(self, data, name):
        self.d = data
        self.o = 0
        self.name = name

    def take(self, n):
        _need(self.d, self.o, n, "woff2 %s" % self.name)
        r = self.d[self.o : self.o + n]
        self.o += n
        return r

    def u8(self):
        return self.take(1)[0]

    def u16(self):
        b = self.take(2)
        return (b[0] << 8) | b[1]

    def s16(self):
        v = self.u16()
        return v - 65536 if v > 32767 else v

    def u255(self):
        v, self.o = read_255u16(self.d, self.o)
        return v

    def left(self):
        return len(self.d) - self.o


def _decode_w2_glyf(t, problems):
    """transformed glyf (WOFF2 5.1) -> (glyph dicts, indexFormat)"""
    _need(t, 0, 36, "woff2 transformed glyf header")
    version = _u16(t, 0)
    optionFlags = _u16(t, 2)
    numGlyphs = _u16(t, 4)
    indexFormat = _u16(t, 6)
    sizes = [_u32(t, 8 + 4 * i) for i in range(7)]
    if version != 0:
        problems.append("woff2 glyf transform: reserved/version field is %d, must be 0" % version)
    if optionFlags & ~1:
        problems.append("woff2 glyf transform: reserved optionFlags bits set (0x%04x)" % optionFlags)
    if indexFormat not in (0, 1):
        problems.append("woff2 glyf transform: indexFormat %d" % indexFormat)
    o = 36
    streams = []
    names = ["nContour", "nPoints", "flag", "glyph", "composite", "bbox", "instruction"]
    for nm, sz in zip(names, sizes):
        _need(t, o, sz, "woff2 glyf %s stream" % nm)
        streams.append(_Stream(t[o : o + sz], nm))
        o += sz
    overlap = None
    if optionFlags & 1:
        n = (numGlyphs + 7) >> 3
        _need(t, o, n, "woff2 glyf overlapSimpleBitmap")
        overlap = t[o : o + n]
        o += n
    if o != len(t):
        problems.append("woff2 glyf transform: %d bytes of data but header + streams account for %d" % (len(t), o))
    nC, nP, fl, gl, co, bb, ins = streams
    if len(nC.d) != 2 * numGlyphs:
        problems.append("woff2 glyf transform: nContourStream has %d bytes for %d glyphs" % (len(nC.d), numGlyphs))
    bmsize = 4 * ((numGlyphs + 31) >> 5)
    bitmap = bb.take(bmsize)
    glyphs = []
    for gid in range(numGlyphs):
        nc = nC.s16()
        hasbbox = bool(bitmap[gid >> 3] & (0x80 >> (gid & 7)))
        g = dict(nc=nc)
        if nc == 0:
            if hasbbox:
                problems.append("woff2 glyf transform: empty glyph %d has an explicit bbox" % gid)
                bb.take(8)
            glyphs.append(None)
            continue
        if nc > 0:
            endPts = []
            e = -1
            for _ in range(nc):
                e += nP.u255()
                endPts.append(e)
            npts = e + 1
            flags = fl.take(npts)
            pts = []
            on = []
            x = y = 0
            for f in flags:
                nb, xb, yb, dx0, dy0, sx, sy = _TRIPLETS[f & 0x7F]
                raw = gl.take(nb - 1)
                val = int.from_bytes(raw, "big")
                total = 8 * (nb - 1)
                xv = (val >> (total - xb)) & ((1 << xb) - 1) if xb else 0
                yv = (val >> (total - xb - yb)) & ((1 << yb) - 1) if yb else 0
                x += sx * (xv + dx0)
                y += sy * (yv + dy0)
                pts.append((x, y))
                on.append(0 if f & 0x80 else 1)
            il = gl.u255()
            instr = ins.take(il)
            ov = bool(overlap and overlap[gid >> 3] & (0x80 >> (gid & 7)))
            if hasbbox:
                bbox = (bb.s16(), bb.s16(), bb.s16(), bb.s16())
            elif pts:
                xs = [p[0] for p in pts]
                ys = [p[1] for p in pts]
                bbox = (min(xs), min(ys), max(xs), max(ys))
            else:
                bbox = (0, 0, 0, 0)
            g.update(bbox=bbox, endPts=endPts, pts=pts, on=on, overlap=ov, instr=bytes(instr), components=None, explicit_bbox=hasbbox)
        else:
            if nc != -1:
                problems.append("woff2 glyf transform: glyph %d has nContours %d" % (gid, nc))
            comps = []
            raws = []
            have_instr = False
            while True:
                start = co.o
                cflags = co.u16()
                gi = co.u16()
                if cflags & 0x0001:
                    a = co.take(4)
                    if cflags & 0x0002:
                        a1, a2 = struct.unpack(">hh", a)
                    else:
                        a1, a2 = struct.unpack(">HH", a)
                else:
                    a = co.take(2)
                    if cflags & 0x0002:
                        a1, a2 = struct.unpack(">bb", a)
                    else:
                        a1, a2 = struct.unpack(">BB", a)
                if cflags & 0x0008:
                    s = co.s16()
                    tr = (s, 0, 0, s)
                elif cflags & 0x0040:
                    tr = (co.s16(), 0, 0, co.s16())
                elif cflags & 0x0080:
                    tr = (co.s16(), co.s16(), co.s16(), co.s16())
                else:
                    tr = None
                comps.append(_component(cflags, gi, a1, a2, tr))
                raws.append(co.d[start : co.o])
                if cflags & 0x0100:
                    have_instr = True
                if not cflags & 0x0020:
                    break
            instr = None
            if have_instr:
                il = gl.u255()
                instr = bytes(ins.take(il))
            if not hasbbox:
                problems.append("woff2 glyf transform: composite glyph %d has no explicit bbox" % gid)
                bbox = (0, 0, 0, 0)
            else:
                bbox = (bb.s16(), bb.s16(), bb.s16(), bb.s16())
            g.update(bbox=bbox, endPts=None, pts=None, on=None, overlap=False, instr=instr, components=comps, raw_components=raws, explicit_bbox=hasbbox)
        glyphs.append(g)
    return glyphs, indexFormat


_SEMANTIC_COMPONENT_FLAGS = 0x0004 | 0x0200 | 0x0400 | 0x0800 | 0x1000


def _component(flags, gid, a1, a2, tr):
    return dict(
        gid=gid,
        xy=bool(flags & 0x0002),
        arg1=a1,
        arg2=a2,
        transform=tr,  # F2Dot14 integers (xscale, scale01, scale10, yscale) or None
        flags=flags & _SEMANTIC_COMPONENT_FLAGS,  # ROUND_XY_TO_GRID, USE_MY_METRICS, OVERLAP_COMPOUND, (UN)SCALED_COMPONENT_OFFSET
        rawflags=flags,
    )


def _encode_glyph(g):
    """glyph dict -> glyf table bytes of that glyph (spec-conformant, not size-optimised)"""
    if g is None:
        return b""
    out = [struct.pack(">hhhhh", g["nc"], *g["bbox"])]
    if g["nc"] > 0:
        out.append(struct.pack(">%dH" % len(g["endPts"]), *g["endPts"]))
        out.append(struct.pack(">H", len(g["instr"])))
        out.append(g["instr"])
        fb = bytearray()
        xs = bytearray()
        ys = bytearray()
        px = py = 0
        for i, ((x, y), on) in enumerate(zip(g["pts"], g["on"])):
            f = 1 if on else 0
            if i == 0 and g["overlap"]:
                f |= 0x40
            dx, dy = x - px, y - py
            px, py = x, y
            if dx == 0:
                f |= 0x10
            elif -255 <= dx <= 255:
                f |= 0x02 | (0x10 if dx > 0 else 0)
                xs.append(abs(dx))
            else:
                xs += struct.pack(">h", dx)
            if dy == 0:
                f |= 0x20
            elif -255 <= dy <= 255:
                f |= 0x04 | (0x20 if dy > 0 else 0)
                ys.append(abs(dy))
            else:
                ys += struct.pack(">h", dy)
            fb.append(f)
        out += [bytes(fb), bytes(xs), bytes(ys)]
    else:
        out += g["raw_components"]
        if g["instr"] is not None:
            out.append(struct.pack(">H", len(g["instr"])))
            out.append(g["instr"])
    return b"".join(out)


def _parse_woff2(data):
    import brotli

    c = Container("woff2")
    _need(data, 0, 48, "woff2 header")
    h = dict(
        flavor=data[4:8],
        length=_u32(data, 8),
        numTables=_u16(data, 12),
        reserved=_u16(data, 14),
        totalSfntSize=_u32(data, 16),
        totalCompressedSize=_u32(data, 20),
        majorVersion=_u16(data, 24),
        minorVersion=_u16(data, 26),
        metaOffset=_u32(data, 28),
        metaLength=_u32(data, 32),
        metaOrigLength=_u32(data, 36),
        privOffset=_u32(data, 40),
        privLength=_u32(data, 44),
    )
    c.header = h
    c.sfntVersion = h["flavor"]
    if h["flavor"] == b"ttcf":
        raise ParseError("woff2 font collections are not supported by this reader")
    f = Font()
    f.sfntVersion = h["flavor"]
    f.numTables = h["numTables"]
    o = 48
    src = 0
    for i in range(f.numTables):
        fb = _u8(data, o, "woff2 directory flags")
        o += 1
        idx = fb & 0x3F
        ver = fb >> 6
        if idx == 63:
            _need(data, o, 4, "woff2 directory tag")
            tag = _tagstr(data[o : o + 4])
            o += 4
        else:
            tag = W2_KNOWN[idx]
        origLength, o = read_base128(data, o)
        if tag in ("glyf", "loca"):
            transformed = ver != 3
        else:
            transformed = ver != 0
        tlen = origLength
        if transformed:
            tlen, o = read_base128(data, o)
        f.w2dir.append(dict(tag=tag, flags=fb, version=ver, explicit_tag=(idx == 63), origLength=origLength, transformLength=tlen, transformed=transformed, src=src))
        src += tlen
    h["directoryEnd"] = o
    h["uncompressedSize"] = src
    comp = data[o : o + h["totalCompressedSize"]]
    if len(comp) != h["totalCompressedSize"]:
        raise ParseError("woff2: totalCompressedSize %d runs past the end of the file" % h["totalCompressedSize"])
    try:
        dec = brotli.Decompressor()
        plain = dec.process(comp)
        finished = dec.is_finished()
    except brotli.error as e:
        # the decoder rejects corrupt streams and streams followed by extra bytes alike
        raise ParseError("woff2: the %d bytes of totalCompressedSize are not exactly one brotli stream (%s)" % (len(comp), e))
    if not finished:
        c.problems.append("woff2: brotli stream is not complete within totalCompressedSize (%d) bytes" % len(comp))
    if len(plain) != src:
        c.problems.append("woff2: brotli stream decompresses to %d bytes, directory transformLengths add up to %d" % (len(plain), src))
    raw = {}
    for e in f.w2dir:
        if e["tag"] in raw:
            c.problems.append("woff2: duplicate table tag %r" % e["tag"])
        raw[e["tag"]] = plain[e["src"] : e["src"] + e["transformLength"]]
        f.dir.append((e["tag"], None, e["src"], e["transformLength"]))
    ent = {e["tag"]: e for e in f.w2dir}
    glyphs = None
    for e in f.w2dir:
        tag = e["tag"]
        if not e["transformed"]:
            f.tables[tag] = raw[tag]
    if "glyf" in ent and ent["glyf"]["transformed"]:
        glyphs, indexFormat = _decode_w2_glyf(raw["glyf"], c.problems)
        f.w2glyphs = glyphs
        f.w2indexFormat = indexFormat
        parts = []
        locs = [0]
        for g in glyphs:
            b = _encode_glyph(g)
            b += b"\0" * (pad4(len(b)) - len(b))
            parts.append(b)
            locs.append(locs[-1] + len(b))
        f.tables["glyf"] = b"".join(parts)
        if indexFormat == 0:
            if locs[-1] > 0x1FFFE:
                c.problems.append("woff2: indexFormat 0 but the reconstructed glyf table needs %d bytes" % locs[-1])
                f.tables["loca"] = struct.pack(">%dL" % len(locs), *locs)
            else:
                f.tables["loca"] = struct.pack(">%dH" % len(locs), *[l >> 1 for l in locs])
        else:
            f.tables["loca"] = struct.pack(">%dL" % len(locs), *locs)
        if "loca" not in ent:
            c.problems.append("woff2: transformed glyf without a loca entry")
    if "hmtx" in ent and ent["hmtx"]["transformed"]:
        f.tables["hmtx"] = _reconstruct_hmtx(raw["hmtx"], f, glyphs, c.problems)
    if h["metaLength"]:
        rawm = data[h["metaOffset"] : h["metaOffset"] + h["metaLength"]]
        try:
            c.meta = brotli.decompress(rawm)
        except brotli.error as e:
            c.problems.append("woff2 metadata does not decompress (%s)" % e)
    if h["privLength"]:
        c.priv = data[h["privOffset"] : h["privOffset"] + h["privLength"]]
    c.fonts.append(f)
    return c


def _reconstruct_hmtx(t, f, glyphs, problems):
    """transformed hmtx (WOFF2 5.4)"""
    hhea = f.tables.get("hhea")
    maxp = f.tables.get("maxp")
    if hhea is None or maxp is None or len(hhea) < 36 or len(maxp) < 6:
        problems.append("woff2: transformed hmtx needs hhea and maxp")
        return b""
    numGlyphs = _u16(maxp, 4)
    nh = _u16(hhea, 34)
    fl = _u8(t, 0, "woff2 hmtx flags")
    if fl & 0xFC:
        problems.append("woff2 hmtx transform: reserved flag bits set (0x%02x)" % fl)
    if not fl & 3:
        problems.append("woff2 hmtx transform: neither lsb array is omitted (flags 0)")
    if glyphs is None:
        # untransformed glyf: take xMin from the glyph headers
        try:
            glyphs = [glyf_points(f.tables, g) for g in range(numGlyphs)]
        except ParseError as e:
            problems.append("woff2 hmtx transform: cannot read glyf (%s)" % e)
            return b""
    o = 1
    adv = [_u16(t, o + 2 * i, "woff2 hmtx advances") for i in range(nh)]
    o += 2 * nh
    xmin = [(g["bbox"][0] if g else 0) for g in glyphs] + [0] * max(0, numGlyphs - len(glyphs))
    if fl & 1:
        lsb = xmin[:nh]
    else:
        lsb = [_s16(t, o + 2 * i, "woff2 hmtx lsb") for i in range(nh)]
        o += 2 * nh
    if fl & 2:
        rest = xmin[nh:numGlyphs]
    else:
        rest = [_s16(t, o + 2 * i, "woff2 hmtx leftSideBearing") for i in range(numGlyphs - nh)]
        o += 2 * (numGlyphs - nh)
    if o != len(t):
        problems.append("woff2 hmtx transform: %d bytes, expected %d" % (len(t), o))
    out = bytearray()
    for a, l in zip(adv, lsb):
        out += struct.pack(">Hh", a, l)
    for l in rest:
        out += struct.pack(">h", l)
    return bytes(out)


def parse(data):
    data = bytes(data)
    sig = data[:4]
    if sig == b"ttcf":
        return _parse_ttc(data)
    if sig == b"wOFF":
        return _parse_woff(data)
    if sig == b"wOF2":
        return _parse_woff2(data)
    if sig in (b"\0\1\0\0", b"OTTO", b"true", b"typ1"):
        return _parse_sfnt(data)
    raise ParseError("unknown signature %r" % sig)


# ---------------------------------------------------------------------------
# container validation


def _check_search_fields(f, P, what):
    sr, es, rs = search_fields(f.numTables)
    if (f.searchRange, f.entrySelector, f.rangeShift) != (sr, es, rs):
        P.append(
            "%s: searchRange/entrySelector/rangeShift are %d/%d/%d, numTables %d requires %d/%d/%d"
            % (what, f.searchRange, f.entrySelector, f.rangeShift, f.numTables, sr, es, rs)
        )


def _check_sorted(tags, P, what):
    bt = [t.encode("latin-1") for t in tags]
    for a, b in zip(bt, bt[1:]):
        if a >= b:
            P.append("%s: table directory not in ascending tag order (%r before %r)" % (what, a, b))
            break


def _check_tables(data, f, P, what, lower_bound):
    """checks shared by plain sfnt fonts and TTC members"""
    n = len(data)
    for tag, cs, off, ln in f.dir:
        if off % 4:
            P.append("%s table %r: offset %d is not 4-byte aligned" % (what, tag, off))
        if off < lower_bound:
            P.append("%s table %r: offset %d lies inside the header/directory (ends at %d)" % (what, tag, off, lower_bound))
        if off + ln > n:
            P.append("%s table %r: [%d,+%d) runs past the end of the file (%d)" % (what, tag, off, ln, n))
            continue
        body = data[off : off + ln]
        want = head_checksum(body) if tag == "head" else checksum(body)
        if want != cs:
            P.append("%s table %r: stored checksum 0x%08x, recomputed 0x%08x" % (what, tag, cs, want))
        pe = pad4(off + ln)
        if pe > n:
            P.append("%s table %r: padding to a 4-byte boundary is missing at the end of the file" % (what, tag))
        padding = data[off + ln : min(pe, n)]
        if padding.strip(b"\0"):
            P.append("%s table %r: padding bytes %s are not zero" % (what, tag, padding.hex()))


def _check_overlaps(ranges, P, what):
    """ranges: (start, end, label); identical (start, end) pairs are sharing, not overlap"""
    seen = sorted(set((s, e, l) for s, e, l in ranges if e > s))
    uniq = {}
    for s, e, l in seen:
        uniq.setdefault((s, e), l)
    items = sorted(uniq.items())
    for ((s0, e0), l0), ((s1, e1), l1) in zip(items, items[1:]):
        if s1 < e0:
            P.append("%s: %s [%d,%d) overlaps %s [%d,%d)" % (what, l0, s0, e0, l1, s1, e1))


def _master_checksum_problem(data, f, what):
    for tag, cs, off, ln in f.dir:
        if tag == "head" and ln >= 12 and off + ln <= len(data):
            adj = _u32(data, off + 8)
            z = data[: off + 8] + b"\0\0\0\0" + data[off + 12 :]
            want = (0xB1B0AFBA - checksum(z)) & 0xFFFFFFFF
            if adj != want:
                return "%s: head.checkSumAdjustment is 0x%08x, whole-file checksum requires 0x%08x" % (what, adj, want)
    return None


def _validate_sfnt(data, c, P):
    f = c.fonts[0]
    _check_search_fields(f, P, "sfnt")
    _check_sorted([t for t, _, _, _ in f.dir], P, "sfnt")
    dir_end = 12 + 16 * f.numTables
    _check_tables(data, f, P, "sfnt", dir_end)
    rng = [(off, off + ln, "table %r" % tag) for tag, cs, off, ln in f.dir]
    if len(set((s, e) for s, e, l in rng if e > s)) != len([1 for s, e, l in rng if e > s]):
        P.append("sfnt: two directory entries point at the same data")
    _check_overlaps(rng, P, "sfnt")
    end = max([dir_end] + [pad4(off + ln) for tag, cs, off, ln in f.dir])
    if len(data) > end:
        P.append("sfnt: %d trailing bytes after the last table" % (len(data) - end))
    _check_gaps(data, [(dir_end, dir_end)] + [(off, pad4(off + ln)) for tag, cs, off, ln in f.dir], P, "sfnt")
    m = _master_checksum_problem(data, f, "sfnt")
    if m:
        P.append(m)


def _check_gaps(data, covered, P, what):
    """bytes not covered by header, directories, tables or their padding must be zero"""
    covered = sorted(covered)
    pos = covered[0][1] if covered else 0
    for s, e in covered:
        if s > pos:
            gap = data[pos:s]
            if gap.strip(b"\0"):
                P.append("%s: non-zero bytes in the unreferenced range [%d,%d)" % (what, pos, s))
        pos = max(pos, e)


def _validate_ttc(data, c, P):
    n = len(data)
    if c.ttcVersion not in (0x00010000, 0x00020000):
        P.append("ttc: version 0x%08x" % c.ttcVersion)
    hdr_end = c.header["headerEnd"]
    ranges = [(0, hdr_end, "ttc header")]
    for i, (off, f) in enumerate(zip(c.ttcOffsets, c.fonts)):
        what = "ttc font %d" % i
        if off % 4:
            P.append("%s: directory offset %d is not 4-byte aligned" % (what, off))
        if off < hdr_end:
            P.append("%s: directory offset %d lies inside the ttc header" % (what, off))
        if f.sfntVersion not in (b"\0\1\0\0", b"OTTO", b"true", b"typ1"):
            P.append("%s: sfntVersion %r" % (what, f.sfntVersion))
        _check_search_fields(f, P, what)
        _check_sorted([t for t, _, _, _ in f.dir], P, what)
        _check_tables(data, f, P, what, hdr_end)
        ranges.append((off, off + 12 + 16 * f.numTables, "%s directory" % what))
        own = [(o, o + l) for t, cs, o, l in f.dir if l > 0]
        if len(set(own)) != len(own):
            P.append("%s: two directory entries point at the same data" % what)
    if len(set(c.ttcOffsets)) != len(c.ttcOffsets):
        P.append("ttc: two fonts share one table directory offset")
    # shared entries: ranges referenced from several fonts must be identical ranges or disjoint
    for i, f in enumerate(c.fonts):
        for tag, cs, off, ln in f.dir:
            ranges.append((off, off + ln, "font %d table %r" % (i, tag)))
    if c.dsig is not None:
        tag, ln, off = c.dsig
        if tag == b"\0\0\0\0":
            if ln or off:
                P.append("ttc v2: DSIG tag is null but length/offset are %d/%d" % (ln, off))
        elif tag != b"DSIG":
            P.append("ttc v2: DSIG tag field is %r" % tag)
        else:
            if off + ln > n:
                P.append("ttc v2: DSIG block [%d,+%d) runs past the end of the file" % (off, ln))
            ranges.append((off, off + ln, "ttc DSIG block"))
    _check_overlaps(ranges, P, "ttc")
    by_off = {}
    for i, f in enumerate(c.fonts):
        for tag, cs, off, ln in f.dir:
            if ln == 0:
                continue
            k = by_off.setdefault(off, (ln, cs, tag, i))
            if k[0] != ln or k[1] != cs:
                P.append("ttc: entries at offset %d disagree: font %d %r (len %d, checksum 0x%08x) vs font %d %r (len %d, checksum 0x%08x)" % (off, k[3], k[2], k[0], k[1], i, tag, ln, cs))
    cov = [(0, hdr_end)]
    for off, f in zip(c.ttcOffsets, c.fonts):
        cov.append((off, off + 12 + 16 * f.numTables))
        cov.extend((o, pad4(o + l)) for t, cs, o, l in f.dir)
    if c.dsig is not None and c.dsig[0] == b"DSIG":
        cov.append((c.dsig[2], c.dsig[2] + c.dsig[1]))
    _check_gaps(data, cov, P, "ttc")
    end = max(e for s, e in cov)
    if n > end:
        P.append("ttc: %d trailing bytes after the last block" % (n - end))


def woff_total_sfnt_size(origLengths):
    return 12 + 16 * len(origLengths) + sum(pad4(l) for l in origLengths)


def build_sfnt(sfntVersion, tables_in_order):
    """Assemble a plain sfnt from (tag, bytes) in the given physical order: directory sorted by tag, tables
    4-byte aligned and zero padded, checkSumAdjustment of head kept as given. Used to verify the
    checkSumAdjustment a WOFF file carries (WOFF 1.0 section 5)."""
    n = len(tables_in_order)
    sr, es, rs = search_fields(n)
    off = 12 + 16 * n
    place = {}
    body = bytearray()
    for tag, b in tables_in_order:
        place[tag] = (off, len(b))
        body += b + b"\0" * (pad4(len(b)) - len(b))
        off += pad4(len(b))
    out = bytearray(struct.pack(">4sHHHH", sfntVersion, n, sr, es, rs))
    for tag, b in sorted(tables_in_order, key=lambda tb: tb[0].encode("latin-1")):
        cs = head_checksum(b) if tag == "head" else checksum(b)
        out += struct.pack(">4sLLL", tag.encode("latin-1"), cs, place[tag][0], place[tag][1])
    return bytes(out + body)


def _validate_woff(data, c, P):
    h = c.header
    f = c.fonts[0]
    n = len(data)
    if h["length"] != n:
        P.append("woff: header length %d, file has %d bytes" % (h["length"], n))
    if h["reserved"] != 0:
        P.append("woff: reserved field is %d" % h["reserved"])
    if h["flavor"] not in (b"\0\1\0\0", b"OTTO", b"true", b"typ1"):
        P.append("woff: flavor %r" % h["flavor"])
    if h["numTables"] == 0:
        P.append("woff: numTables is 0")
    _check_sorted([e[0] for e in f.wdir], P, "woff")
    want = woff_total_sfnt_size([e[3] for e in f.wdir])
    if h["totalSfntSize"] != want:
        P.append("woff: totalSfntSize %d, spec formula (12 + 16*numTables + padded origLengths) gives %d" % (h["totalSfntSize"], want))
    if h["totalSfntSize"] % 4:
        P.append("woff: totalSfntSize %d is not a multiple of 4" % h["totalSfntSize"])
    dir_end = 44 + 20 * h["numTables"]
    ranges = []
    for tag, off, cl, ol, cs in f.wdir:
        if off % 4:
            P.append("woff table %r: offset %d is not 4-byte aligned" % (tag, off))
        if off < dir_end:
            P.append("woff table %r: offset %d lies inside the header/directory" % (tag, off))
        if off + cl > n:
            continue  # reported by parse
        if cl > ol:
            continue  # reported by parse
        body = f.tables.get(tag, b"")
        if len(body) == ol:
            wantcs = head_checksum(body) if tag == "head" else checksum(body)
            if wantcs != cs:
                P.append("woff table %r: origChecksum 0x%08x, recomputed 0x%08x" % (tag, cs, wantcs))
        pe = pad4(off + cl)
        if pe > n:
            P.append("woff table %r: padding to a 4-byte boundary is missing at the end of the file" % tag)
        padding = data[off + cl : min(pe, n)]
        if padding.strip(b"\0"):
            P.append("woff table %r: padding bytes %s are not zero" % (tag, padding.hex()))
        ranges.append((off, off + cl, "table %r" % tag))
    if len(set((s, e) for s, e, l in ranges if e > s)) != len([1 for s, e, l in ranges if e > s]):
        P.append("woff: two directory entries point at the same data")
    _check_overlaps(ranges, P, "woff")
    end = max([dir_end] + [pad4(e) for s, e, l in ranges])
    cov = [(dir_end, dir_end)] + [(s, pad4(e)) for s, e, l in ranges]
    # metadata / private blocks (WOFF 1.0 sections 6, 7)
    mo, ml, mol = h["metaOffset"], h["metaLength"], h["metaOrigLength"]
    if ml == 0:
        if mo or mol:
            P.append("woff: no metadata but metaOffset/metaOrigLength are %d/%d" % (mo, mol))
    else:
        if mo != end:
            P.append("woff: metadata block at %d, must start right after the font data at %d" % (mo, end))
        if mo % 4:
            P.append("woff: metaOffset %d is not 4-byte aligned" % mo)
        if mo + ml > n:
            P.append("woff: metadata block runs past the end of the file")
        elif c.meta is not None and len(c.meta) != mol:
            P.append("woff: metadata decompresses to %d bytes, metaOrigLength %d" % (len(c.meta), mol))
        cov.append((mo, mo + ml))
        end = max(end, mo + ml)
    po, pl = h["privOffset"], h["privLength"]
    if pl == 0:
        if po:
            P.append("woff: no private data but privOffset is %d" % po)
    else:
        if po % 4:
            P.append("woff: privOffset %d is not 4-byte aligned" % po)
        if po != pad4(end):
            P.append("woff: private block at %d, must start at %d" % (po, pad4(end)))
        if po + pl > n:
            P.append("woff: private block runs past the end of the file")
        cov.append((po, po + pl))
        end = max(end, po + pl)
    if n != end:
        P.append("woff: file has %d bytes, last block ends at %d" % (n, end))
    _check_gaps(data, cov, P, "woff")
    # checkSumAdjustment of the sfnt the file decodes to (tables in offset order)
    if "head" in f.tables and len(f.tables["head"]) >= 12 and not any("origLength" in p or "zlib" in p for p in c.problems):
        order = sorted(f.wdir, key=lambda e: e[1])
        sf = build_sfnt(h["flavor"], [(e[0], f.tables[e[0]]) for e in order])
        if len(sf) != h["totalSfntSize"] and h["totalSfntSize"] == want:
            P.append("woff: decoded sfnt has %d bytes, totalSfntSize %d" % (len(sf), h["totalSfntSize"]))
        c2 = _parse_sfnt(sf)
        m = _master_checksum_problem(sf, c2.fonts[0], "woff (decoded sfnt)")
        if m:
            P.append(m)


def _validate_woff2(data, c, P):
    h = c.header
    f = c.fonts[0]
    n = len(data)
    if h["length"] != n:
        P.append("woff2: header length %d, file has %d bytes" % (h["length"], n))
    if h["reserved"] != 0:
        P.append("woff2: reserved field is %d" % h["reserved"])
    if h["flavor"] not in (b"\0\1\0\0", b"OTTO", b"true", b"typ1"):
        P.append("woff2: flavor %r" % h["flavor"])
    if h["numTables"] == 0:
        P.append("woff2: numTables is 0")
    want = woff_total_sfnt_size([e["origLength"] for e in f.w2dir])
    if h["totalSfntSize"] != want:
        P.append("woff2: totalSfntSize %d, 12 + 16*numTables + padded origLengths gives %d" % (h["totalSfntSize"], want))
    _check_sorted([e["tag"] for e in f.w2dir], P, "woff2")
    tags = [e["tag"] for e in f.w2dir]
    ent = {e["tag"]: e for e in f.w2dir}
    for e in f.w2dir:
        tag, ver = e["tag"], e["version"]
        if tag in ("glyf", "loca"):
            if ver not in (0, 3):
                P.append("woff2 table %r: transform version %d is not defined" % (tag, ver))
        elif tag == "hmtx":
            if ver not in (0, 1):
                P.append("woff2 table 'hmtx': transform version %d is not defined" % ver)
        elif ver != 0:
            P.append("woff2 table %r: transform version %d, only the null transform is defined" % (tag, ver))
        if e["explicit_tag"] and tag in W2_KNOWN:
            P.append("woff2 table %r: known tag stored as an arbitrary tag" % tag)
    if ("glyf" in ent) != ("loca" in ent):
        P.append("woff2: glyf and loca must both be present or both absent")
    if "glyf" in ent and "loca" in ent:
        if ent["glyf"]["transformed"] != ent["loca"]["transformed"]:
            P.append("woff2: glyf and loca must be transformed together")
        if tags.index("loca") < tags.index("glyf"):
            P.append("woff2: loca precedes glyf in the table directory")
        if ent["loca"]["transformed"] and ent["loca"]["transformLength"] != 0:
            P.append("woff2: transformLength of loca is %d, must be 0" % ent["loca"]["transformLength"])
        if ent["glyf"]["transformed"] and hasattr(f, "w2glyphs"):
            ng = len(f.w2glyphs)
            wantloca = (ng + 1) * (4 if f.w2indexFormat else 2)
            if ent["loca"]["origLength"] != wantloca:
                P.append("woff2: loca origLength %d, numGlyphs %d with indexFormat %d requires %d" % (ent["loca"]["origLength"], ng, f.w2indexFormat, wantloca))
            maxp = f.tables.get("maxp")
            if maxp is not None and len(maxp) >= 6 and _u16(maxp, 4) != ng:
                P.append("woff2: transformed glyf has %d glyphs, maxp.numGlyphs is %d" % (ng, _u16(maxp, 4)))
            head = f.tables.get("head")
            if head is not None and len(head) >= 54 and _s16(head, 50) != f.w2indexFormat:
                P.append("woff2: transformed glyf indexFormat %d, head.indexToLocFormat %d" % (f.w2indexFormat, _s16(head, 50)))
    if any(e["transformed"] for e in f.w2dir):
        head = f.tables.get("head")
        if head is not None and len(head) >= 18 and not _u16(head, 16) & 0x0800:
            P.append("woff2: tables are transformed but head.flags bit 11 is not set")
    if "DSIG" in ent:
        P.append("woff2: DSIG table kept (the encoder must remove it)")
    for e in f.w2dir:
        if not e["transformed"] and e["tag"] in f.tables and len(f.tables[e["tag"]]) != e["origLength"]:
            P.append("woff2 table %r: %d bytes in the stream, origLength %d" % (e["tag"], len(f.tables[e["tag"]]), e["origLength"]))
    # blocks after the compressed stream
    end = h["directoryEnd"] + h["totalCompressedSize"]
    cov = [(0, end)]
    mo, ml, mol = h["metaOffset"], h["metaLength"], h["metaOrigLength"]
    if ml == 0:
        if mo or mol:
            P.append("woff2: no metadata but metaOffset/metaOrigLength are %d/%d" % (mo, mol))
    else:
        if mo != pad4(end):
            P.append("woff2: metadata block at %d, must start at %d" % (mo, pad4(end)))
        if mo + ml > n:
            P.append("woff2: metadata block runs past the end of the file")
        elif c.meta is not None and len(c.meta) != mol:
            P.append("woff2: metadata decompresses to %d bytes, metaOrigLength %d" % (len(c.meta), mol))
        cov.append((mo, mo + ml))
        end = max(end, mo + ml)
    po, pl = h["privOffset"], h["privLength"]
    if pl == 0:
        if po:
            P.append("woff2: no private data but privOffset is %d" % po)
    else:
        if po != pad4(end):
            P.append("woff2: private block at %d, must start at %d" % (po, pad4(end)))
        if po + pl > n:
            P.append("woff2: private block runs past the end of the file")
        cov.append((po, po + pl))
        end = max(end, po + pl)
    if n not in (end, pad4(end)):
        P.append("woff2: file has %d bytes, last block ends at %d" % (n, end))
    if data[end:n].strip(b"\0"):
        P.append("woff2: non-zero padding after the last block")
    _check_gaps(data, cov, P, "woff2")


def validate_container(data):
    data = bytes(data)
    try:
        c = parse(data)
    except ParseError as e:
        return ["unreadable: %s" % e]
    P = list(c.problems)
    try:
        if c.kind == "sfnt":
            _validate_sfnt(data, c, P)
        elif c.kind == "ttc":
            _validate_ttc(data, c, P)
        elif c.kind == "woff":
            _validate_woff(data, c, P)
        else:
            _validate_woff2(data, c, P)
    except ParseError as e:
        P.append("unreadable: %s" % e)
    return P


# ---------------------------------------------------------------------------
# glyf decoding


def _loca(tables):
    head = tables.get("head")
    loca = tables.get("loca")
    if head is None or loca is None or len(head) < 54:
        raise ParseError("need head and loca")
    fmt = _s16(head, 50)
    if fmt == 0:
        if len(loca) % 2:
            raise ParseError("short loca with odd length %d" % len(loca))
        return [2 * v for v in struct.unpack(">%dH" % (len(loca) // 2), loca)], fmt
    if fmt == 1:
        if len(loca) % 4:
            raise ParseError("long loca with length %d" % len(loca))
        return list(struct.unpack(">%dL" % (len(loca) // 4), loca)), fmt
    raise ParseError("head.indexToLocFormat is %d" % fmt)


def decode_glyph(g):
    """bytes of one glyph -> dict (or None for an empty glyph); dict['consumed'] = bytes actually used"""
    if len(g) == 0:
        return None
    _need(g, 0, 10, "glyph header")
    nc = _s16(g, 0)
    bbox = (_s16(g, 2), _s16(g, 4), _s16(g, 6), _s16(g, 8))
    if nc == 0:
        return dict(nc=0, bbox=bbox, endPts=[], pts=[], on=[], overlap=False, instr=b"", components=None, consumed=10, rawflags=[])
    if nc > 0:
        endPts = [_u16(g, 10 + 2 * i, "endPtsOfContours") for i in range(nc)]
        for a, b in zip(endPts, endPts[1:]):
            if b < a:
                raise ParseError("endPtsOfContours not monotone")
        pos = 10 + 2 * nc
        il = _u16(g, pos, "instructionLength")
        _need(g, pos + 2, il, "instructions")
        instr = bytes(g[pos + 2 : pos + 2 + il])
        pos += 2 + il
        npts = endPts[-1] + 1
        flags = []
        while len(flags) < npts:
            f = _u8(g, pos, "flags")
            pos += 1
            flags.append(f)
            if f & 0x08:
                r = _u8(g, pos, "flag repeat")
                pos += 1
                flags.extend([f] * r)
        if len(flags) != npts:
            raise ParseError("flag repeat overshoots the point count")
        xs = []
        v = 0
        for f in flags:
            if f & 0x02:
                d = _u8(g, pos, "x coordinate")
                pos += 1
                v += d if f & 0x10 else -d
            elif not f & 0x10:
                v += _s16(g, pos, "x coordinate")
                pos += 2
            xs.append(v)
        ys = []
        v = 0
        for f in flags:
            if f & 0x04:
                d = _u8(g, pos, "y coordinate")
                pos += 1
                v += d if f & 0x20 else -d
            elif not f & 0x20:
                v += _s16(g, pos, "y coordinate")
                pos += 2
            ys.append(v)
        return dict(
            nc=nc,
            bbox=bbox,
            endPts=endPts,
            pts=list(zip(xs, ys)),
            on=[f & 1 for f in flags],
            overlap=bool(flags and flags[0] & 0x40),
            cubic=[(f >> 7) & 1 for f in flags],
            instr=instr,
            components=None,
            consumed=pos,
            rawflags=flags,
        )
    pos = 10
    comps = []
    have_instr = False
    while True:
        cflags = _u16(g, pos, "component flags")
        gi = _u16(g, pos + 2, "component glyph index")
        pos += 4
        if cflags & 0x0001:
            if cflags & 0x0002:
                a1, a2 = _s16(g, pos), _s16(g, pos + 2)
            else:
                a1, a2 = _u16(g, pos), _u16(g, pos + 2)
            pos += 4
        else:
            if cflags & 0x0002:
                a1, a2 = _s8(g, pos), _s8(g, pos + 1)
            else:
                a1, a2 = _u8(g, pos), _u8(g, pos + 1)
            pos += 2
        if cflags & 0x0008:
            s = _s16(g, pos)
            tr = (s, 0, 0, s)
            pos += 2
        elif cflags & 0x0040:
            tr = (_s16(g, pos), 0, 0, _s16(g, pos + 2))
            pos += 4
        elif cflags & 0x0080:
            tr = (_s16(g, pos), _s16(g, pos + 2), _s16(g, pos + 4), _s16(g, pos + 6))
            pos += 8
        else:
            tr = None
        comps.append(_component(cflags, gi, a1, a2, tr))
        if cflags & 0x0100:
            have_instr = True
        if not cflags & 0x0020:
            break
    instr = None
    if have_instr:
        il = _u16(g, pos, "composite instructionLength")
        _need(g, pos + 2, il, "composite instructions")
        instr = bytes(g[pos + 2 : pos + 2 + il])
        pos += 2 + il
    return dict(nc=nc, bbox=bbox, endPts=None, pts=None, on=None, overlap=False, instr=instr, components=comps, consumed=pos)


def glyf_layout(tables):
    """[(offset, length)] of every glyph according to loca"""
    locs, fmt = _loca(tables)
    return [(a, b - a) for a, b in zip(locs, locs[1:])]


def glyf_points(tables, gid):
    """Decoded glyph `gid` of a font given as {tag: bytes}: None for an empty glyph, else a dict with
    nc, bbox, endPts, pts (absolute), on (on-curve bits), overlap (OVERLAP_SIMPLE of the first point),
    instr (bytes; None for a composite without instructions), components (list of dicts with gid, xy, arg1,
    arg2, transform as F2Dot14 integers, flags = semantic component flags), consumed (bytes used)."""
    locs, fmt = _loca(tables)
    glyf = tables.get("glyf", b"")
    if gid + 1 >= len(locs):
        raise ParseError("glyph %d not in loca" % gid)
    a, b = locs[gid], locs[gid + 1]
    if b < a or b > len(glyf):
        raise ParseError("glyph %d: loca range [%d,%d) outside glyf (%d bytes)" % (gid, a, b, len(glyf)))
    return decode_glyph(glyf[a:b])


def normal_glyph(g):
    """The part of a decoded glyph that the WOFF2 glyf transform must preserve."""
    if g is None or g["nc"] == 0:
        return None
    if g["nc"] > 0:
        return ("simple", g["bbox"], tuple(g["endPts"]), tuple(g["pts"]), tuple(g["on"]), bool(g["overlap"]), g["instr"])
    comps = tuple((c["gid"], c["xy"], c["arg1"], c["arg2"], c["transform"], c["flags"]) for c in g["components"])
    return ("composite", g["bbox"], comps, g["instr"])


# ---------------------------------------------------------------------------
# derived fields


class _Flat:
    __slots__ = ("pts", "ncont", "depth", "inexact", "ambiguous", "bad")

    def __init__(self):
        self.pts = []
        self.ncont = 0
        self.depth = 0
        self.inexact = False  # a transform was applied somewhere below: rounding is not specified
        self.ambiguous = False  # SCALED_COMPONENT_OFFSET with a matrix for which implementations differ
        self.bad = None


def _flatten(gid, glyphs, memo, stack):
    if gid in memo:
        return memo[gid]
    r = _Flat()
    if gid in stack:
        r.bad = "component cycle through glyph %d" % gid
        return r
    if gid >= len(glyphs):
        r.bad = "component glyph index %d out of range" % gid
        memo[gid] = r
        return r
    g = glyphs[gid]
    if g is None or g["nc"] == 0:
        memo[gid] = r
        return r
    if g["nc"] > 0:
        r.pts = g["pts"]
        r.ncont = g["nc"]
        memo[gid] = r
        return r
    stack.add(gid)
    pts = []
    depth = 1
    for c in g["components"]:
        ch = _flatten(c["gid"], glyphs, memo, stack)
        if ch.bad:
            r.bad = ch.bad
            break
        cg = glyphs[c["gid"]] if c["gid"] < len(glyphs) else None
        if cg is not None and cg["nc"] < 0:
            depth = max(depth, 1 + ch.depth)
        r.inexact |= ch.inexact
        r.ambiguous |= ch.ambiguous
        cp = ch.pts
        tr = c["transform"]
        if tr is not None:
            xx, xy, yx, yy = (Fraction(v, 16384) for v in tr)  # xscale, scale01, scale10, yscale
            r.inexact = True
        if c["xy"]:
            dx, dy = c["arg1"], c["arg2"]
            if tr is None:
                cp = [(x + dx, y + dy) for x, y in cp]
            else:
                scaled = bool(c["rawflags"] & 0x0800) and not c["rawflags"] & 0x1000
                if c["rawflags"] & 0x0800 and c["rawflags"] & 0x1000:
                    r.ambiguous = True
                if scaled:
                    if tr[1] or tr[2] or tr[0] < 0 or tr[3] < 0:
                        r.ambiguous = True
                    cp = [(x + dx, y + dy) for x, y in cp]
                    cp = [(xx * x + yx * y, xy * x + yy * y) for x, y in cp]
                else:
                    cp = [(xx * x + yx * y + dx, xy * x + yy * y + dy) for x, y in cp]
        else:
            if tr is not None:
                cp = [(xx * x + yx * y, xy * x + yy * y) for x, y in cp]
            p1, p2 = c["arg1"], c["arg2"]
            if p1 >= len(pts) or p2 >= len(cp):
                r.bad = "glyph %d: component matches point %d of %d (parent) with point %d of %d (child)" % (gid, p1, len(pts), p2, len(cp))
                break
            mx, my = pts[p1][0] - cp[p2][0], pts[p1][1] - cp[p2][1]
            cp = [(x + mx, y + my) for x, y in cp]
        pts.extend(cp)
        r.ncont += ch.ncont
    stack.discard(gid)
    r.pts = pts
    r.depth = depth
    memo[gid] = r
    return r


def _floor(v):
    return v.numerator // v.denominator if isinstance(v, Fraction) else int(v)


def _ceil(v):
    return -((-v.numerator) // v.denominator) if isinstance(v, Fraction) else int(v)


def _metrics(table, nlong, numGlyphs):
    """-> (advances, sidebearings) expanded to numGlyphs entries"""
    adv, sb = [], []
    for i in range(min(nlong, numGlyphs)):
        adv.append(_u16(table, 4 * i, "long metric"))
        sb.append(_s16(table, 4 * i + 2, "long metric"))
    base = 4 * nlong
    for i in range(numGlyphs - nlong):
        adv.append(adv[-1] if adv else 0)
        sb.append(_s16(table, base + 2 * i, "side bearing"))
    return adv, sb


def _check_header_extents(P, notes, tag, hea, mtx, numGlyphs, spans, spans_strict, names, tol=0):
    """hhea/vhea: spans = {gid: (lo, hi)} of the glyphs the extents are taken over"""
    if len(hea) < 36:
        P.append("%s: table has %d bytes, 36 expected" % (tag, len(hea)))
        return
    nlong = _u16(hea, 34)
    mtag = "hmtx" if tag == "hhea" else "vmtx"
    if mtx is None:
        return
    if nlong > numGlyphs:
        P.append("%s.%s is %d, more than numGlyphs %d" % (tag, names[4], nlong, numGlyphs))
        return
    if numGlyphs and nlong == 0:
        P.append("%s.%s is 0" % (tag, names[4]))
        return
    want = 4 * nlong + 2 * (numGlyphs - nlong)
    if len(mtx) != want:
        P.append("%s: %d bytes, %s.%s = %d and numGlyphs = %d require %d" % (mtag, len(mtx), tag, names[4], nlong, numGlyphs, want))
        if len(mtx) < want:
            return
    adv, sb = _metrics(mtx, nlong, numGlyphs)
    got = dict(advMax=_u16(hea, 10), minA=_s16(hea, 12), minB=_s16(hea, 14), ext=_s16(hea, 16))
    if adv and got["advMax"] != max(adv):
        P.append("%s.%s is %d, largest advance in %s is %d" % (tag, names[0], got["advMax"], mtag, max(adv)))
    if spans is None:
        return

    def compute(sp):
        if not sp:
            return (0, 0, 0)
        a = min(sb[g] for g in sp)
        b = min(adv[g] - sb[g] - (hi - lo) for g, (lo, hi) in sp.items())
        e = max(sb[g] + (hi - lo) for g, (lo, hi) in sp.items())
        return (a, b, e)

    w1 = compute(spans)
    w2 = compute(spans_strict) if spans_strict is not None else w1
    g3 = (got["minA"], got["minB"], got["ext"])
    if w1 != w2 and notes is not None:
        notes.append("%s:composite-without-points-affects-extents" % tag)
    tols = (0, tol, tol)  # the minimum side bearing itself does not depend on the glyph bounds
    for i, nm in enumerate(names[1:4]):
        if abs(g3[i] - w1[i]) > tols[i] and abs(g3[i] - w2[i]) > tols[i]:
            P.append("%s.%s is %d, recomputed from %s and the glyph bounding boxes: %d%s" % (tag, nm, g3[i], mtag, w1[i], " (tolerance %d)" % tols[i] if tols[i] else ""))


_HNAMES = ("advanceWidthMax", "minLeftSideBearing", "minRightSideBearing", "xMaxExtent", "numberOfHMetrics")
_VNAMES = ("advanceHeightMax", "minTopSideBearing", "minBottomSideBearing", "yMaxExtent", "numOfLongVerMetrics")


def validate_derived(tables, notes=None):
    """Independent recomputation of the redundant fields the library recalculates on save (recalcBBoxes=True).
    `tables`: {tag: bytes}. Returns problem strings; `notes` (a list) receives coverage / skip remarks."""
    P = []
    if notes is None:
        notes = []
    try:
        _derived(tables, P, notes)
    except ParseError as e:
        P.append("unreadable: %s" % e)
    return P


def _derived(T, P, notes):
    maxp = T.get("maxp")
    head = T.get("head")
    if maxp is None or len(maxp) < 6:
        notes.append("no-maxp")
        return
    numGlyphs = _u16(maxp, 4)
    mver = _u32(maxp, 0)
    if head is not None and len(head) < 54:
        P.append("head: %d bytes, 54 expected" % len(head))
        head = None
    hbox = None
    if head is not None:
        hbox = (_s16(head, 36), _s16(head, 38), _s16(head, 40), _s16(head, 42))
    hspans = vspans = hstrict = vstrict = None
    etol = 0
    hea_done = False
    if "glyf" in T and "loca" in T and head is not None:
        locs, fmt = _loca(T)
        glyf = T["glyf"]
        if len(locs) != numGlyphs + 1:
            P.append("loca: %d entries, maxp.numGlyphs + 1 = %d (indexToLocFormat %d)" % (len(locs), numGlyphs + 1, fmt))
        bad = False
        for a, b in zip(locs, locs[1:]):
            if b < a:
                P.append("loca: offsets decrease (%d after %d)" % (b, a))
                bad = True
                break
        if locs and locs[-1] > len(glyf):
            P.append("loca: last offset %d is beyond the glyf table (%d bytes)" % (locs[-1], len(glyf)))
            bad = True
        if bad or len(locs) != numGlyphs + 1:
            return
        glyphs = []
        for gid in range(numGlyphs):
            a, b = locs[gid], locs[gid + 1]
            try:
                glyphs.append(decode_glyph(glyf[a:b]))
            except ParseError as e:
                P.append("glyf: glyph %d does not parse within its loca range [%d,%d): %s" % (gid, a, b, e))
                return
        memo = {}
        union = None
        mp = mc = mcp = mcc = mce = mcd = 0
        hspans, vspans, hstrict, vstrict = {}, {}, {}, {}
        for gid, g in enumerate(glyphs):
            if g is None or g["nc"] == 0:
                continue
            bx = g["bbox"]
            haspts = True
            if g["nc"] > 0:
                xs = [p[0] for p in g["pts"]]
                ys = [p[1] for p in g["pts"]]
                want = (min(xs), min(ys), max(xs), max(ys))
                if bx != want:
                    P.append("glyf: glyph %d (simple) header bbox %r, control-point bbox %r" % (gid, bx, want))
                mp = max(mp, len(g["pts"]))
                mc = max(mc, g["nc"])
            else:
                fl = _flatten(gid, glyphs, memo, set())
                if fl.bad:
                    P.append("glyf: %s" % fl.bad)
                    notes.append("glyf:composite-unresolvable")
                else:
                    mcp = max(mcp, len(fl.pts))
                    mcc = max(mcc, fl.ncont)
                    mce = max(mce, len(g["components"]))
                    mcd = max(mcd, fl.depth)
                    haspts = bool(fl.pts)
                    if fl.ambiguous:
                        notes.append("glyf:scaled-component-offset-ambiguous")
                    elif fl.pts:
                        xs = [p[0] for p in fl.pts]
                        ys = [p[1] for p in fl.pts]
                        lo = (min(xs), min(ys), max(xs), max(ys))
                        if fl.inexact:
                            notes.append("glyf:transformed-composite-bbox")
                            okk = all(_floor(lo[i]) - 1 <= bx[i] <= _ceil(lo[i]) + 1 for i in range(4))
                            if not okk:
                                P.append("glyf: glyph %d (composite with transformed components) header bbox %r, transformed control-point bbox %r (+-1 allowed)" % (gid, bx, tuple(float(v) for v in lo)))
                        else:
                            if bx != lo:
                                hint = ""
                                for c in g["components"]:
                                    cg = glyphs[c["gid"]]
                                    if cg is not None and cg["nc"] != 0 and cg["bbox"][0] == cg["bbox"][2] and cg["bbox"][1] == cg["bbox"][3]:
                                        hint = " [has a component whose own bbox is a single point]"
                                P.append("glyf: glyph %d (composite) header bbox %r, bbox of its component points %r%s" % (gid, bx, lo, hint))
                    else:
                        notes.append("glyf:composite-without-points")
                        if bx != (0, 0, 0, 0):
                            P.append("glyf: glyph %d (composite without points) header bbox %r" % (gid, bx))
            union = bx if union is None else (min(union[0], bx[0]), min(union[1], bx[1]), max(union[2], bx[2]), max(union[3], bx[3]))
            hspans[gid] = (bx[0], bx[2])
            vspans[gid] = (bx[1], bx[3])
            if haspts:
                hstrict[gid] = (bx[0], bx[2])
                vstrict[gid] = (bx[1], bx[3])
        want = union or (0, 0, 0, 0)
        if hbox != want:
            P.append("head: font bbox %r, union of the glyph bounding boxes %r" % (hbox, want))
        if len(maxp) >= 32 and mver == 0x00010000:
            got = (_u16(maxp, 6), _u16(maxp, 8), _u16(maxp, 10), _u16(maxp, 12), _u16(maxp, 28), _u16(maxp, 30))
            wantm = (mp, mc, mcp, mcc, mce, mcd)
            for nm, a, b in zip(("maxPoints", "maxContours", "maxCompositePoints", "maxCompositeContours", "maxComponentElements", "maxComponentDepth"), got, wantm):
                if a != b:
                    P.append("maxp.%s is %d, recomputed from glyf: %d" % (nm, a, b))
        else:
            P.append("maxp: version 0x%08x / %d bytes in a font with glyf" % (mver, len(maxp)))
        notes.append("derived:glyf")
    elif "CFF " in T:
        info = cff_bounds(T["CFF "])
        if info["count"] is not None and info["count"] != numGlyphs:
            P.append("CFF: CharStrings INDEX has %d entries, maxp.numGlyphs is %d" % (info["count"], numGlyphs))
        if mver == 0x00005000 and len(maxp) != 6:
            P.append("maxp: version 0.5 table has %d bytes" % len(maxp))
        if info["skip"]:
            notes.append("cff:bounds-skipped:%s" % info["skip"])
        elif info["count"] == numGlyphs:
            notes.append("derived:cff")
            # Two readings of "glyph bounds" exist for a moveto that is not followed by any line or curve:
            # rasterisers (FreeType, HarfBuzz) ignore it, a point-recording pen counts it. The specifications
            # do not decide; the stored values must agree, as a whole, with one of the two readings.
            variants = [("outline", info["bounds"])]
            if info["bounds_single_points"] is not None:
                variants.append(("single-points", info["bounds_single_points"]))
            results = []
            for vname, B in variants:
                Pv = []
                _cff_fields(T, B, info, hbox, numGlyphs, Pv, notes)
                results.append((vname, Pv))
                if not Pv:
                    break
            if results[-1][1]:
                P.extend(results[0][1])
            elif len(results) > 1:
                notes.append("cff:lone-moveto-points-counted-in-bounds")
            hea_done = True
    elif "CFF2" in T:
        n = cff2_count(T["CFF2"])
        if n is not None and n != numGlyphs:
            P.append("CFF2: CharStrings INDEX has %d entries, maxp.numGlyphs is %d" % (n, numGlyphs))
        notes.append("derived:cff2-counts-only")
    else:
        notes.append("derived:no-outlines")
    if hea_done:
        return
    if "hhea" in T:
        _check_header_extents(P, notes, "hhea", T["hhea"], T.get("hmtx"), numGlyphs, hspans, hstrict, _HNAMES, etol)
    if "vhea" in T:
        _check_header_extents(P, notes, "vhea", T["vhea"], T.get("vmtx"), numGlyphs, vspans, vstrict, _VNAMES, etol)


def _cff_fields(T, B, info, hbox, numGlyphs, P, notes):
    have = [b for b in B if b is not None]
    if have:
        lo = (min(b[0] for b in have), min(b[1] for b in have), max(b[2] for b in have), max(b[3] for b in have))
        want = (_ifloor(lo[0]), _ifloor(lo[1]), _iceil(lo[2]), _iceil(lo[3]))
    else:
        want = (0, 0, 0, 0)
    # extrema inside a curve segment are found in floating point: floor/ceil may then differ by one
    tol = 1 if info["curve_extrema"] else 0
    if tol and "cff:curve-extrema-tolerance" not in notes:
        notes.append("cff:curve-extrema-tolerance")
    if hbox is not None and any(abs(a - b) > tol for a, b in zip(hbox, want)):
        P.append("head: font bbox %r, union of the CFF glyph bounds %r (tolerance %d)" % (hbox, want, tol))
    fb = info["FontBBox"]
    if hbox is not None and tuple(fb) != tuple(hbox):
        P.append("CFF: FontBBox %r differs from the head font bbox %r" % (tuple(fb), hbox))
    hspans, vspans = {}, {}
    for gid, b in enumerate(B):
        if b is not None:
            hspans[gid] = (_ifloor(b[0]), _iceil(b[2]))
            vspans[gid] = (_ifloor(b[1]), _iceil(b[3]))
    if "hhea" in T:
        _check_header_extents(P, notes, "hhea", T["hhea"], T.get("hmtx"), numGlyphs, hspans, hspans, _HNAMES, 2 * tol)
    if "vhea" in T:
        _check_header_extents(P, notes, "vhea", T["vhea"], T.get("vmtx"), numGlyphs, vspans, vspans, _VNAMES, 2 * tol)


def _ifloor(v):
    import math

    return int(math.floor(v))


def _iceil(v):
    import math

    return int(math.ceil(v))


# ---------------------------------------------------------------------------
# CFF (Adobe TN#5176): just enough to find the charstrings, their subroutines and the FontBBox


def _cff_index(d, o, wide=False):
    """-> (items, offset after the INDEX)"""
    if wide:
        count = _u32(d, o, "INDEX count")
        o += 4
    else:
        count = _u16(d, o, "INDEX count")
        o += 2
    if count == 0:
        return [], o
    osz = _u8(d, o, "INDEX offSize")
    if not 1 <= osz <= 4:
        raise ParseError("INDEX offSize %d" % osz)
    o += 1
    _need(d, o, (count + 1) * osz, "INDEX offsets")
    offs = [int.from_bytes(d[o + i * osz : o + (i + 1) * osz], "big") for i in range(count + 1)]
    base = o + (count + 1) * osz - 1
    if offs[0] != 1 or any(b < a for a, b in zip(offs, offs[1:])):
        raise ParseError("INDEX offsets not monotone from 1")
    _need(d, base + 1, offs[-1] - 1, "INDEX data")
    return [d[base + offs[i] : base + offs[i + 1]] for i in range(count)], base + offs[-1]


def _cff_dict(d):
    """DICT data -> {operator: [operands]}; two-byte operators are keyed (12, n)"""
    out = {}
    st = []
    o = 0
    n = len(d)
    while o < n:
        b0 = d[o]
        o += 1
        if b0 <= 27 or b0 == 31:
            if b0 == 12:
                op = (12, _u8(d, o, "DICT operator"))
                o += 1
            else:
                op = b0
            out[op] = st
            st = []
        elif b0 == 28:
            st.append(_s16(d, o, "DICT int16"))
            o += 2
        elif b0 == 29:
            v = _u32(d, o, "DICT int32")
            st.append(v - (1 << 32) if v >> 31 else v)
            o += 4
        elif b0 == 30:
            txt = ""
            done = False
            while not done:
                b = _u8(d, o, "DICT real")
                o += 1
                for nib in (b >> 4, b & 15):
                    if nib == 15:
                        done = True
                        break
                    txt += "0123456789.EE?-"[nib] if nib != 12 else "E-"
            try:
                st.append(float(txt))
            except ValueError:
                raise ParseError("DICT real %r" % txt)
        elif b0 <= 246:
            st.append(b0 - 139)
        elif b0 <= 250:
            st.append((b0 - 247) * 256 + _u8(d, o, "DICT int") + 108)
            o += 1
        elif b0 <= 254:
            st.append(-(b0 - 251) * 256 - _u8(d, o, "DICT int") - 108)
            o += 1
        else:
            raise ParseError("DICT byte 255")
    return out


def _cff_private(d, size, off):
    _need(d, off, size, "Private DICT")
    pd = _cff_dict(d[off : off + size])
    subrs = []
    if 19 in pd and pd[19]:
        subrs, _ = _cff_index(d, off + int(pd[19][0]))
    dw = pd.get(20, [0])
    nw = pd.get(21, [0])
    return subrs, (dw[0] if dw else 0), (nw[0] if nw else 0)


def _cubic_extremes(p0, p1, p2, p3):
    """values of the cubic at the parameters in (0,1) where its derivative vanishes"""
    a = -p0 + 3 * p1 - 3 * p2 + p3
    b = 2 * (p0 - 2 * p1 + p2)
    c = p1 - p0
    ts = []
    if a == 0:
        if b != 0:
            ts.append(-c / b)
    else:
        disc = b * b - 4 * a * c
        if disc >= 0:
            r = disc ** 0.5
            ts += [(-b + r) / (2 * a), (-b - r) / (2 * a)]
    out = []
    for t in ts:
        if 0 < t < 1:
            m = 1 - t
            out.append(m * m * m * p0 + 3 * m * m * t * p1 + 3 * m * t * t * p2 + t * t * t * p3)
    return out


def _ops_bounds(ops, single_points=False):
    """pen-style ops -> (bounds or None, extrema_inside_curves). With single_points=False a moveTo that is not
    followed by a line or a curve does not contribute (there is no outline there: this is what rasterisers
    measure); with single_points=True every moveTo point counts (what a pen that records every point sees)."""
    xs, ys, cx, cy = [], [], [], []
    start = cur = None
    pending = False
    for op, args in ops:
        if op == "moveTo":
            start = cur = args[0]
            pending = True
            if single_points:
                xs.append(start[0])
                ys.append(start[1])
                pending = False
        elif op == "lineTo":
            if pending:
                xs.append(start[0])
                ys.append(start[1])
                pending = False
            cur = args[0]
            xs.append(cur[0])
            ys.append(cur[1])
        elif op == "curveTo":
            if pending:
                xs.append(start[0])
                ys.append(start[1])
                pending = False
            c1, c2, p = args
            cx += _cubic_extremes(cur[0], c1[0], c2[0], p[0])
            cy += _cubic_extremes(cur[1], c1[1], c2[1], p[1])
            cur = p
            xs.append(p[0])
            ys.append(p[1])
    if not xs:
        return None, False
    on = (min(xs), min(ys), max(xs), max(ys))
    full = (min(xs + cx), min(ys + cy), max(xs + cx), max(ys + cy))
    return full, full != on


def cff_bounds(cff):
    """CFF table -> dict(count, bounds=[(xMin,yMin,xMax,yMax)|None per glyph], FontBBox, curve_extrema, skip)
    skip is a reason string when the outline bounds were not computed (they are then not asserted)."""
    from . import ref_t2

    info = dict(count=None, bounds=None, FontBBox=(0, 0, 0, 0), curve_extrema=False, skip=None)
    _need(cff, 0, 4, "CFF header")
    if cff[0] != 1:
        info["skip"] = "major-version-%d" % cff[0]
        return info
    names, o = _cff_index(cff, cff[2])
    tops, o = _cff_index(cff, o)
    strings, o = _cff_index(cff, o)
    gsubrs, o = _cff_index(cff, o)
    if not tops:
        raise ParseError("CFF without Top DICT")
    top = _cff_dict(tops[0])
    if 17 not in top:
        raise ParseError("CFF Top DICT without CharStrings")
    cs, _ = _cff_index(cff, int(top[17][0]))
    info["count"] = len(cs)
    if 5 in top and len(top[5]) == 4:
        info["FontBBox"] = tuple(top[5])
    if top.get((12, 6), [2])[0] != 2:
        info["skip"] = "charstring-type-%r" % top[(12, 6)][0]
        return info
    if len(tops) > 1:
        info["skip"] = "several-fonts"
        return info
    if (12, 36) in top:
        fds, _ = _cff_index(cff, int(top[(12, 36)][0]))
        privs = []
        for fd in fds:
            fdd = _cff_dict(fd)
            if 18 not in fdd or len(fdd[18]) != 2:
                raise ParseError("FD without Private")
            privs.append(_cff_private(cff, int(fdd[18][0]), int(fdd[18][1])))
        if (12, 37) not in top:
            raise ParseError("FDArray without FDSelect")
        p = int(top[(12, 37)][0])
        fmt = _u8(cff, p, "FDSelect format")
        if fmt == 0:
            _need(cff, p + 1, len(cs), "FDSelect")
            sel = list(cff[p + 1 : p + 1 + len(cs)])
        elif fmt == 3:
            nr = _u16(cff, p + 1)
            sel = [0] * len(cs)
            for i in range(nr):
                first = _u16(cff, p + 3 + 3 * i)
                fdi = _u8(cff, p + 5 + 3 * i)
                nxt = _u16(cff, p + 3 + 3 * (i + 1))
                for g in range(first, min(nxt, len(cs))):
                    sel[g] = fdi
        else:
            info["skip"] = "fdselect-format-%d" % fmt
            return info
        if any(s >= len(privs) for s in sel):
            raise ParseError("FDSelect refers to a missing FD")
    else:
        if 18 in top and len(top[18]) == 2:
            privs = [_cff_private(cff, int(top[18][0]), int(top[18][1]))]
        else:
            privs = [([], 0, 0)]
        sel = [0] * len(cs)
    bounds = []
    bounds2 = []
    for gid, prog in enumerate(cs):
        lsubrs, dw, nw = privs[sel[gid]]
        try:
            r = ref_t2.run(bytes(prog), lsubrs=[bytes(x) for x in lsubrs], gsubrs=[bytes(x) for x in gsubrs], fmt="cff", default_width=dw, nominal_width=nw)
        except Exception as e:  # the reference interpreter gave up: the bounds are then not asserted (visible as a note)
            info["skip"] = "charstring-%d-not-interpretable" % gid
            return info
        if r.problems:
            info["skip"] = "charstring-problem:%s" % r.problems[0][0]
            return info
        if r.seac is not None:
            info["skip"] = "seac"
            return info
        b, inexact = _ops_bounds(r.ops)
        b2, inexact2 = _ops_bounds(r.ops, single_points=True)
        if inexact or inexact2:
            info["curve_extrema"] = True
        bounds.append(b)
        bounds2.append(b2)
    info["bounds"] = bounds
    info["bounds_single_points"] = bounds2 if bounds2 != bounds else None
    return info


def cff2_count(cff2):
    """number of charstrings of a CFF2 table (None when the table is not CFF2)"""
    _need(cff2, 0, 5, "CFF2 header")
    if cff2[0] != 2:
        return None
    hdr = cff2[2]
    tl = _u16(cff2, 3)
    _need(cff2, hdr, tl, "CFF2 Top DICT")
    top = _cff_dict(cff2[hdr : hdr + tl])
    if 17 not in top:
        raise ParseError("CFF2 Top DICT without CharStrings")
    cs, _ = _cff_index(cff2, int(top[17][0]), wide=True)
    return len(cs)
