"""C07 — subsetting preserves the behaviour of everything it keeps.

Original and subset are both read by HarfBuzz (cmap, shaping, outlines, advances); the subset is also
reloaded with fontTools and scanned for references to glyphs that are gone. Glyphs are identified by
their glyph ID in the ORIGINAL font: the subsetter's in-memory glyph order before/after subsetting gives
new gid -> original gid, and the outline clause verifies that this mapping tells the truth.
"""

import io
import random
import unicodedata

from vf import corpus, shapecmp, subsetref
from vf.runner import Acc, CaseTimeout, HarnessError, fingerprint, short, subseed, time_limit

ID = "C07"
LEVEL = "exploration"
RULE = (
    "corpus fonts with a Unicode cmap + outlines (quick: every font outside the AOTS family + a seeded sample of 60 of the 200 AOTS fonts, 5 requests each, "
    "8 for variable fonts, 10 for fonts with >= 250 glyphs; thorough: all fonts x 40 requests) x seeded requests (unicodes / text / glyph names / gids / "
    "mixtures; sizes 1, few, a fraction, nearly all, all; drawn from the font's cmap and glyph order, half of them read off the inputs of the "
    "font's own GSUB/GPOS rules; plus unmapped unicodes) x option vector (layout_features default | '*' | random subset of the font's tags; "
    "layout_scripts '*' | subset; retain_gids; notdef_outline; notdef_glyph (TrueType only); recommended_glyphs; glyph_names; hinting; "
    "desubroutinize; name_IDs; passthrough_tables; layout_closure; prune_unicode_ranges) run through subset.load_font / Subsetter.populate / "
    "Subsetter.subset / subset.save_font. Per case: (present) every requested unicode / variation sequence the original maps, every requested "
    "glyph name and gid is in the subset and maps to the same original glyph; every character of the subset's cmap maps as in the original; "
    "(shape) probe texts over the subset's characters and, with layout_closure, glyph runs over the layout-closed glyph set (probes read off "
    "the font's rules + random), shaped by HarfBuzz with identical feature settings (features dropped by the options switched off, kept ones "
    "randomly switched on / alternates index), script, language, direction and variation location (default + 2 seeded): identical original "
    "glyph ids, clusters, advances, offsets; (outline) retained glyphs draw identically and keep h/v advances at each location, bitmaps equal; "
    "(refs) subset reloads, every table decompiles, every glyph reference resolves, re-saves; (retain-gids) gid unchanged; (container) C04 "
    "validator. non-trivial = subset strictly smaller, font has GSUB/GPOS and a probe changed glyphs or positions in the original; distinct by "
    "(font, request, options)"
)
ASSUMPTIONS = [
    "HarfBuzz 12.1 implements cmap, GSUB/GPOS/GDEF, glyf/gvar, CFF/CFF2, HVAR/VVAR correctly; both fonts are shaped by the same build with the same settings",
    "'retained characters' = the characters in the subset's cmap (requested unicodes, their bidi mirrors, characters of requested glyphs); the original is shaped "
    "through a face that carries all its tables but a cmap restricted to exactly those characters (vf.subsetref.RestrictedFace), because the shaper's own "
    "character fallbacks (Unicode composition, space/hyphen fallbacks, dotted circle, mirroring) ask for characters outside the text and a subset cannot answer "
    "for characters it was not asked to keep; the number of probes where this matters is reported (label shape:full-cmap-would-differ)",
    "features whose tag the options drop are switched off on both sides; a required feature's tag is always kept (HarfBuzz cannot switch a required feature off)",
    "with layout_scripts restricted, probes force a kept script tag that every layout table of the original has (otherwise HarfBuzz's DFLT/latn fallback differs by design); "
    "old/new-spec Indic tag pairs are not used as forced scripts",
    "glyph runs are drawn from Subsetter.glyphs_gsubed (glyphs reachable by layout); glyphs added later only as glyf/CFF components or COLR layers are not promised layout rules",
    "with layout_closure=False (documented: rules are cut down to the given glyph set) a probe is compared only if the original's shaping never passes through a glyph "
    "outside the subset (HarfBuzz message trace after every lookup) and alternates indices > 1 are not used",
    "with notdef_outline=False (default) glyph 0 keeps its advance at the default location only; its outline and variations are dropped by design",
    "a character counts as mapped by the original only if a cmap subtable that survives the documented default pruning (Unicode, not symbol, not format 0) maps it to the glyph HarfBuzz finds",
    "MATH variants/assemblies are compared for glyphs of Subsetter.glyphs_wo_math_closure, COLR layers for glyphs of Subsetter.glyphs_colred (the code documents that glyphs pulled in only "
    "as variants / components do not keep their own records)",
    "excluded with counters (finding classes F1-F4, sensitivity/C07.md): probes for which HarfBuzz selects another script / language system because the subsetter dropped an emptied GPOS script "
    "record or LangSys (F1); characters of the glyph that lands on gid 0 under notdef_glyph=False (F2); probes affected by the synthesis of glyph classes after an emptied GDEF GlyphClassDef "
    "was dropped (F3: fonts with IgnoreBaseGlyphs lookups, texts with Mn/Me/unassigned characters); fonts whose GDEF 1.3 has a NULL VarStore offset, on which Subsetter.subset raises (F4)",
    "corpus defects that are not the subsetter's: fonts whose own tables name glyph ids beyond numGlyphs, CFF2 masters with a width operand (cannot be recompiled), are excluded with counters",
]
WALL_BUDGET = {"quick": 900, "thorough": 3 * 3600}

# HarfBuzz synthesises class MARK for general category Mn only; Me and unassigned (a newer Unicode version may know them) are
# treated as possible marks too
_MAYBE_MARKS = {"Mn", "Me", "Cn"}
QUICK_AOTS = 60
QUICK_REQUESTS = 5
THOROUGH_REQUESTS = 120
N_PROBES = 40


# ---------------------------------------------------------------------------
# per-font context


class FontCtx:
    def __init__(self, fid):
        from fontTools.ttLib import TTFont
        from vf.hbref import HBFont

        self.fid = fid
        kind, rest = fid.split(":", 1)
        if kind == "bin" and "#" not in rest:
            data = corpus.file_bytes(fid)
            if data[:4] in (b"wOFF", b"wOF2"):
                f = TTFont(io.BytesIO(data))
                f.flavor = None
                buf = io.BytesIO()
                f.save(buf)
                data = buf.getvalue()
        else:
            data = corpus.sfnt_bytes(fid)
        self.data = data
        self.font = TTFont(io.BytesIO(data), lazy=False)
        self.order = self.font.getGlyphOrder()
        self.hb = HBFont(data)
        self.unicodes = self.hb.unicodes()
        self.cmap = {u: self.hb.nominal(u) for u in self.unicodes}
        self.cmap = {u: g for u, g in self.cmap.items() if g}
        self.name2gid = {n: i for i, n in enumerate(self.order)}
        # the subsetter documents that it works on the Unicode cmap subtables and drops format 0, symbol and legacy
        # subtables by default: a character HarfBuzz finds only through one of those is not "mapped" for the subsetter
        surv = {}
        if "cmap" in self.font:
            for t in self.font["cmap"].tables:
                if t.format not in (0, 14) and t.isUnicode() and not t.isSymbol():
                    for u, n in t.cmap.items():
                        surv.setdefault(u, set()).add(self.name2gid.get(n))
        self.cmap_legacy_only = sorted(u for u, g in self.cmap.items() if g not in surv.get(u, ()))
        self.cmap = {u: g for u, g in self.cmap.items() if g in surv.get(u, ())}
        self.unicodes = sorted(self.cmap)
        self.uvs = {}
        for vs in sorted(self.hb.face.variation_selectors):
            for u in sorted(self.hb.face.variation_unicodes(vs)):
                g = self.hb.variation_glyph(u, vs)
                if g:
                    self.uvs[(u, vs)] = g
        self.rcmap = {}
        for u, g in sorted(self.cmap.items()):
            self.rcmap.setdefault(g, []).append(u)
        self.inv = subsetref.layout_inventory(self.font)
        self.all_features = sorted(set().union(*self.inv["features"].values())) if self.inv["features"] else []
        self.all_scripts = sorted(set().union(*[set(s) for s in self.inv["scripts"].values()])) if self.inv["scripts"] else []
        self.axes = self.hb.axes()
        self.is_tt = "glyf" in self.font
        self.has_layout = "GSUB" in self.font or "GPOS" in self.font
        self.post_names = ("post" in self.font and self.font["post"].formatType == 2.0) or "CFF " in self.font
        self.name2gid = {n: i for i, n in enumerate(self.order)}
        # names the library had to make unique on load are not the font's names and do not survive a reload
        try:
            raw = [self.hb.font.get_glyph_name(g) for g in range(len(self.order))]
            if len(set(raw)) != len(raw) or raw != list(self.order):
                self.post_names = False
        except Exception:
            self.post_names = False
        self.ignores_base = False
        for tag in ("GSUB", "GPOS"):
            if tag in self.font and self.font[tag].table.LookupList:
                for lk in self.font[tag].table.LookupList.Lookup:
                    if lk is not None and lk.LookupFlag & 0x02:
                        self.ignores_base = True

    def usable(self):
        if "cmap" not in self.font or not self.cmap:
            return "no-usable-cmap"
        if not ({"glyf", "CFF ", "CFF2"} & set(self.font.keys())):
            return "no-outlines"
        if not {"head", "hhea", "hmtx", "maxp"}.issubset(self.font.keys()):
            return "lacks-required-tables"
        if self.hb.glyph_count() != len(self.order):
            return "glyph-count-mismatch"
        if len(set(self.order)) != len(self.order):
            return "duplicate-glyph-names"
        if "GDEF" in self.font:
            t = self.font["GDEF"].table
            if hasattr(t, "VarStore") and t.VarStore is None:
                # former finding class F4 (repaired): GDEF 1.3 with a NULL VarStore offset made every request raise
                self.note = "gdef-1.3-with-null-varstore"
        return None

    def dangling0(self):
        if not hasattr(self, "_dangling0"):
            try:
                o = set(self.order)
                self._dangling0 = {g for w, g in subsetref.glyph_refs(self.font) if g not in o}
            except Exception:
                self._dangling0 = set()
        return self._dangling0

    def forced_scripts(self):
        """script tags present in every layout table that has scripts; no old/new Indic variants"""
        tabs = [set(s) for s in self.inv["scripts"].values() if s]
        if not tabs:
            return []
        common = set.intersection(*tabs)
        out = []
        for t in sorted(common):
            if t[-1:] in "23" or (t[:3] + "2") in self.all_scripts or (t[:3] + "3") in self.all_scripts:
                continue
            out.append(t)
        return out


_CTX = {}


def get_ctx(fid):
    if fid not in _CTX:
        _CTX.clear()
        _CTX[fid] = FontCtx(fid)
    return _CTX[fid]


# ---------------------------------------------------------------------------
# case generation (seeded)

DEFAULT_OPTS = dict(
    layout_features="default",
    layout_scripts=["*"],
    retain_gids=False,
    notdef_outline=False,
    notdef_glyph=True,
    recommended_glyphs=False,
    glyph_names=False,
    hinting=True,
    desubroutinize=False,
    name_IDs="default",
    passthrough_tables=False,
    layout_closure=True,
    prune_unicode_ranges=True,
)


def _pick_size(rnd, n):
    r = rnd.random()
    if n <= 1 or r < 0.15:
        return 1
    if r < 0.45:
        return rnd.randint(1, min(n, 6))
    if r < 0.7:
        return rnd.randint(1, max(1, n // 4))
    if r < 0.88:
        return rnd.randint(max(1, n // 2), n)
    return n


def gen_request(ctx, rnd):
    n = len(ctx.order)
    U = ctx.unicodes
    req = dict(unicodes=[], glyphs=[], gids=[], text="")
    kind = rnd.choices(["unicodes", "text", "glyphs", "gids", "mix"], [40, 15, 20, 10, 15])[0]
    biased = ctx.has_layout and rnd.random() < 0.55
    glyph_pool = None
    if biased:
        seqs = subsetref.rule_sequences(ctx.font, rnd, rnd.randint(1, 6))
        glyph_pool = []
        for s in seqs:
            for g in s:
                if g not in glyph_pool:
                    glyph_pool.append(g)
    kinds = [kind] if kind != "mix" else rnd.sample(["unicodes", "text", "glyphs", "gids"], rnd.randint(2, 3))
    for k in kinds:
        if k in ("unicodes", "text"):
            if glyph_pool:
                us = []
                for g in glyph_pool:
                    cand = ctx.rcmap.get(ctx.name2gid.get(g, -1))
                    if cand:
                        us.append(rnd.choice(cand))
                extra = rnd.randint(0, 3)
                us += [rnd.choice(U) for _ in range(extra)]
            else:
                us = rnd.sample(U, _pick_size(rnd, len(U)))
            if not us:
                us = [rnd.choice(U)]
            if rnd.random() < 0.15:
                us.append(rnd.choice([0x10FFFD, 0xE000, 0x378, 0x2FFFE]))  # unmapped: ignored by default
            if ctx.uvs and rnd.random() < 0.5:
                pairs = rnd.sample(sorted(ctx.uvs), min(len(ctx.uvs), rnd.randint(1, 4)))
                for u, vs in pairs:
                    us += [u, vs] if rnd.random() < 0.8 else [vs]
            us = sorted(set(us))
            if k == "text":
                us = [u for u in us if not 0xD800 <= u < 0xE000]
                rnd.shuffle(us)
                req["text"] = "".join(chr(u) for u in us)
            else:
                req["unicodes"] = us
        elif k == "glyphs":
            if glyph_pool:
                gs = list(glyph_pool)
            else:
                gs = rnd.sample(ctx.order, _pick_size(rnd, n))
            req["glyphs"] = sorted(set(gs), key=ctx.name2gid.get)
        elif k == "gids":
            if glyph_pool:
                gi = [ctx.name2gid[g] for g in glyph_pool if g in ctx.name2gid]
            else:
                gi = rnd.sample(range(n), _pick_size(rnd, n))
            req["gids"] = sorted(set(gi))
    if not (req["unicodes"] or req["glyphs"] or req["gids"] or req["text"]):
        req["gids"] = [rnd.randrange(n)]
    return req


def gen_options(ctx, rnd):
    o = {}
    r = rnd.random()
    feats = ctx.all_features
    if r < 0.38 or not feats:
        o["layout_features"] = ["*"] if feats and r < 0.38 else "default"
    elif r < 0.62:
        o["layout_features"] = "default"
    else:
        k = rnd.randint(0, len(feats))
        chosen = rnd.sample(feats, k)
        if rnd.random() < 0.3:
            o["layout_features"] = "default+" + ",".join(sorted(chosen))
        else:
            o["layout_features"] = sorted(chosen)
    scripts = ctx.all_scripts
    if len(scripts) > 0 and rnd.random() < 0.2:
        forced = ctx.forced_scripts()
        if forced:
            keep = set(rnd.sample(scripts, rnd.randint(1, len(scripts))))
            keep.add(rnd.choice(forced))
            o["layout_scripts"] = sorted(keep)
    for key, p in (
        ("retain_gids", 0.4 if ctx.axes else 0.25),
        ("notdef_outline", 0.3),
        ("recommended_glyphs", 0.2),
        ("glyph_names", 0.4),
        ("passthrough_tables", 0.25),
    ):
        if rnd.random() < p:
            o[key] = True
    for key, p in (("hinting", 0.3), ("layout_closure", 0.2), ("prune_unicode_ranges", 0.2)):
        if rnd.random() < p:
            o[key] = False
    if rnd.random() < 0.3:
        o["desubroutinize"] = True
    if ctx.is_tt and rnd.random() < 0.1:
        o["notdef_glyph"] = False
    r = rnd.random()
    if r < 0.15:
        o["name_IDs"] = ["*"]
    elif r < 0.25:
        o["name_IDs"] = []
    elif r < 0.35:
        o["name_IDs"] = sorted(rnd.sample(range(0, 26), rnd.randint(1, 6)))
    return {k: v for k, v in o.items() if DEFAULT_OPTS.get(k) != v}


def dependent_glyphs(ctx):
    """glyphs whose outline refers to other glyphs: glyf composites and CFF accent building (endchar with adx ady bchar achar)"""
    if not hasattr(ctx, "_dependents"):
        out = []
        try:
            if "glyf" in ctx.font:
                glyf = ctx.font["glyf"]
                out = [g for g in ctx.order if glyf[g].isComposite()]
            elif "CFF " in ctx.font:
                cs = ctx.font["CFF "].cff[0].CharStrings
                for g in ctx.order:
                    c = cs[g]
                    c.decompile()
                    p = c.program
                    if len(p) >= 5 and p[-1] == "endchar" and all(not isinstance(t, str) for t in p[-5:-1]):
                        out.append(g)
        except Exception:
            out = []
        ctx._dependents = out
    return ctx._dependents


def gen_cases(fid, seed, n):
    ctx = get_ctx(fid)
    cases = []
    for i in range(n):
        rnd = random.Random(subseed(seed, "case", fid, i))
        req = gen_request(ctx, rnd)
        if i == 0 and dependent_glyphs(ctx):
            # one request per font that asks for a dependent glyph alone (by name or by character): what it is built from
            # has to come along through the closure
            g = rnd.choice(dependent_glyphs(ctx))
            us = ctx.rcmap.get(ctx.name2gid[g])
            req = dict(unicodes=[rnd.choice(us)] if us and rnd.random() < 0.5 else [], glyphs=[], gids=[], text="")
            if not req["unicodes"]:
                req["glyphs"] = [g]
        opts = gen_options(ctx, rnd)
        cases.append(dict(fid=fid, req={k: v for k, v in req.items() if v}, opts=opts, pseed=rnd.randrange(1 << 30)))
    return cases


# ---------------------------------------------------------------------------
# running the subsetter


def make_options(ctx, o):
    from fontTools import subset

    opts = subset.Options()
    full = dict(DEFAULT_OPTS)
    full.update(o)
    lf = full["layout_features"]
    if lf == "default":
        kept = list(opts.layout_features)
    elif isinstance(lf, str) and lf.startswith("default+"):
        kept = list(opts.layout_features) + [t for t in lf[8:].split(",") if t]
    else:
        kept = list(lf)
    forced_required = False
    if "*" not in kept:
        for t in sorted(ctx.inv["required"]):
            if t not in kept:
                kept.append(t)
                forced_required = True
    opts.layout_features = kept
    opts.layout_scripts = list(full["layout_scripts"])
    for k in ("retain_gids", "notdef_outline", "notdef_glyph", "recommended_glyphs", "glyph_names", "hinting", "desubroutinize", "passthrough_tables", "layout_closure", "prune_unicode_ranges"):
        setattr(opts, k, bool(full[k]))
    if full["name_IDs"] != "default":
        opts.name_IDs = list(full["name_IDs"])
    return opts, forced_required


class SubsetResult:
    pass


def run_subsetter(ctx, case, acc):
    """-> SubsetResult or None (failure already recorded)"""
    from fontTools import subset

    opts, forced_required = make_options(ctx, case["opts"])
    req = case["req"]
    res = SubsetResult()
    res.opts = opts
    res.forced_required = forced_required
    try:
        font = subset.load_font(io.BytesIO(ctx.data), opts, lazy=opts.lazy)
        order_before = list(font.getGlyphOrder())
    except CaseTimeout:
        raise
    except Exception as e:
        acc.fail_exc("load-raises", e, case)
        return None
    if order_before != ctx.order:
        raise HarnessError("glyph order of subset.load_font differs from TTFont for %s" % ctx.fid)
    s = subset.Subsetter(opts)
    try:
        s.populate(unicodes=req.get("unicodes", []), glyphs=req.get("glyphs", []), gids=req.get("gids", []), text=req.get("text", ""))
        s.subset(font)
    except CaseTimeout:
        raise
    except Exception as e:
        if _malformed_input(e):
            acc.exclude("corpus font has a CFF2 charstring with a width operand (cannot be recompiled)")
            return None
        acc.fail_exc("subset-raises", e, case)
        return None
    res.subsetter = s
    res.font = font
    res.order_after = list(font.getGlyphOrder())
    buf = io.BytesIO()
    try:
        subset.save_font(font, buf, opts)
    except CaseTimeout:
        raise
    except Exception as e:
        if _malformed_input(e):
            acc.exclude("corpus font has a CFF2 charstring with a width operand (cannot be recompiled)")
            return None
        acc.fail_exc("save-raises", e, case)
        return None
    res.data = buf.getvalue()
    return res


# ---------------------------------------------------------------------------
# shaping with optional trace of every intermediate glyph


def shape_ex(hbf, text=None, gids=None, features=None, script=None, language=None, direction=None, collect=False):
    import uharfbuzz as hb
    from vf.hbref import GID_BASE

    buf = hb.Buffer()
    if text is not None:
        buf.add_str(text)
        font = hbf.font
    else:
        buf.add_codepoints([GID_BASE + g for g in gids])
        font = hbf.gid_font()
        direction = direction or "ltr"
    if direction:
        buf.direction = direction
    if script == "DFLT":
        buf.script = "Zyyy"  # 'DFLT' is no script: left unset HarfBuzz would guess one from the text; Common selects DFLT
    elif script:
        buf.set_script_from_ot_tag(script)
    if language:
        buf.set_language_from_ot_tag(language)
    buf.guess_segment_properties()
    seen = set()
    chosen = {}
    if collect:
        state = {"glyphs": False}

        def on_msg(m):
            if m.startswith("start table G"):
                state["glyphs"] = True
                chosen[m[12:16]] = m.split("'")[1] if "'" in m else ""
                seen.update(i.codepoint for i in buf.glyph_infos)
            elif state["glyphs"] and m.startswith("end lookup"):
                seen.update(i.codepoint for i in buf.glyph_infos)
            return True

        buf.set_message_func(on_msg)
    hb.shape(font, buf, features or {}, shapers=["ot"])
    out = []
    for info, pos in zip(buf.glyph_infos, buf.glyph_positions):
        out.append((info.codepoint, info.cluster, pos.x_advance, pos.y_advance, pos.x_offset, pos.y_offset))
    seen.update(r[0] for r in out)
    return out, seen, chosen


def diff_results(r0, r1, new2old, names):
    m = []
    for g, cl, xa, ya, xo, yo in r1:
        m.append((new2old[g] if g < len(new2old) else -1 - g, cl, xa, ya, xo, yo))
    if [r[0] for r in r0] != [r[0] for r in m]:
        nm = lambda g: names[g] if 0 <= g < len(names) else "subset-gid%d" % (-1 - g)
        return "glyphs %s vs %s" % ([nm(r[0]) for r in r0][:14], [nm(r[0]) for r in m][:14])
    for i, (a, b) in enumerate(zip(r0, m)):
        if a != b:
            return "glyph %d (%s): (cluster, xadv, yadv, xoff, yoff) %s vs %s" % (i, names[a[0]], a[1:], b[1:])
    return None


def _fired(hbf, r, text=None, gids=None):
    if any(x[3] or x[4] or x[5] for x in r):
        return True
    src = [hbf.nominal(ord(c)) or 0 for c in text] if text is not None else list(gids)
    got = [x[0] for x in r]
    if sorted(got) != sorted(src):
        return True
    return any(x[2] != hbf.h_advance(x[0]) for x in r)


# ---------------------------------------------------------------------------
# the case


def aux_glyph_data(hbf, g, new2old, has_v, math_variants, want_math, want_colr):
    """vertical origin, MATH glyph info / variants / assembly, COLRv0 layers with resolved colours; glyph ids are
    translated to original ids when new2old is given"""
    n = hbf.glyph_count()
    if new2old is not None:
        m = lambda x: new2old[x] if x < len(new2old) else ("beyond-numGlyphs", x)
    else:
        m = lambda x: x if x < n else ("beyond-numGlyphs", x)
    d = {}
    if has_v:
        d["v_origin"] = hbf.font.get_glyph_v_origin(g)
    face = hbf.face
    if want_math:
        d["math_italics"] = hbf.font.get_math_glyph_italics_correction(g)
        d["math_top_accent"] = hbf.font.get_math_glyph_top_accent_attachment(g)
        if math_variants:
            for dr in ("ttb", "ltr"):
                d["math_variants_" + dr] = [(m(v.glyph), v.advance) for v in hbf.font.get_math_glyph_variants(g, dr)]
                parts, ic = hbf.font.get_math_glyph_assembly(g, dr)
                d["math_assembly_" + dr] = ([(m(p.glyph), p.start_connector_length, p.end_connector_length, p.full_advance, int(p.flags)) for p in parts], ic)
    if want_colr:  # (layers?, paint?) of the original
        if want_colr[0]:
            layers = face.get_glyph_color_layers(g) or []
            pal = None
            out = []
            for l in layers:
                if l.color_index == 0xFFFF:
                    col = "foreground"
                else:
                    if pal is None:
                        pal = face.get_color_palette(0)[0] if face.color_palettes else []
                    c = pal[l.color_index] if l.color_index < len(pal) else None
                    col = (c.red, c.green, c.blue, c.alpha) if c is not None else "index-out-of-range"
                out.append((m(l.glyph), col))
            d["colr_layers"] = out
        if want_colr[1]:
            d["colr_paint"] = subsetref.paint_trace(hbf, g, m) if face.has_color_paint and face.glyph_has_color_paint(g) else []
    return d


def seeded_locations(ctx, rnd):
    if not ctx.axes:
        return [None]
    locs = [None]
    for _ in range(2):
        loc = {}
        for tag, mn, df, mx in ctx.axes:
            r = rnd.random()
            if r < 0.25:
                loc[tag] = rnd.choice([mn, mx])
            elif r < 0.9:
                loc[tag] = round(rnd.uniform(mn, mx), 2)
        locs.append(loc or {ctx.axes[0][0]: ctx.axes[0][3]})
    return locs


def feature_setting(ctx, kept, rnd, closure):
    """dict for HarfBuzz: dropped tags off, a random selection of kept tags on"""
    feats = {}
    for t in ctx.all_features:
        if t not in kept:
            feats[t] = False
    mode = rnd.random()
    kept_list = sorted(kept)
    if mode < 0.45:
        on = kept_list
    elif mode < 0.8:
        on = [t for t in kept_list if rnd.random() < 0.5]
    else:
        on = []
    for t in on:
        v = True
        if closure and rnd.random() < 0.12:
            v = rnd.choice([2, 3])
        feats[t] = v
    if mode >= 0.8 and kept_list and rnd.random() < 0.3:
        feats[rnd.choice(kept_list)] = False
    if "kern" in ctx.font and "GPOS" in ctx.font:
        # documented default: the TrueType kern table is dropped when GPOS is present (--legacy-kern keeps it). A shaper uses
        # that table whenever GPOS has no kern feature, so the default removes that kerning by design: both sides are shaped
        # with kerning off (only generated fonts have both tables)
        feats["kern"] = False
    return feats


def run_case(case, acc, tier="quick"):
    from fontTools.ttLib import TTFont
    from vf.hbref import HBFont

    ctx = get_ctx(case["fid"])
    why = ctx.usable()
    if why:
        acc.exclude(why)
        return
    rnd = random.Random(case["pseed"])
    res = run_subsetter(ctx, case, acc)
    if res is None:
        return
    opts = res.opts
    s = res.subsetter
    names = ctx.order
    labels = []
    req = case["req"]

    # ---- glyph identity: new gid -> original gid through the subsetter's in-memory glyph order
    try:
        new2old = [ctx.name2gid[n] for n in res.order_after]
    except KeyError as e:
        acc.fail("present", "glyph-order-has-unknown-name", "subset glyph order contains %s, not a glyph of the original" % e, case)
        return
    if len(set(new2old)) != len(new2old):
        acc.fail("present", "glyph-order-has-duplicates", "subset glyph order lists a glyph twice", case)
        return
    old2new = {o: n for n, o in enumerate(new2old)}
    retained_names = set(s.glyphs_retained)
    emptied_names = set(s.glyphs_emptied)
    retained = {ctx.name2gid[n] for n in retained_names}
    if retained_names | emptied_names != set(res.order_after) or retained_names & emptied_names:
        acc.fail("present", "state-inconsistent", "glyph order %d names != glyphs_retained %d + glyphs_emptied %d" % (len(res.order_after), len(retained_names), len(emptied_names)), case)

    try:
        hb1 = HBFont(res.data)
        n1 = hb1.glyph_count()
    except Exception as e:
        acc.fail("refs", "harfbuzz-cannot-open-subset", str(e), case)
        return
    if n1 != len(res.order_after):
        acc.fail("refs", "glyph-count", "maxp.numGlyphs of the saved subset is %d, subsetter's glyph order has %d" % (n1, len(res.order_after)), case)
        return
    hb0 = ctx.hb

    # ---- clause 4: reload, decompile, references, re-save
    f1 = check_refs(ctx, case, res, acc, labels)
    if f1 is None:
        return
    # with notdef_glyph=False a real glyph sits at gid 0 (documented option). cmap cannot map a character to gid 0 (0 means
    # "missing glyph" in every cmap format and to every consumer), so the characters of that glyph are lost although the
    # glyph is there: recorded as finding class F2 in sensitivity/C07.md, excluded here with a counter; the glyph is kept
    # out of probe inputs (HarfBuzz reports gid 0 as "no glyph")
    zero_glyph = new2old[0] if (not opts.notdef_glyph and new2old and new2old[0] != 0) else None
    if zero_glyph is not None:
        labels.append("real-glyph-at-gid0")

    # ---- clause 1: requested things are present
    requested_u = set(req.get("unicodes", [])) | set(ord(c) for c in req.get("text", ""))
    must = set()  # original gids that must be retained with their outline
    for u in sorted(requested_u):
        g0 = ctx.cmap.get(u)
        if not g0:
            continue
        must.add(g0)
        if g0 == zero_glyph:
            acc.exclude("notdef_glyph=False: requested character whose glyph lands on gid 0 is unmapped in the subset")
            continue
        g1 = hb1.nominal(u)
        if not g1:
            acc.fail("present", "requested-unicode-unmapped", "U+%04X (%s in the original) has no glyph in the subset" % (u, names[g0]), case)
        elif new2old[g1] != g0:
            acc.fail("present", "requested-unicode-maps-elsewhere", "U+%04X maps to %s in the original, to %s in the subset" % (u, names[g0], names[new2old[g1]]), case)
    for (u, vs), g0 in sorted(ctx.uvs.items()):
        if u in requested_u and vs in requested_u:
            must.add(g0)
            if g0 == zero_glyph:
                acc.exclude("notdef_glyph=False: requested variation sequence whose glyph lands on gid 0 is unmapped in the subset")
                continue
            g1 = hb1.variation_glyph(u, vs)
            if not g1:
                acc.fail("present", "requested-variation-sequence-unmapped", "<U+%04X U+%04X> (%s in the original) has no mapping in the subset" % (u, vs, names[g0]), case)
            elif new2old[g1] != g0:
                acc.fail("present", "requested-variation-sequence-maps-elsewhere", "<U+%04X U+%04X>: %s vs %s" % (u, vs, names[g0], names[new2old[g1]]), case)
            labels.append("req:uvs")
    for n in req.get("glyphs", []):
        must.add(ctx.name2gid[n])
    for g in req.get("gids", []):
        must.add(g)
    for g in sorted(must):
        if g not in old2new:
            acc.fail("present", "requested-glyph-missing", "glyph %s (gid %d) was requested but is not in the subset" % (names[g], g), case)
        elif g not in retained:
            acc.fail("present", "requested-glyph-emptied", "glyph %s (gid %d) was requested but is listed as emptied" % (names[g], g), case)
    if opts.notdef_glyph and 0 not in old2new:
        acc.fail("present", "notdef-missing", "glyph 0 is not in the subset although notdef_glyph is set", case)

    # every character the subset maps must map as in the original
    R = {}
    for u in hb1.unicodes():
        g1 = hb1.nominal(u) or 0
        if not g1:
            continue
        g0 = ctx.cmap.get(u)
        if g1 >= len(new2old) and (hb0.nominal(u) or 0) >= len(names):
            acc.exclude("character that the original cmap maps to a glyph id beyond numGlyphs")
            continue
        if g0 is None and u in ctx.cmap_legacy_only:
            acc.exclude("character mapped differently by the original's Unicode cmap subtables (HarfBuzz reads another one)")
            continue
        if g0 is None or g1 >= len(new2old) or new2old[g1] != g0:
            acc.fail("present", "subset-cmap-differs", "U+%04X: original %s, subset %s" % (u, names[g0] if g0 is not None else None, names[new2old[g1]] if g1 < len(new2old) else "gid%d" % g1), case)
            continue
        R[u] = g0
    Ruvs = {}
    for vs in sorted(hb1.face.variation_selectors):
        for u in sorted(hb1.face.variation_unicodes(vs)):
            g1 = hb1.variation_glyph(u, vs)
            g0 = hb0.variation_glyph(u, vs)
            if not g1:
                continue
            if not g0 or g1 >= len(new2old) or new2old[g1] != g0:
                acc.fail("present", "subset-cmap14-differs", "<U+%04X U+%04X>: original gid %s, subset gid %s" % (u, vs, g0, g1), case)
                continue
            Ruvs[(u, vs)] = g0

    # ---- clause 5: retain_gids
    if opts.retain_gids:
        bad = [(n, o) for n, o in enumerate(new2old) if n != o]
        if bad:
            acc.fail("retain-gids", "gid-changed", "glyph %s: gid %d in the original, %d in the subset" % (names[bad[0][1]], bad[0][1], bad[0][0]), case)
        labels.append("opt:retain_gids")

    # ---- clause 6: container validity (C04's validator, if present)
    try:
        from props.c04 import validate_saved
    except ImportError:
        validate_saved = None
    except Exception:
        validate_saved = None
    if validate_saved is not None:
        try:
            problems = validate_saved(res.data, recalc=False)
        except Exception as e:
            problems = []
            acc.label("container:validator-raised:%s" % type(e).__name__)
        labels.append("container:validated-by-C04")
        for p in problems[:3]:
            acc.fail("container", "invalid:" + p.split(":")[0][:40], p, case)

    # ---- clause 3: outlines and advances of retained glyphs
    locs = seeded_locations(ctx, rnd)
    K = 60 if tier == "quick" else 400
    cand = sorted(g for g in retained if g in old2new)
    first = sorted(g for g in must if g in old2new and g in retained)
    if len(first) > K // 2:
        first = rnd.sample(first, K // 2)
    rest = [g for g in cand if g not in set(first)]
    if len(rest) > K - len(first):
        rest = rnd.sample(rest, K - len(first))
    check = sorted(set(first) | set(rest))
    notdef_emptied = opts.notdef_glyph and not opts.notdef_outline
    has_v = "vmtx" in ctx.font
    math_full = set(getattr(s, "glyphs_wo_math_closure", ()))
    colred = set(getattr(s, "glyphs_colred", ()))
    for loc in locs:
        hb0.set_location(loc)
        hb1.set_location(loc)
        tol = 0.0 if loc is None else 0.001
        for g in check:
            try:
                if g == 0 and notdef_emptied:
                    if loc is None and hb0.h_advance(0) != hb1.h_advance(old2new[0]):
                        acc.fail("outline", "notdef-advance", "glyph 0 advance %s vs %s" % (hb0.h_advance(0), hb1.h_advance(old2new[0])), case)
                    continue
                d = shapecmp.diff_glyph(hb0, g, hb1, old2new[g], tol=tol)
                if d is None and has_v:
                    va, vb = hb0.v_advance(g), hb1.v_advance(old2new[g])
                    if abs(va - vb) > tol:
                        d = "v_advance %s vs %s" % (va, vb)
                if d is None and loc is None:
                    # COLR records are kept for glyphs of the COLR closure only: a glyph that is in the subset merely as a
                    # glyf/CFF component of another one loses its colour layers by design (comment in COLR.subset_glyphs)
                    wm = hb0.face.has_math_data
                    wc = (hb0.face.has_color_layers, hb0.face.has_color_paint) if names[g] in colred and (hb0.face.has_color_layers or hb0.face.has_color_paint) else None
                    xa = aux_glyph_data(hb0, g, None, has_v, names[g] in math_full, wm, wc)
                    xb = aux_glyph_data(hb1, old2new[g], new2old, has_v, names[g] in math_full, wm, wc)
                    if xa != xb:
                        k = [k for k in xa if xa[k] != xb.get(k)][0]
                        d = "aux data %s: %s vs %s" % (k, short(xa[k], 120), short(xb.get(k), 120))
                if d is None and loc is None:
                    pa, pb = hb0.font.get_glyph_color_png(g), hb1.font.get_glyph_color_png(old2new[g])
                    pa = bytes(pa.data) if pa is not None else None
                    pb = bytes(pb.data) if pb is not None else None
                    if pa != pb:
                        d = "colour bitmap differs (%s vs %s bytes)" % (len(pa) if pa else None, len(pb) if pb else None)
            except CaseTimeout:
                raise
            except Exception as e:
                raise HarnessError("outline comparison failed for %s glyph %d: %r" % (ctx.fid, g, e))
            if d is not None:
                kind = "aux:" + d.split()[2].rstrip(":") if d.startswith("aux data") else "advance" if "advance" in d else "bitmap" if "bitmap" in d else "outline"
                acc.fail("outline", kind + (":default" if loc is None else ":variation"), "glyph %s (gid %d -> %d) loc %r: %s" % (names[g], g, old2new[g], loc, d), case)
    hb0.set_location(None)
    hb1.set_location(None)

    # ---- clause 2: shaping
    fired = shape_probes(ctx, case, res, acc, rnd, hb1, new2old, old2new, R, Ruvs, locs, labels, requested_u, zero_glyph)

    # ---- bookkeeping
    smaller = len(res.order_after) < len(ctx.order) or bool(emptied_names)
    o = case["opts"]
    lf = o.get("layout_features", "default")
    labels.append("features:" + ("default" if lf == "default" else "all" if lf == ["*"] else "subset"))
    for k in ("layout_scripts", "notdef_outline", "notdef_glyph", "recommended_glyphs", "glyph_names", "hinting", "desubroutinize", "passthrough_tables", "layout_closure", "prune_unicode_ranges", "name_IDs"):
        if k in o:
            labels.append("opt:%s" % k)
    for k in ("unicodes", "text", "glyphs", "gids"):
        if req.get(k):
            labels.append("req:" + k)
    nreq = len(must)
    labels.append("req-size:" + ("1" if nreq <= 1 else "2-6" if nreq <= 6 else "7-50" if nreq <= 50 else ">50"))
    if len(retained) > len(must | ({0} if opts.notdef_glyph else set())):
        labels.append("closure-added-glyphs")
    labels.append("outlines:" + ("glyf" if ctx.is_tt else "CFF2" if "CFF2" in ctx.font else "CFF"))
    if ctx.axes:
        labels.append("variable")
    if not smaller:
        labels.append("subset-is-whole-font")
    if fired:
        labels.append("layout-fired")
    if ctx.has_layout:
        labels.append("font-has-layout")
    acc.case(
        (case["fid"], case["req"], case["opts"]),
        nontrivial=bool(smaller and ctx.has_layout and fired),
        labels=labels,
        sample=dict(fid=case["fid"], opts=case["opts"], requested=nreq, retained=len(retained), of=len(ctx.order), fired=fired) if fired and smaller else None,
    )


def check_refs(ctx, case, res, acc, labels):
    from fontTools.ttLib import TTFont

    try:
        f1 = TTFont(io.BytesIO(res.data), lazy=False)
        order1 = f1.getGlyphOrder()
    except CaseTimeout:
        raise
    except Exception as e:
        acc.fail_exc("refs:reload-raises", e, case)
        return None
    if len(order1) != len(res.order_after):
        acc.fail("refs", "reloaded-glyph-order-length", "%d names after reload, %d in memory" % (len(order1), len(res.order_after)), case)
        return None
    if res.opts.glyph_names and ctx.post_names and ("post" not in ctx.font or ctx.font["post"].formatType == 2.0):
        if order1 != res.order_after:
            d = [(a, b) for a, b in zip(res.order_after, order1) if a != b][:3]
            acc.fail("refs", "glyph-names-not-kept", "glyph_names=True but names differ after reload: %s" % d, case)
        labels.append("names-checked")
    ok = True
    orderset = set(order1)
    try:
        refs = subsetref.glyph_refs(f1)
    except CaseTimeout:
        raise
    except Exception as e:
        acc.fail_exc("refs:decompile-raises", e, case)
        return None
    bad = {}
    for where, g in refs:
        if g not in orderset:
            if g in ctx.dangling0():
                acc.exclude("reference to a glyph id beyond numGlyphs already present in the original font")
                continue
            bad.setdefault(where.split("/")[0], (where, g))
    for tag, (where, g) in sorted(bad.items()):
        acc.fail("refs", "dangling:" + tag.strip(), "%s refers to %r, which is not a glyph of the subset (%d glyphs)" % (where, g, len(order1)), case)
        ok = False
    try:
        subsetref.decompile_everything(f1)
    except CaseTimeout:
        raise
    except Exception as e:
        if _malformed_input(e):
            acc.exclude("corpus font has a CFF2 charstring with a width operand (cannot be recompiled)")
            return None
        acc.fail_exc("refs:decompile-raises", e, case)
        return None
    try:
        buf = io.BytesIO()
        f1.save(buf)
    except CaseTimeout:
        raise
    except Exception as e:
        if _malformed_input(e):
            acc.exclude("corpus font has a CFF2 charstring with a width operand (cannot be recompiled)")
            return None
        from vf.runner import innermost_frame

        if not res.opts.notdef_glyph and isinstance(e, IndexError) and innermost_frame(e).startswith("fontTools/ttLib/tables/_c_m_a_p.py"):
            # F2 again: the only character of a format 12 subtable sits on gid 0, the reloaded subtable is empty, and
            # compiling an empty format 12 subtable raises (the C02 finding)
            acc.exclude("notdef_glyph=False: requested character whose glyph lands on gid 0 is unmapped in the subset")
            return None
        acc.fail_exc("refs:resave-raises", e, case)
        return None
    return TTFont(io.BytesIO(res.data), lazy=False)


def _malformed_input(e):
    return isinstance(e, AssertionError) and "must not have an initial width" in str(e)


def shape_probes(ctx, case, res, acc, rnd, hb1, new2old, old2new, R, Ruvs, locs, labels, requested_u, zero_glyph=None):
    opts = res.opts
    s = res.subsetter
    names = ctx.order
    hb0 = ctx.hb
    closure = bool(opts.layout_closure)
    kept = set(ctx.all_features) if "*" in opts.layout_features else set(ctx.all_features) & set(opts.layout_features)
    gsubed = {ctx.name2gid[n] for n in s.glyphs_gsubed if n in ctx.name2gid}
    probe_glyphs = gsubed - {zero_glyph}
    if opts.notdef_glyph and not opts.notdef_outline:
        probe_glyphs = probe_glyphs - {0}  # emptied by design, its variations (and so its advance off the default location) too
    gsubed_names = {names[g] for g in probe_glyphs}

    # scripts
    restricted_scripts = "*" not in opts.layout_scripts
    forced = [t for t in ctx.forced_scripts() if not restricted_scripts or t in opts.layout_scripts]
    if restricted_scripts:
        labels.append("scripts-restricted")
        if not forced:
            acc.exclude("no-script-common-to-all-layout-tables-kept")
            return False

    # finding class F3 (sensitivity/C07.md): a GDEF GlyphClassDef that lists none of the retained glyphs is dropped (with
    # the whole GDEF if nothing else is left); HarfBuzz then synthesises glyph classes (every non-mark becomes a base glyph,
    # Unicode marks become marks), so IgnoreBaseGlyphs/IgnoreMarks lookups and mark advances behave differently
    # What is synthesised differs from "no class" only for lookups that ignore base glyphs and for characters HarfBuzz
    # may regard as marks, so exactly those probes are excluded (counted).
    classes_dropped = bool(hb0.face.has_layout_glyph_classes and not hb1.face.has_layout_glyph_classes)
    if classes_dropped:
        labels.append("gdef-classes-dropped")
        if ctx.ignores_base:
            # former finding class F3 (repaired: an emptied GlyphClassDef is kept): must not come back
            acc.fail("shaping", "glyph-classes-dropped", "%s: the original has GDEF glyph classes and IgnoreBaseGlyphs lookups, the subset has no glyph classes at all (shapers then synthesise them)" % ctx.fid, case)
            return False

    # the original with the subset's repertoire
    try:
        hbr = subsetref.RestrictedFace(hb0, R, Ruvs)
    except Exception as e:
        raise HarnessError("RestrictedFace failed for %s: %r" % (ctx.fid, e))

    # ---- probes
    n_text = N_PROBES // 2 if closure and ctx.has_layout else N_PROBES
    n_runs = N_PROBES - n_text
    Rlist = sorted(R)
    req_in_R = [u for u in Rlist if u in requested_u] or Rlist
    texts = []
    if Rlist:
        # rule-derived texts
        allowed = {names[g] for g in set(R.values())}
        for seq in subsetref.rule_sequences(ctx.font, rnd, n_text // 2, allowed=allowed) if ctx.has_layout else []:
            cs = []
            for g in seq:
                cand = [u for u in ctx.rcmap.get(ctx.name2gid[g], []) if u in R]
                if not cand:
                    cs = None
                    break
                cs.append(rnd.choice(cand))
            if cs:
                texts.append("".join(chr(c) for c in cs))
        texts += shapecmp.random_texts(req_in_R, rnd, n_text - len(texts), maxlen=8)
        if Ruvs:
            for (u, vs) in rnd.sample(sorted(Ruvs), min(3, len(Ruvs))):
                texts.append(chr(rnd.choice(Rlist)) + chr(u) + chr(vs) + chr(rnd.choice(Rlist)))
    runs = []
    if n_runs and gsubed_names:
        pool_names = gsubed_names
        runs = subsetref.rule_sequences(ctx.font, rnd, (n_runs * 3) // 4, allowed=pool_names)
        pool = sorted(pool_names, key=ctx.name2gid.get)
        lp = sorted(subsetref.layout_pool(ctx.font) & pool_names, key=ctx.name2gid.get)
        while len(runs) < n_runs:
            k = rnd.randint(1, 6)
            runs.append([rnd.choice(lp) if lp and rnd.random() < 0.8 else rnd.choice(pool) for _ in range(k)])

    fired_any = False
    script_langs = {}
    for tab, sc in ctx.inv["scripts"].items():
        for t, langs in sc.items():
            script_langs.setdefault(t, set()).update(langs)

    def settings():
        feats = feature_setting(ctx, kept, rnd, closure)
        script = None
        if restricted_scripts or (forced and rnd.random() < 0.4):
            script = rnd.choice(forced)
        language = None
        if script and script_langs.get(script) and rnd.random() < 0.4:
            language = rnd.choice(sorted(script_langs[script]))
        r = rnd.random()
        direction = None if r < 0.7 else "rtl" if r < 0.85 else "ltr" if r < 0.93 else "ttb"
        return feats, script, language, direction

    langs0 = _script_langs(hb0)
    langs1 = _script_langs(hb1)
    for li, loc in enumerate(locs):
        hbr.set_location(loc)
        hb0.set_location(loc)
        hb1.set_location(loc)
        for kind, items in (("text", texts), ("run", runs)):
            for item in items:
                if li and rnd.random() < 0.5:
                    continue  # variation locations: half of the probes
                feats, script, language, direction = settings()
                if classes_dropped and kind == "text" and any(unicodedata.category(c) in _MAYBE_MARKS for c in item):
                    acc.exclude("probe: emptied GDEF GlyphClassDef dropped and the text has characters HarfBuzz may class as marks")
                    continue
                kw = dict(features=feats, script=script, language=language, direction=direction)
                try:
                    if kind == "text":
                        r0, seen0, sc0 = shape_ex(hbr, text=item, collect=True, **kw)
                        r1, _, sc1 = shape_ex(hb1, text=item, collect=True, **kw)
                    else:
                        g0 = [ctx.name2gid[n] for n in item]
                        r0, seen0, sc0 = shape_ex(hb0, gids=g0, collect=True, **kw)
                        r1, _, sc1 = shape_ex(hb1, gids=[old2new[g] for g in g0], collect=True, **kw)
                except CaseTimeout:
                    raise
                except Exception as e:
                    raise HarnessError("shaping failed for %s %r: %r" % (ctx.fid, item, e))
                acc.label("probe:" + kind)
                if seen0 and max(seen0) >= len(names):
                    acc.exclude("probe: a rule of the original font produces a glyph id beyond numGlyphs")
                    continue
                if not closure:
                    if not seen0 <= gsubed:
                        acc.label("probe:skipped-no-closure-leaves-glyph-set")
                        continue
                    acc.label("probe:no-closure-compared")
                # HarfBuzz picks script / language system per table by tag presence; the subsetter drops GPOS script records and
                # language systems that became empty, after which HarfBuzz falls back to DFLT / the default language system (or, in
                # the Hebrew shaper, stops using GPOS): recorded as a finding class and excluded (see sensitivity/C07.md)
                skip = None
                for t in ("GSUB", "GPOS"):
                    a, b = sc0.get(t), sc1.get(t)
                    if a == b:
                        continue
                    if b or b is None or a is None or (t == "GPOS" and a == "hebr"):
                        # the subset selects another existing script (fallback to DFLT/dflt/latn), or a table is no longer applied
                        # at all (Hebrew shaper: GPOS only with a 'hebr' script)
                        skip = "probe: emptied script record dropped from %s, HarfBuzz selects another script" % t
                if skip is None and language:
                    for t in ("GSUB", "GPOS"):
                        if sc1.get(t) and (language in langs0.get(t, {}).get(sc0.get(t), ())) != (language in langs1.get(t, {}).get(sc1.get(t), ())):
                            skip = "probe: emptied/redundant language system dropped from %s, HarfBuzz selects the default one" % t
                if skip:
                    acc.exclude(skip)
                    dd = diff_results(r0, r1, new2old, names)
                    acc.label("excluded-probe:" + ("results-differ" if dd else "results-agree"))
                    if dd:
                        ex = acc.extra.setdefault("excluded_probe_examples", {})
                        if skip not in ex or (script is None and "script=None" not in ex[skip]):
                            ex[skip] = "%s %s %r features=%s script=%s lang=%s dir=%s opts=%s req=%s: %s" % (ctx.fid, kind, item, _fmt_feats(feats), script, language, direction, case["opts"], short(case["req"], 200), dd)
                    continue
                f = _fired(hbr if kind == "text" else hb0, r0, text=item if kind == "text" else None, gids=None if kind == "text" else g0)
                if f:
                    fired_any = True
                    acc.label("probe:fired")
                if kind == "text" and rnd.random() < 0.25:
                    rfull, _, _ = shape_ex(hb0, text=item, **kw)
                    if rfull != r0:
                        acc.label("shape:full-cmap-would-differ")
                d = diff_results(r0, r1, new2old, names)
                if d is not None:
                    what = "text %r (%s)" % (item, " ".join("U+%04X" % ord(c) for c in item)) if kind == "text" else "glyph run %s" % item
                    k = "glyphs" if d.startswith("glyphs") else "positions"
                    acc.fail(
                        "shape",
                        "%s:%s%s" % (kind, k, "" if loc is None else ":variation"),
                        "%s features=%s script=%s lang=%s dir=%s loc=%s: original vs subset: %s" % (what, _fmt_feats(feats), script, language, direction, loc, d),
                        case,
                    )
    hb0.set_location(None)
    hb1.set_location(None)
    return fired_any


def _script_langs(hbf):
    out = {}
    for table in ("GSUB", "GPOS"):
        d = {}
        try:
            for i, t in enumerate(hbf.layout_scripts(table)):
                d[t] = set(hbf.layout_languages(table, i))
        except Exception:
            pass
        out[table] = d
    return out


def _fmt_feats(feats):
    on = sorted(t if v is True else "%s=%d" % (t, v) for t, v in feats.items() if v)
    off = sorted(t for t, v in feats.items() if not v)
    return "{on: %s; off: %s}" % (",".join(on), ",".join(off))


# ---------------------------------------------------------------------------
# jobs


def _eligible():
    out = []
    for e in corpus.fonts():
        t = set(e["tables"])
        if "cmap" in t and ({"glyf", "CFF ", "CFF2"} & t) and {"head", "hhea", "hmtx", "maxp"} <= t:
            out.append(e)
    return out


def select_fonts(tier, seed):
    es = _eligible()
    if tier == "thorough":
        return [e["id"] for e in es]
    # quick: every eligible font outside the AOTS family (they carry the rare structures: mark filtering sets, COLR, MATH,
    # VARC, cmap 14, bitmaps, HVAR with and without maps, CID-keyed CFF...) plus a seeded sample of the 200 AOTS fonts
    rnd = random.Random(subseed(seed, "c07-fonts"))
    aots = [e["id"] for e in es if "/aots/" in e["id"]]
    others = [e["id"] for e in es if "/aots/" not in e["id"]]
    pick = sorted(rnd.sample(aots, min(len(aots), QUICK_AOTS)), key=aots.index)
    return pick + others


def jobs(tier, seed):
    J = []
    n = THOROUGH_REQUESTS if tier == "thorough" else QUICK_REQUESTS
    for fid in select_fonts(tier, seed):
        k = n
        if tier != "thorough" and corpus.entry(fid)["variable"]:
            k = n + 3  # variable fonts are few and small: HVAR/VVAR/gvar/FeatureVariations paths need the extra requests
        elif tier != "thorough" and corpus.entry(fid)["numGlyphs"] >= 250:
            k = n + 5  # the few large fonts carry the rich layout (mark filtering sets, many scripts, MATH)
        J.append(dict(kind="font", name=fid, fid=fid, seed=seed, tier=tier, n=k))
    return J


def run_job(job):
    acc = Acc()
    fid = job["fid"]
    try:
        ctx = get_ctx(fid)
    except CaseTimeout:
        raise
    except Exception as e:
        acc.exclude("cannot-open:%s" % type(e).__name__)
        return acc
    why = ctx.usable()
    if why:
        acc.exclude(why)
        return acc
    for case in gen_cases(fid, job["seed"], job["n"]):
        try:
            with time_limit(600):
                run_case(case, acc, job["tier"])
        except CaseTimeout:
            acc.inconclusive += 1
    return acc


def replay(case):
    acc = Acc()
    run_case(case, acc, "thorough")
    return acc.failures


def shrink(f, key, tier, seed, budget_s=90):
    """Greedy minimisation of a failing case: options back to defaults one at a time, then request items removed in
    halves / singly, keeping the same failure bucket. Returns the failure record of the smallest case found."""
    import copy
    import time

    from vf.runner import from_jsonable

    t0 = time.time()
    best_case = from_jsonable(copy.deepcopy(f["case"]))
    best = f

    def attempt(c):
        if time.time() - t0 > budget_s:
            return None
        a = Acc()
        try:
            with time_limit(120):
                run_case(c, a, "quick")
        except CaseTimeout:
            return None
        for g in a.failures:
            if "%s|%s|%s" % (g["clause"], g["kind"], g["where"]) == key:
                return g
        return None

    for k in sorted(best_case.get("opts", {})):
        c = copy.deepcopy(best_case)
        del c["opts"][k]
        g = attempt(c)
        if g:
            best_case, best = c, g
    for field in ("unicodes", "glyphs", "gids", "text"):
        items = best_case["req"].get(field)
        if not items:
            continue
        c = copy.deepcopy(best_case)
        del c["req"][field]
        if any(c["req"].values()):
            g = attempt(c)
            if g:
                best_case, best = c, g
                continue
        items = list(items)
        chunk = max(1, len(items) // 2)
        while chunk >= 1 and time.time() - t0 <= budget_s:
            i = 0
            while i < len(items) and len(items) > 1:
                cand = items[:i] + items[i + chunk :]
                if not cand:
                    i += chunk
                    continue
                c = copy.deepcopy(best_case)
                c["req"][field] = "".join(cand) if field == "text" else cand
                g = attempt(c)
                if g:
                    items = cand
                    best_case, best = c, g
                else:
                    i += chunk
            chunk //= 2
    return best


def finish(total, tier, seed):
    need = ["probe:fired", "probe:run", "probe:text", "opt:retain_gids", "features:all", "closure-added-glyphs", "variable", "outlines:CFF", "outlines:glyf"]
    missing = [l for l in need if not total.labels.get(l)]
    if missing:
        raise HarnessError("generator classes with zero hits: %s" % missing)
