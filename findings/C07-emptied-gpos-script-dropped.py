"""Subsetter removes GPOS script records (and language systems) whose features all became empty, while for GSUB it keeps
them on purpose (retain_empty_scripts, fonttools issue 518). Shapers select the script per table by tag presence: when
the record is gone HarfBuzz falls back to DFLT/dflt/latn and applies THEIR features, or (Hebrew shaper) stops using GPOS
and positions marks itself. (a) built font, GPOS: script DFLT kerns A V by -100, script grek kerns alpha beta only;
subset to A V with layout_features=['*']: 'grek' is dropped, and 'AV' in a run of script Grek gets advances 600 600 with
the original, 500 600 with the subset. (b) Tests/cffLib/data/LinLibertine_RBI.otf (GPOS scripts DFLT cyrl grek hebr
latn), unicodes=[0x79, 0x334], layout_features=['*']: the subset has no 'hebr' record; 'y' U+0334 shaped with script
'hebr', direction ttb puts uni0334 at offset (0,-741) with the original and at (450,1140) with the subset.
Expected: same glyphs, advances and offsets as the original for text over the retained characters."""


def _built_font():
    import io

    from fontTools.feaLib.builder import addOpenTypeFeaturesFromString
    from fontTools.fontBuilder import FontBuilder
    from fontTools.pens.ttGlyphPen import TTGlyphPen

    fb = FontBuilder(1000, isTTF=True)
    order = [".notdef", "A", "V", "alpha", "beta"]
    fb.setupGlyphOrder(order)
    fb.setupCharacterMap({0x41: "A", 0x56: "V", 0x3B1: "alpha", 0x3B2: "beta"})
    pen = TTGlyphPen(None)
    pen.moveTo((0, 0))
    pen.lineTo((0, 500))
    pen.lineTo((500, 500))
    pen.closePath()
    glyph = pen.glyph()
    fb.setupGlyf({n: glyph for n in order})
    fb.setupHorizontalMetrics({n: (600, 0) for n in order})
    fb.setupHorizontalHeader(ascent=800, descent=-200)
    fb.setupNameTable({"familyName": "W", "styleName": "Regular"})
    fb.setupOS2()
    fb.setupPost()
    addOpenTypeFeaturesFromString(
        fb.font,
        "languagesystem DFLT dflt; languagesystem grek dflt;"
        "feature kern { script DFLT; pos A V -100; } kern;"
        "feature kern { script grek; pos alpha beta -50; } kern;",
    )
    out = io.BytesIO()
    fb.save(out)
    return out.getvalue()


def _compare(original, unicodes, text, script, direction):
    import io

    import uharfbuzz as hb
    from fontTools import subset

    opts = subset.Options(layout_features=["*"])
    font = subset.load_font(io.BytesIO(original), opts)
    order0 = font.getGlyphOrder()
    scripts0 = sorted({r.ScriptTag for r in font["GPOS"].table.ScriptList.ScriptRecord})
    s = subset.Subsetter(opts)
    s.populate(unicodes=unicodes)
    s.subset(font)
    order1 = font.getGlyphOrder()
    has = "GPOS" in font and font["GPOS"].table.ScriptList
    scripts1 = sorted({r.ScriptTag for r in font["GPOS"].table.ScriptList.ScriptRecord}) if has else []
    out = io.BytesIO()
    subset.save_font(font, out, opts)

    def shape(data, order):
        hbfont = hb.Font(hb.Face(data))
        buf = hb.Buffer()
        buf.add_codepoints(text)
        buf.script = script
        buf.direction = direction
        buf.language = "dflt"
        hb.shape(hbfont, buf, {})
        return [
            (order[i.codepoint], p.x_advance, p.y_advance, p.x_offset, p.y_offset)
            for i, p in zip(buf.glyph_infos, buf.glyph_positions)
        ]

    r0 = shape(original, order0)
    r1 = shape(out.getvalue(), order1)
    if r0 != r1:
        return "original %s, subset %s (GPOS scripts: original %s, subset %s)" % (r0, r1, scripts0, scripts1)
    return None


def reproduce():
    import os

    found = []
    d = _compare(_built_font(), [0x41, 0x56], [0x41, 0x56], "Grek", "ltr")
    if d:
        found.append("built font, 'AV' with script grek: " + d)
    path = os.path.join(os.environ.get("VERIF_REPO", "/repo"), "Tests", "cffLib", "data", "LinLibertine_RBI.otf")
    with open(path, "rb") as f:
        data = f.read()
    d = _compare(data, [0x79, 0x334], [0x79, 0x334], "Hebr", "ttb")
    if d:
        found.append("LinLibertine_RBI.otf, 'y' U+0334 with script hebr, direction ttb: " + d)
    return "; ".join(found) or None
