"""Exact-rational reference models for OpenType variation arithmetic (property C09).

Everything here is written from the OpenType specification (OpenType Font
Variations Common Table Formats: "Variation regions", "Item variation store";
'gvar': "Inferred deltas for un-referenced point numbers"; 'avar'/'fvar'
normalisation) with fractions.Fraction arithmetic.  No fontTools import, no
shared code: the only thing the property module hands over are plain numbers.

Conventions
* Q(x) converts int / float / Fraction to the Fraction with exactly that value
  (a float is taken at its exact binary value, no rounding, no guessing).
* a region is a mapping axis -> (start, peak, end); a location a mapping
  axis -> coordinate (missing axis = 0, the default), all Fractions.
"""

import struct
from fractions import Fraction

ZERO = Fraction(0)
ONE = Fraction(1)
NO_VARIATION_INDEX = 0xFFFFFFFF


def Q(x):
    if isinstance(x, Fraction):
        return x
    if isinstance(x, bool):
        raise TypeError("bool is not a number here")
    if isinstance(x, int):
        return Fraction(x)
    if isinstance(x, float):
        return Fraction(x)  # exact binary value
    raise TypeError("cannot convert %r exactly" % (x,))


# ---------------------------------------------------------------------------
# variation regions (OpenType "Variation regions": per-axis scalar, product)


def axis_scalar(v, start, peak, end):
    """Per-axis scalar of the spec's algorithm, in the spec's order of tests."""
    if start > peak or peak > end:
        return ONE  # malformed: axis ignored
    if start < 0 and end > 0 and peak != 0:
        return ONE  # straddles zero: axis ignored
    if peak == 0:
        return ONE  # axis does not participate
    if v < start or v > end:
        return ZERO
    if v == peak:
        return ONE
    if v < peak:
        return (v - start) / (peak - start)
    return (end - v) / (end - peak)


def region_scalar(loc, region):
    s = ONE
    for axis, (start, peak, end) in region.items():
        a = axis_scalar(loc.get(axis, ZERO), start, peak, end)
        if a == 0:
            return ZERO
        s *= a
    return s


def region_is_wellformed(region):
    """start <= peak <= end and not straddling zero on every axis (so that no
    axis falls under one of the spec's 'ignore' rules), peak != 0."""
    for start, peak, end in region.values():
        if not (start <= peak <= end):
            return False
        if start < 0 < end:
            return False
        if peak == 0:
            return False
    return True


# ---------------------------------------------------------------------------
# re-normalisation of a normalised coordinate under new axis limits
# (fvar/avar default normalisation applied to the limits expressed in old
# normalised units; both pre-normalisation distances equal, so the old scale
# has no kink at its own default)


def renormalize(v, lo, de, hi):
    """New normalised coordinate of old-normalised v, lo <= v <= hi."""
    if v == de:
        return ZERO
    if v > de:
        return (v - de) / (hi - de)
    return (v - de) / (de - lo)


def unrenormalize(n, lo, de, hi):
    """Old-normalised coordinate whose new normalised value is n (None when
    that side of the new axis is empty)."""
    if n == 0:
        return de
    if n > 0:
        if hi == de:
            return None
        return de + n * (hi - de)
    if lo == de:
        return None
    return de + n * (de - lo)


def rebased_value(solutions, n):
    """Value at new-normalised coordinate n of a list of (scalar, tent|None)."""
    total = ZERO
    for scalar, tent in solutions:
        if tent is None:
            total += scalar
        else:
            total += scalar * axis_scalar(n, tent[0], tent[1], tent[2])
    return total


# ---------------------------------------------------------------------------
# master models: exact deltas for given supports (triangular solve) and
# evaluation.  supports[k] belongs to locations[k]; supports are *inputs*
# (what is stored in a font); whether they make the system unit lower
# triangular is reported, not assumed.


def support_matrix(supports, locations):
    """M[k][j] = scalar of supports[j] at locations[k]."""
    return [[region_scalar(loc, sup) for sup in supports] for loc in locations]


def is_unit_lower_triangular(M):
    n = len(M)
    for k in range(n):
        if M[k][k] != 1:
            return False, (k, k)
        for j in range(k + 1, n):
            if M[k][j] != 0:
                return False, (k, j)
    return True, None


def solve_deltas(M, values):
    """Deltas D with sum_j D[j]*M[k][j] == values[k] for a unit lower triangular M."""
    D = []
    for k, v in enumerate(values):
        d = Q(v)
        row = M[k]
        for j in range(k):
            if row[j] != 0:
                d -= D[j] * row[j]
        D.append(d)
    return D


def evaluate(supports, deltas, loc):
    total = ZERO
    for sup, d in zip(supports, deltas):
        if d == 0:
            continue
        s = region_scalar(loc, sup)
        if s != 0:
            total += d * s
    return total


# ---------------------------------------------------------------------------
# item variation store (plain data): regions = [ [(start,peak,end) per axis] ],
# vardata = [ (regionIndexes, [row, ...]) ]


def store_region_scalars(regions, loc_vec):
    """Scalar of every region of the list at a location given as a vector."""
    out = []
    for reg in regions:
        s = ONE
        for v, (start, peak, end) in zip(loc_vec, reg):
            a = axis_scalar(v, start, peak, end)
            if a == 0:
                s = ZERO
                break
            s *= a
        out.append(s)
    return out


def store_value(vardata, varidx, scalars):
    """Delta of item varidx, given the per-region scalars at the location."""
    if varidx == NO_VARIATION_INDEX:
        return ZERO
    outer, inner = varidx >> 16, varidx & 0xFFFF
    region_indexes, items = vardata[outer]
    row = items[inner]
    if len(row) != len(region_indexes):
        raise ValueError("delta set of %d entries for %d regions" % (len(row), len(region_indexes)))
    total = ZERO
    for ri, d in zip(region_indexes, row):
        if d:
            s = scalars[ri]
            if s != 0:
                total += d * s
    return total


def parse_item_variation_store(data):
    """Parse a binary ItemVariationStore (format 1) into (regions, vardata)."""
    fmt, region_off, count = struct.unpack_from(">HLH", data, 0)
    if fmt != 1:
        raise ValueError("ItemVariationStore format %d" % fmt)
    offsets = struct.unpack_from(">%dL" % count, data, 8)
    axis_count, region_count = struct.unpack_from(">HH", data, region_off)
    regions = []
    pos = region_off + 4
    for _ in range(region_count):
        reg = []
        for _ in range(axis_count):
            s, p, e = struct.unpack_from(">hhh", data, pos)
            pos += 6
            reg.append((Fraction(s, 16384), Fraction(p, 16384), Fraction(e, 16384)))
        regions.append(reg)
    vardata = []
    for off in offsets:
        if off == 0:
            vardata.append(([], []))
            continue
        item_count, word_count, ri_count = struct.unpack_from(">HHH", data, off)
        pos = off + 6
        ris = list(struct.unpack_from(">%dH" % ri_count, data, pos))
        pos += 2 * ri_count
        long_words = bool(word_count & 0x8000)
        word_count &= 0x7FFF
        if word_count > ri_count:
            raise ValueError("wordDeltaCount %d > regionIndexCount %d" % (word_count, ri_count))
        big, small = ("l", "h") if long_words else ("h", "b")
        fmt_row = ">%d%s%d%s" % (word_count, big, ri_count - word_count, small)
        size = struct.calcsize(fmt_row)
        items = []
        for _ in range(item_count):
            items.append(list(struct.unpack_from(fmt_row, data, pos)))
            pos += size
        for ri in ris:
            if ri >= region_count:
                raise ValueError("region index %d out of range" % ri)
        vardata.append((ris, items))
    return regions, vardata


# ---------------------------------------------------------------------------
# gvar: inferred deltas for un-referenced points (IUP)


def _infer(t, pc, fc, pd, fd):
    """One coordinate of one target point: t target coordinate, pc/fc the
    coordinates and pd/fd the deltas of the preceding / following referenced
    point."""
    if pc == fc:
        return pd if pd == fd else ZERO
    if pc < fc:
        lo_c, hi_c, lo_d, hi_d = pc, fc, pd, fd
    else:
        lo_c, hi_c, lo_d, hi_d = fc, pc, fd, pd
    if t <= lo_c:
        return lo_d
    if t >= hi_c:
        return hi_d
    prop = (t - lo_c) / (hi_c - lo_c)
    return (1 - prop) * lo_d + prop * hi_d


def iup_contour(coords, deltas):
    n = len(coords)
    ref = [i for i, d in enumerate(deltas) if d is not None]
    if not ref:
        return [(ZERO, ZERO)] * n
    if len(ref) == 1:
        d = deltas[ref[0]]
        return [(Q(d[0]), Q(d[1]))] * n
    out = []
    for i in range(n):
        d = deltas[i]
        if d is not None:
            out.append((Q(d[0]), Q(d[1])))
            continue
        p = i
        while True:
            p = (p - 1) % n
            if deltas[p] is not None:
                break
        f = i
        while True:
            f = (f + 1) % n
            if deltas[f] is not None:
                break
        out.append(
            tuple(
                _infer(Q(coords[i][j]), Q(coords[p][j]), Q(coords[f][j]), Q(deltas[p][j]), Q(deltas[f][j]))
                for j in (0, 1)
            )
        )
    return out


def iup_glyph(coords, deltas, ends, phantoms=4):
    """coords/deltas cover all outline points followed by `phantoms` phantom
    points; ends = last point index of each contour.  Phantom points belong to
    no contour: an un-referenced one gets no delta."""
    n = len(coords)
    out = []
    start = 0
    for end in ends:
        out.extend(iup_contour(coords[start : end + 1], deltas[start : end + 1]))
        start = end + 1
    if start != n - phantoms:
        raise ValueError("contour ends do not cover the outline points")
    for i in range(start, n):
        d = deltas[i]
        out.append((ZERO, ZERO) if d is None else (Q(d[0]), Q(d[1])))
    return out
