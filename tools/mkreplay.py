#!/usr/bin/env python3
"""tools/mkreplay.py <ID> <file name> '<case json>' ['<note>'] : writes replays/<ID>/<name>.json for the replay tier
(a witness of a repaired defect or of a seeded change), with the specifications of generated fonts attached."""
import json, os, sys
sys.path.insert(0, os.path.dirname(os.path.dirname(os.path.abspath(__file__))))
from vf import runner
runner.bootstrap()
pid, name, case = sys.argv[1], sys.argv[2], json.loads(sys.argv[3])
note = sys.argv[4] if len(sys.argv) > 4 else ""
d = os.path.join(runner.VERIF, "replays", pid)
os.makedirs(d, exist_ok=True)
rec = dict(property=pid, case=case, note=note, gen_specs=runner._gen_specs_of(case))
json.dump(rec, open(os.path.join(d, name + ".json"), "w"), indent=1, sort_keys=True)
print("wrote", os.path.join(d, name + ".json"), "gen specs:", list(rec["gen_specs"]))
