"""C09 — variation arithmetic is exact.

Five groups of sub-checks, each with one function check_<group>(acc, case) that is
used by the enumerations, by the Hypothesis-driven generators and by replay:

  tent   instancer.solver.rebaseTent: the returned (scalar, tent) list, evaluated at the
         re-normalised point, equals the original tent at the old point
  model  VariationModel: interpolation at a master returns the master; getDeltas+getScalars
         == getMasterScalars weighting == exact reference
  store  OnlineVarStoreBuilder / VarStoreInstancer / VarStore.optimize / subset_varidxes /
         prune_regions / compile+decompile keep every item's value at every location
  mstore the same for OnlineMultiVarStoreBuilder / MultiVarStoreInstancer / MultiVarStore
         subset_varidxes (which prunes regions) / compile+decompile
  iup    iup_delta == reference IUP; iup_delta_optimize stays within tolerance
  tv     TupleVariation.optimize keeps the represented deltas (and is never larger)

The oracle is vf/ref_var.py (exact Fractions, written from the OpenType spec).  The
library computes in binary floating point (supportScalar starts from 1.0), so "equal"
is |implementation - exact| <= 1e-9 * scale (DESIGN 4a); values that the reference
computes on both sides (store contents before/after an operation) are compared with ==.
"""

import copy
import itertools
import random
import types
from fractions import Fraction

from vf import ref_var as R
from vf.ref_var import Q
from vf.runner import Acc, HarnessError, fingerprint, hyp_collect, subseed

ID = "C09"
LEVEL = "exploration"
RULE = (
    "rebaseTent: every well-formed tent on the 1/4 lattice of [-2,2] x every limit triple on the 1/4 lattice of "
    "[-1,1] enumerated exhaustively in both tiers (1/8 lattice in thorough), each compared at 65 equidistant points "
    "of the new range plus every break point (tent vertices, new default, pre-images of the returned tents' vertices) "
    "and the midpoints between them; further tents/limits generated on F2Dot14, 1/64, 1/100, 1/10, 1/12, 1/3 grids. "
    "Models: generated master sets (1-4 axes, origin at a random index, on-axis, corner and off-axis masters, sparse "
    "sub-models, random axisOrder) x integer/Fraction value vectors, evaluated at every master and at lattice points. "
    "Stores: OnlineVarStoreBuilder over 1-3 (sub-)models with byte/word/long-word/zero rows, evaluated on the 1/4 "
    "lattice (all points for <= 2 axes, masters + corners + 80 sampled for 3); OnlineMultiVarStoreBuilder stores with "
    "1-4-component items likewise. Contours: 0-3 contours of 1-12 points "
    "with duplicate/collinear points, constant/affine/IUP-derived/random integer deltas, tolerances 0..10. "
    "Non-trivial: tent overlapping but not containing the new range; >= 3 masters incl. one off-axis; store with >= 2 "
    "VarData after optimisation; contour with >= 1 omitted delta. Distinct by full case fingerprint."
)
ASSUMPTIONS = [
    "implementation results are binary floats: equality with the exact rational reference means |diff| <= 1e-9 * max(1, magnitudes involved)",
    "tents: lower <= peak <= upper within [-2,2], peak != 0, not straddling zero; lower == peak only if peak <= -1 and peak == upper only if peak >= 1 (continuity over the axis range)",
    "axis limits are normalised triples with pre-normalisation distances (1, 1); other distances are covered end-to-end by C08",
    "master locations are distinct, contain the origin, coordinates within [-1,1]; a sub-model always keeps the default master",
    "variation-store deltas fit int32 and region coordinates are F2Dot14-exact (needed for compile)",
    "iup_delta_optimize / TupleVariation.optimize: 'within tolerance' is the Euclidean distance of the (dx, dy) error, as the implementation documents",
    "quantization q > 1: every delta moves by at most q/2, so an item may move by at most (q/2) * sum of its region scalars at the location",
    "phantom points are not part of any contour: an un-referenced phantom point has delta 0",
]
WALL_BUDGET = {"quick": 1500, "thorough": 4 * 3600}  # ~45 s / ~13 min on 16 idle cores; generous because the box is shared

AXES = ["wght", "wdth", "opsz", "slnt"]
EPS = 1e-9


# ---------------------------------------------------------------------------
# small helpers


def _off(impl, exact, tol):
    """True when impl (a number produced by the library) is not within tol of exact."""
    try:
        d = abs(float(impl) - float(exact))
    except Exception:
        return True
    return not (d <= tol)


def _lib(acc, clause, case, fn, *a, **kw):
    """Call library code; an exception is a failure of `clause`."""
    try:
        return True, fn(*a, **kw)
    except (KeyboardInterrupt, MemoryError, HarnessError):
        raise
    except Exception as e:  # noqa: BLE001 - anything the library raises on valid input
        acc.fail_exc(clause, e, case)
        return False, None


# ---------------------------------------------------------------------------
# 1. rebaseTent


def lattice_tents(den):
    vals = range(-2 * den, 2 * den + 1)
    out = []
    for lo in vals:
        for pk in vals:
            if pk < lo or pk == 0:
                continue
            for up in vals:
                if up < pk:
                    continue
                if tent_ok(lo, pk, up, den):
                    out.append((lo, pk, up))
    return out


def tent_ok(lo, pk, up, den):
    if not (-2 * den <= lo <= pk <= up <= 2 * den) or pk == 0:
        return False
    if lo < 0 < up:
        return False  # straddles zero
    if lo == pk and not pk <= -den:
        return False
    if pk == up and not pk >= den:
        return False
    return True


def lattice_limits(den):
    vals = range(-den, den + 1)
    return [(a, b, c) for a in vals for b in vals if b >= a for c in vals if c >= b]


def tent_points(tq, lq, sols_q, uniform=64):
    """Old-normalised evaluation points inside the new range."""
    lo, de, hi = lq
    pts = {lo, de, hi}
    if hi > lo:
        step = (hi - lo) / uniform
        pts.update(lo + step * k for k in range(uniform + 1))
    brk = {lo, de, hi}
    for v in tq:
        if lo <= v <= hi:
            brk.add(v)
    for _s, t in sols_q:
        if t is None:
            continue
        for n in t:
            if -1 <= n <= 1:
                x = R.unrenormalize(n, lo, de, hi)
                if x is not None:
                    brk.add(x)
    brk = sorted(brk)
    pts.update(brk)
    pts.update((a + b) / 2 for a, b in zip(brk, brk[1:]))
    return sorted(pts)


def check_tent(acc, case):
    """case: dict(k='tent', den, tent=[lo,pk,up], lim=[min,def,max]) numerators over den.
    Returns (points evaluated, nontrivial, labels)."""
    from fontTools.varLib.instancer import NormalizedAxisTripleAndDistances, solver

    den = case["den"]
    tf = tuple(n / den for n in case["tent"])
    lf = tuple(n / den for n in case["lim"])
    tq = tuple(Q(v) for v in tf)
    lq = tuple(Q(v) for v in lf)
    ok, sols = _lib(acc, "rebaseTent", case, lambda: solver.rebaseTent(tf, NormalizedAxisTripleAndDistances(*lf)))
    if not ok:
        return 0, False, ["tent:exception"]
    try:
        sols_q = [(Q(s), None if t is None else (Q(t[0]), Q(t[1]), Q(t[2]))) for s, t in sols]
    except Exception as e:  # not numbers
        acc.fail("rebaseTent", "malformed-result", "%r (%s)" % (sols, e), case)
        return 0, False, ["tent:malformed"]
    lo, de, hi = lq
    pts = tent_points(tq, lq, sols_q)
    scale = max([1.0] + [abs(float(s)) for s, _ in sols_q])
    tol = EPS * scale
    for x in pts:
        want = R.axis_scalar(x, *tq)
        got = R.rebased_value(sols_q, R.renormalize(x, lo, de, hi))
        if _off(got, want, tol):
            acc.fail(
                "rebaseTent",
                "value-mismatch",
                "tent %r limits %r: at old coordinate %s (new %s) original tent gives %s, rebased sum gives %s; returned %r"
                % (tf, lf, x, R.renormalize(x, lo, de, hi), want, float(got), sols),
                case,
            )
            break
    overlaps = tq[0] < hi and lo < tq[2]
    contains = tq[0] <= lo and hi <= tq[2]
    labels = ["tent:n-out=%d" % len(sols)]
    if any(t is None for _, t in sols):
        labels.append("tent:gain")
    if lo == hi:
        labels.append("tent:pinned")
    if not overlaps:
        labels.append("tent:disjoint")
    elif contains:
        labels.append("tent:contains-range")
    else:
        labels.append("tent:partial-overlap")
    if abs(tq[1]) > 1:
        labels.append("tent:peak-beyond-1")
    return len(pts), bool(overlaps and not contains), labels


def _st_tent():
    from hypothesis import strategies as st

    @st.composite
    def s(draw):
        den = draw(st.sampled_from([16384, 16384, 16384, 64, 100, 10, 12, 3]))

        def num(lo, hi, special):
            sp = [v for v in special if lo <= v <= hi]
            opts = [st.integers(lo, hi)]
            if sp:
                opts.append(st.sampled_from(sp))
            return draw(st.one_of(*opts))

        special = [0, den, 2 * den, den // 2, 3 * den // 2, den // 4, 1, den - 1, den + 1]
        lo = num(0, 2 * den - 1, special)
        pk = num(lo + 1, 2 * den, special + [lo + 1])
        up = num(pk, 2 * den, special + [pk, pk + 1])
        if pk == up and pk < den:
            up = num(pk + 1, 2 * den, special)
        t = (lo, pk, up)
        lsp = [-den, 0, den, -den // 2, den // 2, lo, pk, up, lo + 1, pk - 1, pk + 1, up - 1]
        if lo < den and draw(st.integers(0, 4)) != 0:
            # the new range overlaps the tent's support: lo < axisMax and axisMin < up
            c = num(lo + 1, den, lsp)
            a = num(-den, min(c, up - 1), lsp)
        else:
            a = num(-den, den, lsp)
            c = num(a, den, lsp + [a])
        b = num(a, c, lsp + [a, c, 0])
        if a <= 0 <= c and draw(st.integers(0, 2)) == 0:
            b = 0  # the old default is kept
        if draw(st.booleans()):
            t = (-up, -pk, -lo)
            a, b, c = -c, -b, -a
        return dict(k="tent", den=den, tent=list(t), lim=[a, b, c])

    return s()


# ---------------------------------------------------------------------------
# 2. VariationModel


def _locdict(axes, loc, den, dense):
    return {ax: n / den for ax, n in zip(axes, loc) if dense or n != 0}


def _locq(axes, loc, den):
    return {ax: Q(n / den) for ax, n in zip(axes, loc) if n != 0}


def _eval_points(naxes, eseed, eden=8, limit=40):
    rnd = random.Random(eseed)
    vals = range(-eden, eden + 1)
    if (2 * eden + 1) ** naxes <= limit:
        return [list(p) for p in itertools.product(vals, repeat=naxes)]
    pts = set()
    while len(pts) < limit:
        r = rnd.random()
        if r < 0.3:
            pts.add(tuple(rnd.choice([-eden, 0, eden, eden // 2, -eden // 2]) for _ in range(naxes)))
        elif r < 0.5:
            p = [0] * naxes
            p[rnd.randrange(naxes)] = rnd.choice(vals)
            pts.add(tuple(p))
        else:
            pts.add(tuple(rnd.choice(vals) for _ in range(naxes)))
    return [list(p) for p in sorted(pts)]


def _check_one_model(acc, case, model, axes, locs_q, locs_f, values_list, eval_locs, tag):
    """model: the library object; locs_q/locs_f: master locations (Fractions w/o zeros / floats)
    in the caller's master order; values_list: list of value vectors; eval_locs: [(locq, locf)]."""
    clause = "model"
    n = len(locs_q)
    # supports as stored data
    try:
        supports = [{ax: (Q(t[0]), Q(t[1]), Q(t[2])) for ax, t in sup.items()} for sup in model.supports]
    except Exception as e:
        acc.fail(clause, "malformed-supports", "%s: %r" % (e, model.supports), case, tag)
        return False
    if len(supports) != n:
        acc.fail(clause, "support-count", "%d supports for %d masters" % (len(supports), n), case, tag)
        return False
    for sup in supports:
        if not R.region_is_wellformed(sup):
            acc.fail(clause, "support-not-a-valid-region", "%r" % (model.supports,), case, tag)
            return False
    # which master does each support belong to: the one at its peak
    order = []
    for sup in supports:
        peak = {ax: t[1] for ax, t in sup.items()}
        hits = [i for i, lq in enumerate(locs_q) if lq == peak]
        if len(hits) != 1:
            acc.fail(clause, "support-peak-not-a-master", "support %r, masters %r" % (sup, locs_f), case, tag)
            return False
        order.append(hits[0])
    if sorted(order) != list(range(n)):
        acc.fail(clause, "supports-not-one-per-master", "%r" % (order,), case, tag)
        return False
    M = R.support_matrix(supports, [locs_q[i] for i in order])
    tri, where = R.is_unit_lower_triangular(M)
    if not tri:
        k, j = where
        acc.fail(
            clause,
            "support-nonzero-at-earlier-master",
            "support of master %r has scalar %s at master %r (must be %d); masters %r supports %r"
            % (locs_f[order[j]], M[k][j], locs_f[order[k]], 1 if k == j else 0, locs_f, model.supports),
            case,
            tag,
        )
    good = True
    for values in values_list:
        scale = max([1.0] + [abs(float(v)) for v in values])
        D = None
        if tri:
            D = R.solve_deltas(M, [values[i] for i in order])
            scale = max([scale] + [abs(float(d)) for d in D])
        tol = EPS * scale
        ok, impl_d = _lib(acc, clause, case, model.getDeltas, list(values))
        if not ok:
            return False
        if D is not None:
            if len(impl_d) != n:
                acc.fail(clause, "getDeltas-length", "%d" % len(impl_d), case, tag)
                return False
            for k in range(n):
                if _off(impl_d[k], D[k], tol):
                    acc.fail(
                        clause,
                        "getDeltas-vs-reference",
                        "masters %r values %r: delta for master %r is %r, exact %s" % (locs_f, values, locs_f[order[k]], impl_d[k], D[k]),
                        case,
                        tag,
                    )
                    good = False
                    break
        # every master, then the other locations
        points = [(locs_q[i], locs_f[i], i) for i in range(n)] + [(lq, lf, None) for lq, lf in eval_locs]
        for lq, lf, mi in points:
            if D is not None:
                exact = R.evaluate(supports, D, lq)
                if mi is not None and exact != Q(values[mi]):
                    raise HarnessError("reference model does not reproduce a master: %r" % (case,))
            elif mi is not None:
                exact = Q(values[mi])
            else:
                continue
            ok, res = _lib(acc, clause, case, _model_eval, model, lf, list(values), impl_d)
            if not ok:
                return False
            for name, v in res.items():
                if name == "getScalars":
                    if D is None:
                        continue
                    for k, sup in enumerate(supports):
                        if _off(v[k], R.region_scalar(lq, sup), EPS):
                            acc.fail(clause, "getScalars-vs-reference", "at %r support %r: %r, exact %s" % (lf, model.supports[k], v[k], R.region_scalar(lq, sup)), case, tag)
                            good = False
                            break
                    continue
                if v is None or _off(v, exact, tol):
                    kind = "%s-%s" % (name, "at-master" if mi is not None else "vs-reference")
                    acc.fail(
                        clause,
                        kind,
                        "masters %r values %r: %s at %r gives %r, exact %s" % (locs_f, values, name, lf, v, exact),
                        case,
                        tag,
                    )
                    good = False
            if not good:
                break
    return good


def _model_eval(model, loc, values, deltas):
    """All public ways of evaluating the model at loc."""
    scalars = model.getScalars(loc)
    ms = model.getMasterScalars(loc)
    return {
        "getScalars": scalars,
        "interpolateFromMasters": model.interpolateFromMasters(loc, values),
        "interpolateFromDeltas": model.interpolateFromDeltas(loc, deltas),
        "getMasterScalars-weighting": sum(v * s for v, s in zip(values, ms)),
        "interpolateFromMastersAndScalars": model.interpolateFromMastersAndScalars(values, scalars),
        "getDeltas+getScalars": sum(d * s for d, s in zip(deltas, scalars)),
    }


def check_model(acc, case):
    """case: dict(k='model', axes, den, locs=[[num..]..] incl. origin, values=[[..]..], order, dense, mask, eseed)"""
    from fontTools.varLib.models import VariationModel

    axes, den, locs = case["axes"], case["den"], [list(l) for l in case["locs"]]
    dense = case["dense"]
    locs_f = [_locdict(axes, l, den, dense) for l in locs]
    locs_q = [_locq(axes, l, den) for l in locs]
    order = case.get("order")
    ok, model = _lib(acc, "model", case, lambda: VariationModel(locs_f, axisOrder=list(order) if order is not None else None))
    if not ok:
        return False, ["model:exception"]
    eden = 8
    ev = [({ax: Fraction(n, eden) for ax, n in zip(axes, p) if n}, {ax: n / eden for ax, n in zip(axes, p) if dense or n}) for p in _eval_points(len(axes), case["eseed"], eden)]
    values_list = [list(v) for v in case["values"]]
    _check_one_model(acc, case, model, axes, locs_q, locs_f, values_list, ev, "full")
    labels = ["model:axes=%d" % len(axes), "model:masters=%s" % (len(locs) if len(locs) < 6 else "6+")]
    ranks = [sum(1 for n in l if n) for l in locs]
    offaxis = any(r >= 2 for r in ranks)
    if offaxis:
        labels.append("model:off-axis")
    try:
        split = False
        for sup, loc in zip(model.supports, model.locations):
            for ax, (lo, pk, up) in sup.items():
                if (pk > 0 and (lo, up) != (0, 1)) or (pk < 0 and (lo, up) != (-1, 0)):
                    split = True
        if split:
            labels.append("model:box-split")
    except Exception:
        pass
    if any(isinstance(v, Fraction) for vs in values_list for v in vs):
        labels.append("model:fraction-values")
    mask = case.get("mask")
    if mask and not all(mask):
        items = [v if m else None for v, m in zip(values_list[0], mask)]
        ok, res = _lib(acc, "model", case, model.getSubModel, items)
        if ok:
            sub, subitems = res
            keep = [i for i, m in enumerate(mask) if m]
            if list(subitems) != [values_list[0][i] for i in keep]:
                acc.fail("model", "getSubModel-items", "%r -> %r" % (items, subitems), case, "sub")
            else:
                _check_one_model(acc, case, sub, axes, [locs_q[i] for i in keep], [locs_f[i] for i in keep], [list(subitems)], ev, "sub")
                ok, res = _lib(acc, "model", case, model.getDeltasAndSupports, items)
                if ok and (len(res[0]) != len(keep) or res[1] != sub.supports):
                    acc.fail("model", "getDeltasAndSupports-vs-submodel", "%r" % (res,), case, "sub")
            labels.append("model:submodel")
    return bool(len(locs) >= 3 and offaxis), labels


def _st_model_core(max_axes=4, dens=(4, 4, 4, 2, 1, 8, 10, 16384), max_extra=10, min_extra=0):
    from hypothesis import strategies as st

    @st.composite
    def s(draw):
        naxes = draw(st.sampled_from([a for a in (1, 1, 2, 2, 2, 3, 3, 4) if a <= max_axes]))
        axes = AXES[:naxes]
        den = draw(st.sampled_from(list(dens)))
        if den == 16384:
            coord = st.one_of(st.integers(-den, den), st.sampled_from([-den, den, 4096, -4096, 8192, -8192, 1, -1, 12288]))
        else:
            coord = st.integers(-den, den)
        nz = coord.filter(lambda v: v != 0)

        @st.composite
        def loc(draw):
            kind = draw(st.sampled_from(["on", "on", "corner", "general", "general"]))
            if kind == "on" or naxes == 1:
                p = [0] * naxes
                p[draw(st.integers(0, naxes - 1))] = draw(nz)
                return tuple(p)
            if kind == "corner":
                return tuple(draw(st.sampled_from([-den, den, den, 0])) for _ in range(naxes))
            return tuple(draw(st.one_of(coord, st.just(0))) for _ in range(naxes))

        feasible = (2 * den + 1) ** naxes - 1
        nextra = min(draw(st.sampled_from([n for n in (0, 1, 2, 2, 3, 3, 4, 5, 6, 8, 10) if min_extra <= n <= max_extra])), feasible)
        extra = draw(st.lists(loc().filter(lambda p: any(p)), unique=True, min_size=min(nextra, max(1, feasible // 3)) if nextra else 0, max_size=nextra))
        pos = draw(st.integers(0, len(extra)))
        locs = [list(p) for p in extra[:pos]] + [[0] * naxes] + [list(p) for p in extra[pos:]]
        order = draw(st.one_of(st.none(), st.permutations(axes).map(list), st.permutations(axes).map(lambda p: list(p)[:1])))
        mask = None
        if len(locs) >= 2 and draw(st.integers(0, 2)) == 0:
            mask = [True if i == pos else draw(st.booleans()) for i in range(len(locs))]
        return dict(axes=axes, den=den, locs=locs, order=order, dense=draw(st.booleans()), mask=mask, origin=pos)

    return s()


def _st_model():
    from hypothesis import strategies as st

    val = st.one_of(
        st.integers(-1000, 1000),
        st.integers(-1000, 1000),
        st.integers(-(10**6), 10**6),
        st.builds(Fraction, st.integers(-5000, 5000), st.sampled_from([2, 3, 7, 64, 10])),
    )

    @st.composite
    def s(draw):
        m = draw(_st_model_core())
        n = len(m["locs"])
        nvec = draw(st.integers(1, 2))
        values = [draw(st.lists(val, min_size=n, max_size=n)) for _ in range(nvec)]
        m.update(k="model", values=values, eseed=draw(st.integers(0, 2**32)))
        return m

    return s()


# ---------------------------------------------------------------------------
# 2b. histories over one VariationModel: sparse evaluations, reorderMasters, full evaluations.
# The model caches sub-models keyed by the None/not-None pattern of the items; reorderMasters permutes
# the master order. After any history every evaluation must still be the one the *current* master
# order and values define (reference: exact-rational solve on the returned supports).


def check_mhist(acc, case):
    """case: model core + values (one vector) + steps [["reorder", perm] | ["das", mask] | ["sub", mask] | ["full"]]"""
    from fontTools.varLib.models import VariationModel

    clause = "model-history"
    axes, den, locs = case["axes"], case["den"], [list(l) for l in case["locs"]]
    dense = case["dense"]
    cur_f = [_locdict(axes, l, den, dense) for l in locs]
    cur_q = [_locq(axes, l, den) for l in locs]
    order = case.get("order")
    ok, model = _lib(acc, clause, case, lambda: VariationModel(cur_f, axisOrder=list(order) if order is not None else None))
    if not ok:
        return False, ["mhist:exception"]
    eden = 8
    ev = [({ax: Fraction(n, eden) for ax, n in zip(axes, p) if n}, {ax: n / eden for ax, n in zip(axes, p) if dense or n}) for p in _eval_points(len(axes), case["eseed"], eden, limit=12)]
    vals = list(case["values"])
    labels = ["mhist:steps=%d" % len(case["steps"])]
    seen_patterns = {}
    reorders = 0
    interesting = False
    for si, step in enumerate(case["steps"]):
        op = step[0]
        tag = "step%d:%s" % (si, op)
        if op == "reorder":
            perm = list(step[1])
            ok, res = _lib(acc, clause, case, model.reorderMasters, list(vals), perm)
            if not ok:
                return False, labels
            want = [vals[i] for i in perm]
            if list(res) != want:
                acc.fail(clause, "reorderMasters-list", "%r -> %r, expected %r" % (vals, res, want), case, tag)
                return False, labels
            vals = want
            cur_q = [cur_q[i] for i in perm]
            cur_f = [cur_f[i] for i in perm]
            if perm != sorted(perm):
                reorders += 1
                labels.append("mhist:reorder")
        elif op == "full":
            if not _check_one_model(acc, case, model, axes, cur_q, cur_f, [list(vals)], ev, tag):
                return False, labels
        else:
            mask = list(step[1])
            keep = [i for i, m in enumerate(mask) if m]
            items = [v if m else None for v, m in zip(vals, mask)]
            pat = tuple(mask)
            if pat in seen_patterns and seen_patterns[pat] != reorders:
                interesting = True
                labels.append("mhist:same-sparse-pattern-after-reorder")
            seen_patterns[pat] = reorders
            if op == "sub":
                ok, res = _lib(acc, clause, case, model.getSubModel, items)
                if not ok:
                    return False, labels
                sub, subitems = res
                if list(subitems) != [vals[i] for i in keep]:
                    acc.fail(clause, "getSubModel-items", "%r -> %r" % (items, subitems), case, tag)
                    return False, labels
                if sub is model and not all(mask):
                    acc.fail(clause, "getSubModel-returned-full-model-for-sparse-items", "%r" % (items,), case, tag)
                    return False, labels
                if not _check_one_model(acc, case, sub, axes, [cur_q[i] for i in keep], [cur_f[i] for i in keep], [list(subitems)], ev, tag):
                    return False, labels
            else:  # das
                ok, res = _lib(acc, clause, case, model.getDeltasAndSupports, items)
                if not ok:
                    return False, labels
                deltas, sups = res
                try:
                    supports = [{ax: (Q(t[0]), Q(t[1]), Q(t[2])) for ax, t in sup.items()} for sup in sups]
                except Exception as e:
                    acc.fail(clause, "malformed-supports", "%s: %r" % (e, sups), case, tag)
                    return False, labels
                if len(deltas) != len(keep) or len(supports) != len(keep):
                    acc.fail(clause, "getDeltasAndSupports-length", "%d deltas, %d supports for %d supplied masters" % (len(deltas), len(supports), len(keep)), case, tag)
                    return False, labels
                scale = max([1.0] + [abs(float(v)) for v in vals] + [abs(float(d)) for d in deltas])
                for i in keep:
                    got = sum(Q(d) * R.region_scalar(cur_q[i], sup) for d, sup in zip(deltas, supports))
                    if _off(float(got), Q(vals[i]), EPS * scale * 10):
                        acc.fail(
                            clause,
                            "sparse-deltas-do-not-reproduce-master",
                            "masters %r, supplied %r: deltas %r x supports evaluate to %s at master %r, its value is %s" % (cur_f, items, deltas, float(got), cur_f[i], vals[i]),
                            case,
                            tag,
                        )
                        return False, labels
            labels.append("mhist:%s" % op)
    return bool(interesting or reorders), sorted(set(labels))


def _st_mhist():
    from hypothesis import strategies as st

    val = st.one_of(st.integers(-1000, 1000), st.builds(Fraction, st.integers(-5000, 5000), st.sampled_from([2, 3, 7])))

    @st.composite
    def s(draw):
        m = draw(_st_model_core(max_axes=3, dens=(4, 4, 2, 8), max_extra=6, min_extra=2))
        n = len(m["locs"])
        m.pop("mask", None)
        values = draw(st.lists(val, min_size=n, max_size=n))
        origin = m["origin"]
        # a small pool of sparse patterns (always keeping the default master, which moves with reorders),
        # so that the same pattern is likely to be asked again after a reorder
        steps = []
        cur_origin = origin
        pool = []
        nsteps = draw(st.integers(2, 7))
        for _ in range(nsteps):
            kind = draw(st.sampled_from(["das", "das", "sub", "reorder", "reorder", "full"]))
            if kind == "reorder":
                perm = draw(st.permutations(list(range(n))))
                steps.append(["reorder", list(perm)])
                cur_origin = list(perm).index(cur_origin)
                # patterns are positional: a pattern stays usable only if it keeps the (moved) default master
                continue
            if kind == "full":
                steps.append(["full"])
                continue
            usable = [p for p in pool if p[cur_origin]]
            if usable and draw(st.integers(0, 2)) > 0:
                mask = draw(st.sampled_from(usable))
            else:
                mask = [True if i == cur_origin else draw(st.booleans()) for i in range(n)]
                if all(mask):
                    mask[(cur_origin + 1) % n] = False
                pool.append(mask)
            steps.append([kind, list(mask)])
        m.update(k="mhist", values=values, steps=steps, eseed=draw(st.integers(0, 2**32)))
        return m

    return s()


# ---------------------------------------------------------------------------
# 3. variation store


def _plain(store):
    regions = [tuple((Q(a.StartCoord), Q(a.PeakCoord), Q(a.EndCoord)) for a in r.VarRegionAxis) for r in store.VarRegionList.Region]
    vardata = [(list(vd.VarRegionIndex), [list(it) for it in vd.Item]) for vd in store.VarData]
    return regions, vardata


def _count_fields(store):
    bad = []
    if store.VarRegionList.RegionCount != len(store.VarRegionList.Region):
        bad.append("RegionCount %r != %d" % (store.VarRegionList.RegionCount, len(store.VarRegionList.Region)))
    if store.VarDataCount != len(store.VarData):
        bad.append("VarDataCount %r != %d" % (store.VarDataCount, len(store.VarData)))
    for i, vd in enumerate(store.VarData):
        if vd.ItemCount != len(vd.Item):
            bad.append("VarData[%d].ItemCount %r != %d" % (i, vd.ItemCount, len(vd.Item)))
        if vd.VarRegionCount != len(vd.VarRegionIndex):
            bad.append("VarData[%d].VarRegionCount %r != %d" % (i, vd.VarRegionCount, len(vd.VarRegionIndex)))
    return bad


class _Eval:
    """Exact evaluation of plain stores at a fixed list of location vectors."""

    def __init__(self, loc_vecs):
        self.locs = loc_vecs
        self.cache = {}

    def region(self, reg):
        s = self.cache.get(reg)
        if s is None:
            s = self.cache[reg] = tuple(R.store_region_scalars([reg], lv)[0] for lv in self.locs)
        return s

    def item(self, plain, varidx):
        """tuple of exact values over the locations, or a str describing why not."""
        regions, vardata = plain
        if varidx == R.NO_VARIATION_INDEX:
            return (R.ZERO,) * len(self.locs)
        outer, inner = varidx >> 16, varidx & 0xFFFF
        if outer >= len(vardata) or inner >= len(vardata[outer][1]):
            return "index %d:%d not in store" % (outer, inner)
        ris, items = vardata[outer]
        row = items[inner]
        if len(row) != len(ris) or any(ri >= len(regions) for ri in ris):
            return "row %r does not fit region indexes %r (of %d regions)" % (row, ris, len(regions))
        if any(not isinstance(d, int) for d in row):
            return "non-integer delta in %r" % (row,)
        cols = [(d, self.region(regions[ri])) for ri, d in zip(ris, row) if d]
        return tuple(sum((d * s[l] for d, s in cols), R.ZERO) for l in range(len(self.locs)))

    def mass(self, plain, varidx):
        """sum of the region scalars of the item's row, per location."""
        regions, vardata = plain
        ris, _ = vardata[varidx >> 16]
        cols = [self.region(regions[ri]) for ri in ris]
        return tuple(sum((s[l] for s in cols), R.ZERO) for l in range(len(self.locs)))


def _store_locs(naxes, master_vecs, eseed):
    vals = [Fraction(k, 4) for k in range(-4, 5)]
    if naxes <= 2:
        pts = set(itertools.product(vals, repeat=naxes))
    else:
        rnd = random.Random(eseed)
        pts = set(itertools.product([Fraction(-1), Fraction(0), Fraction(1)], repeat=naxes))
        while len(pts) < 27 + 80:
            pts.add(tuple(rnd.choice(vals) for _ in range(naxes)))
    pts.update(master_vecs)
    return sorted(pts)


def _compare_items(acc, case, clause, kind, ev, plain_new, V0, mapping, idxs, what, bound=None, plain_old=None):
    """Every idx of idxs, looked up through mapping, must have the same values in plain_new."""
    for idx in idxs:
        if idx not in mapping:
            acc.fail(clause, kind + ":index-not-in-map", "%s: item %#x missing from the returned map" % (what, idx), case)
            return False
        new = ev.item(plain_new, mapping[idx])
        if isinstance(new, str):
            acc.fail(clause, kind + ":bad-index", "%s: item %#x -> %#x: %s" % (what, idx, mapping[idx], new), case)
            return False
        old = V0[idx]
        if bound is None:
            if new != old:
                l = next(i for i in range(len(old)) if old[i] != new[i])
                acc.fail(
                    clause,
                    kind + ":value-changed",
                    "%s: item %#x -> %#x at location %r was %s, now %s" % (what, idx, mapping[idx], [str(v) for v in ev.locs[l]], old[l], new[l]),
                    case,
                )
                return False
        else:
            mass = ev.mass(plain_old, idx)
            for l in range(len(old)):
                if abs(new[l] - old[l]) > bound * mass[l]:
                    acc.fail(
                        clause,
                        kind + ":beyond-quantum",
                        "%s: item %#x -> %#x at %r was %s, now %s, allowed %s" % (what, idx, mapping[idx], [str(v) for v in ev.locs[l]], old[l], new[l], bound * mass[l]),
                        case,
                    )
                    return False
    return True


def check_store(acc, case):
    """case: dict(k='store', axes, den, locs, order, dense, groups=[{mask, items}], opt={nvi,q}, sub={keep,optimize,retain,adv},
    prune={pad,drop}, eseed)"""
    from fontTools.ttLib import TTFont
    from fontTools.ttLib.tables.otBase import OTTableReader, OTTableWriter
    from fontTools.ttLib.tables.otTables import VarStore
    from fontTools.varLib.builder import buildVarRegion
    from fontTools.varLib.models import VariationModel
    from fontTools.varLib.varStore import OnlineVarStoreBuilder, VarStoreInstancer

    axes, den, locs = case["axes"], case["den"], [list(l) for l in case["locs"]]
    naxes = len(axes)
    locs_f = [_locdict(axes, l, den, case["dense"]) for l in locs]
    order = case.get("order")
    labels = ["store:axes=%d" % naxes]
    ok, model = _lib(acc, "store-build", case, lambda: VariationModel(locs_f, axisOrder=list(order) if order is not None else None))
    if not ok:
        return False, labels
    master_vecs = [tuple(Q(n / den) for n in l) for l in locs]
    ev = _Eval(_store_locs(naxes, master_vecs, case["eseed"]))
    loc_index = {lv: i for i, lv in enumerate(ev.locs)}

    # ---- build
    def build():
        b = OnlineVarStoreBuilder(list(axes))
        recs = []
        for g in case["groups"]:
            mask = g["mask"] or [True] * len(locs)
            keep = [i for i, m in enumerate(mask) if m]
            sub, _ = model.getSubModel([0 if m else None for m in mask])
            b.setModel(sub)
            for vals in g["items"]:
                mv = [vals[i] for i in keep]
                base, idx = b.storeMasters(mv)
                recs.append(dict(idx=idx, base=base, sub=sub, keep=keep, mv=mv, rd=sub.getDeltas(mv, round=round)))
        return b.finish(), recs

    ok, res = _lib(acc, "store-build", case, build)
    if not ok:
        return False, labels
    store, recs = res
    bad = _count_fields(store)
    if bad:
        acc.fail("store-build", "count-fields", "; ".join(bad), case)
    plain0 = _plain(store)
    idxs = sorted({r["idx"] for r in recs})
    V0 = {}
    for r in recs:
        v = ev.item(plain0, r["idx"])
        if isinstance(v, str):
            acc.fail("store-build", "bad-index", "storeMasters returned %#x: %s" % (r["idx"], v), case)
            return False, labels
        V0[r["idx"]] = v
        # the stored regions/deltas are the (sub-)model's supports and rounded deltas
        sups = [{ax: (Q(t[0]), Q(t[1]), Q(t[2])) for ax, t in sup.items()} for sup in r["sub"].supports]
        rd = r["rd"]
        if any(not isinstance(d, int) for d in rd):
            acc.fail("store-build", "unrounded-delta", "%r" % (rd,), case)
            return False, labels
        scale = max([1.0] + [abs(float(x)) for x in r["mv"]] + [abs(float(d)) for d in rd])
        for l, lv in enumerate(ev.locs):
            lq = {ax: c for ax, c in zip(axes, lv) if c}
            want = R.evaluate(sups[1:], rd[1:], lq)
            if want != v[l]:
                acc.fail(
                    "store-build",
                    "store-vs-model-deltas",
                    "item %#x (masters %r) at %r: store gives %s, supports x rounded deltas give %s" % (r["idx"], r["mv"], [str(c) for c in lv], v[l], want),
                    case,
                )
                return False, labels
        if r["base"] != rd[0]:
            acc.fail("store-build", "base-value", "base %r, first delta %r" % (r["base"], rd[0]), case)
        for i, mval in zip(r["keep"], r["mv"]):
            got = r["base"] + v[loc_index[master_vecs[i]]]
            if abs(got - mval) > Fraction(1, 2) + Q(EPS * scale):
                acc.fail(
                    "store-build",
                    "master-not-reproduced-within-rounding",
                    "item %#x masters %r: at master %r base+delta = %s, master value %r" % (r["idx"], r["mv"], locs_f[i], got, mval),
                    case,
                )
                return False, labels
    # ---- the library's own evaluator
    fvar_axes = [types.SimpleNamespace(axisTag=a) for a in axes]

    def instancer_values():
        inst = VarStoreInstancer(store, fvar_axes)
        out = {}
        for l, lv in enumerate(ev.locs):
            inst.setLocation({ax: float(c) for ax, c in zip(axes, lv) if c or case["dense"]})
            for idx in idxs:
                out[idx, l] = inst[idx]
        return out

    ok, iv = _lib(acc, "store-instancer", case, instancer_values)
    if ok:
        done = False
        for (idx, l), v in iv.items():
            scale = max([1.0] + [abs(d) for d in plain0[1][idx >> 16][1][idx & 0xFFFF]])
            if _off(v, V0[idx][l], EPS * scale):
                acc.fail("store-instancer", "value-vs-reference", "item %#x at %r: %r, exact %s" % (idx, [str(c) for c in ev.locs[l]], v, V0[idx][l]), case)
                done = True
            if done:
                break
    nrows = sum(len(it) for _, it in plain0[1])
    labels.append("store:vardata-in=%d" % min(len(plain0[1]), 3))
    if any(abs(d) > 32767 for _, its in plain0[1] for it in its for d in it):
        labels.append("store:long-words")

    # ---- optimize
    o = case["opt"]
    s1 = copy.deepcopy(store)
    ok, m1 = _lib(acc, "store-optimize", case, lambda: s1.optimize(use_NO_VARIATION_INDEX=o["nvi"], quantization=o["q"]))
    nontrivial = False
    if ok:
        bad = _count_fields(s1)
        if bad:
            acc.fail("store-optimize", "count-fields", "; ".join(bad), case)
        p1 = _plain(s1)
        what = "optimize(use_NO_VARIATION_INDEX=%r, quantization=%r)" % (o["nvi"], o["q"])
        if o["q"] == 1:
            _compare_items(acc, case, "store-optimize", "q=1", ev, p1, V0, m1, idxs, what)
        else:
            _compare_items(acc, case, "store-optimize", "q>1", ev, p1, V0, m1, idxs, what, bound=Fraction(o["q"], 2), plain_old=plain0)
        used = {ri for ris, _ in p1[1] for ri in ris}
        if used != set(range(len(p1[0]))):
            acc.fail("store-optimize", "unused-region-left", "regions %d, used %r" % (len(p1[0]), sorted(used)), case)
        nontrivial = len(p1[1]) >= 2
        labels.append("store:vardata-after-opt=%d" % min(len(p1[1]), 3))
        labels.append("store:quantization=%s" % ("1" if o["q"] == 1 else ">1"))
        if any(m1.get(i) == R.NO_VARIATION_INDEX for i in idxs):
            labels.append("store:no-variation-index")
        # compile/decompile of the optimised store (column reordering, NumShorts, long words)
        _check_compile(acc, case, s1, ev, {i: V0[i] for i in idxs} if o["q"] == 1 else None, m1, idxs, "optimised")

    # ---- compile/decompile of the store as built
    _check_compile(acc, case, store, ev, V0, {i: i for i in idxs}, idxs, "as built")

    # ---- subset_varidxes
    sb = case["sub"]
    keep = [idx for idx, k in zip(idxs, itertools.cycle(sb["keep"])) if k]
    adv = {idx & 0xFFFF for idx, a in zip(idxs, itertools.cycle(sb["adv"])) if a and idx in keep and idx >> 16 == 0}
    s2 = copy.deepcopy(store)
    arg = set(keep) | ({R.NO_VARIATION_INDEX} if sb["retain"] else set())
    ok, m2 = _lib(acc, "store-subset", case, lambda: s2.subset_varidxes(arg, optimize=sb["optimize"], retainFirstMap=sb["retain"], advIdxes=set(adv)))
    if ok:
        bad = _count_fields(s2)
        if bad:
            acc.fail("store-subset", "count-fields", "; ".join(bad), case)
        p2 = _plain(s2)
        what = "subset_varidxes(%r, optimize=%r, retainFirstMap=%r, advIdxes=%r)" % (sorted(keep), sb["optimize"], sb["retain"], sorted(adv))
        _compare_items(acc, case, "store-subset", "subset", ev, p2, V0, m2, keep, what)
        if adv and not sb["retain"]:
            first = sorted(m2[a] for a in adv if a in m2)
            if first != list(range(len(adv))):
                acc.fail("store-subset", "advIdxes-not-first", "%s: advance items mapped to %r" % (what, first), case)
        labels.append("store:subset-kept=%s" % ("all" if len(keep) == len(idxs) else "none" if not keep else "some"))
        if sb["retain"]:
            labels.append("store:retainFirstMap")

    # ---- prune_regions
    pr = case["prune"]
    s3 = copy.deepcopy(store)
    for _ in range(pr["pad"]):
        s3.VarRegionList.Region.insert(0, buildVarRegion({axes[0]: (0.0, 0.5, 1.0)}, list(axes)))
        for vd in s3.VarData:
            vd.VarRegionIndex = [ri + 1 for ri in vd.VarRegionIndex]
    s3.VarRegionList.RegionCount = len(s3.VarRegionList.Region)
    remaining = idxs
    if pr["drop"] and len(s3.VarData) >= 2:
        del s3.VarData[-1]
        s3.VarDataCount = len(s3.VarData)
        remaining = [i for i in idxs if i >> 16 < len(s3.VarData)]
        labels.append("store:prune-after-dropping-vardata")
    ident = {i: i for i in remaining}
    pre = _plain(s3)
    for i in remaining:
        if ev.item(pre, i) != V0[i]:
            raise HarnessError("padding the region list changed item %#x: %r" % (i, case))
    ok, _ = _lib(acc, "store-prune", case, s3.prune_regions)
    if ok:
        bad = _count_fields(s3)
        if bad:
            acc.fail("store-prune", "count-fields", "; ".join(bad), case)
        p3 = _plain(s3)
        _compare_items(acc, case, "store-prune", "prune", ev, p3, V0, ident, remaining, "prune_regions (pad %d, drop %r)" % (pr["pad"], pr["drop"]))
        used = {ri for ris, _ in p3[1] for ri in ris}
        if used != set(range(len(p3[0]))):
            acc.fail("store-prune", "unused-region-left", "regions %d, used %r" % (len(p3[0]), sorted(used)), case)
        if len(p3[0]) < len(pre[0]):
            labels.append("store:prune-removed-regions")
    labels.append("store:rows=%s" % ("1-4" if nrows <= 4 else "5-12" if nrows <= 12 else "13+"))
    return nontrivial, labels


def _check_compile(acc, case, store, ev, V, mapping, idxs, what):
    from fontTools.ttLib import TTFont
    from fontTools.ttLib.tables.otBase import OTTableReader, OTTableWriter
    from fontTools.ttLib.tables.otTables import VarStore

    clause = "store-compile"
    if V is None:  # quantised: compare against the optimised store itself
        p = _plain(store)
        V = {}
        for i in idxs:
            v = ev.item(p, mapping.get(i, R.NO_VARIATION_INDEX))
            if isinstance(v, str):
                return
            V[i] = v
    font = TTFont()
    s = copy.deepcopy(store)

    def comp():
        w = OTTableWriter()
        s.compile(w, font)
        return w.getAllData()

    ok, data = _lib(acc, clause, case, comp)
    if not ok:
        return
    try:
        parsed = R.parse_item_variation_store(data)
    except Exception as e:
        acc.fail(clause, "compiled-store-unparsable", "%s store: %s: %s; data %s" % (what, type(e).__name__, e, data.hex()[:200]), case)
        parsed = None
    if parsed is not None:
        parsed = ([tuple(r) for r in parsed[0]], parsed[1])
        _compare_items(acc, case, clause, "binary(%s)" % what, ev, parsed, V, mapping, idxs, "compile of the %s store, parsed by the reference" % what)

    def decomp():
        s2 = VarStore()
        s2.decompile(OTTableReader(data), font)
        return s2

    ok, s2 = _lib(acc, clause, case, decomp)
    if ok:
        _compare_items(acc, case, clause, "decompile(%s)" % what, ev, _plain(s2), V, mapping, idxs, "compile+decompile of the %s store" % what)
        bad = _count_fields(s2)
        if bad:
            acc.fail(clause, "count-fields", "; ".join(bad), case)


def _st_store():
    from hypothesis import strategies as st

    def value(kind):
        return {
            "same": st.just(0),
            "small": st.integers(-60, 60),
            "byte-edge": st.sampled_from([-129, -128, 127, 128, 126, -127]),
            "medium": st.integers(-3000, 3000),
            "word-edge": st.sampled_from([-32769, -32768, 32767, 32768]),
            "large": st.integers(-200000, 200000),
        }[kind]

    @st.composite
    def s(draw):
        m = draw(_st_model_core(max_axes=3, dens=(4, 4, 4, 2, 1, 8, 16384), max_extra=6, min_extra=1))
        n = len(m["locs"])
        pos = m.pop("origin")
        m.pop("mask")
        ngroups = draw(st.sampled_from([1, 1, 2, 3]))
        groups = []
        for g in range(ngroups):
            mask = None
            if g > 0 and n >= 2:
                mask = [True if i == pos else draw(st.booleans()) for i in range(n)]
            nitems = draw(st.sampled_from([1, 2, 3, 5, 8, 8, 14, 14, 24]))
            # a column profile per group so that rows share byte/word characteristics
            prof = [draw(st.sampled_from(["same", "small", "small", "medium", "large", "byte-edge", "word-edge"])) for _ in range(n)]
            items = []
            for _ in range(nitems):
                base = draw(st.integers(-1000, 1000))
                row = []
                for i in range(n):
                    kind = prof[i] if draw(st.integers(0, 5)) else draw(st.sampled_from(["same", "small", "medium", "large"]))
                    row.append(base + draw(value(kind)))
                row[pos] = base
                items.append(row)
            groups.append(dict(mask=mask, items=items))
        m.update(
            k="store",
            groups=groups,
            opt=dict(nvi=draw(st.booleans()), q=draw(st.sampled_from([1, 1, 1, 1, 2, 3, 8, 64]))),
            sub=dict(
                keep=draw(st.lists(st.sampled_from([True, True, True, False]), min_size=1, max_size=7)),
                adv=draw(st.lists(st.booleans(), min_size=1, max_size=5)),
                optimize=draw(st.booleans()),
                retain=draw(st.sampled_from([False, False, True])),
            ),
            prune=dict(pad=draw(st.integers(0, 2)), drop=draw(st.booleans())),
            eseed=draw(st.integers(0, 2**32)),
        )
        return m

    return s()


# ---------------------------------------------------------------------------
# 3b. multi variation store (tuple-valued items, sparse regions; VARC)


def _mplain(store, naxes):
    regions = []
    for r in store.SparseVarRegionList.Region:
        reg = [(R.ZERO, R.ZERO, R.ZERO)] * naxes  # an axis that is not listed does not participate
        for a in r.SparseVarRegionAxis:
            reg[a.AxisIndex] = (Q(a.StartCoord), Q(a.PeakCoord), Q(a.EndCoord))
        regions.append(tuple(reg))
    vardata = [(list(vd.VarRegionIndex), [list(it) for it in vd.Item]) for vd in store.MultiVarData]
    return regions, vardata


def _mitem(ev, plain, varidx, m):
    """tuple over locations of m-tuples, or str"""
    regions, vardata = plain
    if varidx == R.NO_VARIATION_INDEX:
        return ((R.ZERO,) * m,) * len(ev.locs)
    outer, inner = varidx >> 16, varidx & 0xFFFF
    if outer >= len(vardata) or inner >= len(vardata[outer][1]):
        return "index %d:%d not in store" % (outer, inner)
    ris, items = vardata[outer]
    row = items[inner]
    if len(row) != m * len(ris) or any(ri >= len(regions) for ri in ris) or any(not isinstance(d, int) for d in row):
        return "row %r does not hold %d-tuples for region indexes %r (of %d regions)" % (row, m, ris, len(regions))
    cols = [(row[k * m : (k + 1) * m], ev.region(regions[ri])) for k, ri in enumerate(ris)]
    return tuple(tuple(sum((d[c] * s[l] for d, s in cols if d[c]), R.ZERO) for c in range(m)) for l in range(len(ev.locs)))


def check_mstore(acc, case):
    """case: dict(k='mstore', axes, den, locs, order, dense, items=[[[int..] per master]..], keep=[bool..], eseed)"""
    from fontTools.misc.vector import Vector
    from fontTools.ttLib import TTFont
    from fontTools.ttLib.tables.otBase import OTTableReader, OTTableWriter
    from fontTools.ttLib.tables.otTables import MultiVarStore
    from fontTools.varLib.models import VariationModel
    from fontTools.varLib.multiVarStore import MultiVarStoreInstancer, OnlineMultiVarStoreBuilder

    axes, den, locs = case["axes"], case["den"], [list(l) for l in case["locs"]]
    naxes = len(axes)
    locs_f = [_locdict(axes, l, den, case["dense"]) for l in locs]
    order = case.get("order")
    labels = ["mstore:axes=%d" % naxes]
    ok, model = _lib(acc, "mstore-build", case, lambda: VariationModel(locs_f, axisOrder=list(order) if order is not None else None))
    if not ok:
        return False, labels
    master_vecs = [tuple(Q(n / den) for n in l) for l in locs]
    ev = _Eval(_store_locs(naxes, master_vecs, case["eseed"]))
    loc_index = {lv: i for i, lv in enumerate(ev.locs)}

    def build():
        b = OnlineMultiVarStoreBuilder(list(axes))
        b.setModel(model)
        recs = []
        for item in case["items"]:
            mv = [Vector(v) for v in item]
            base, idx = b.storeMasters(mv)
            recs.append(dict(idx=idx, base=tuple(base), mv=[tuple(v) for v in item], rd=[tuple(d) for d in model.getDeltas(mv, round=round)]))
        return b.finish(), recs

    ok, res = _lib(acc, "mstore-build", case, build)
    if not ok:
        return False, labels
    store, recs = res
    plain0 = _mplain(store, naxes)
    sups = [{ax: (Q(t[0]), Q(t[1]), Q(t[2])) for ax, t in sup.items()} for sup in model.supports]
    V0, M = {}, {}
    for r in recs:
        m = len(r["mv"][0])
        v = _mitem(ev, plain0, r["idx"], m)
        if isinstance(v, str):
            acc.fail("mstore-build", "bad-index", "storeMasters returned %#x: %s" % (r["idx"], v), case)
            return False, labels
        if any(not isinstance(x, int) for d in r["rd"] for x in d):
            acc.fail("mstore-build", "unrounded-delta", "%r" % (r["rd"],), case)
            return False, labels
        for l, lv in enumerate(ev.locs):
            lq = {ax: c for ax, c in zip(axes, lv) if c}
            want = tuple(R.evaluate(sups[1:], [d[c] for d in r["rd"][1:]], lq) for c in range(m))
            if want != v[l]:
                acc.fail("mstore-build", "store-vs-model-deltas", "item %#x (masters %r) at %r: store gives %r, supports x rounded deltas give %r" % (r["idx"], r["mv"], [str(c) for c in lv], [str(x) for x in v[l]], [str(x) for x in want]), case)
                return False, labels
        for i, mval in enumerate(r["mv"]):
            got = v[loc_index[master_vecs[i]]]
            if any(abs(r["base"][c] + got[c] - mval[c]) > Fraction(1, 2) + Q(EPS * max(1, abs(mval[c]))) for c in range(m)):
                acc.fail("mstore-build", "master-not-reproduced-within-rounding", "item %#x masters %r: at master %r base+delta = %r" % (r["idx"], r["mv"], locs_f[i], [str(r["base"][c] + got[c]) for c in range(m)]), case)
                return False, labels
        if r["idx"] != R.NO_VARIATION_INDEX:
            V0[r["idx"]] = v
            M[r["idx"]] = m
        else:
            labels.append("mstore:no-variation-index")
    idxs = sorted(V0)
    fvar_axes = [types.SimpleNamespace(axisTag=a) for a in axes]

    def instancer_values():
        inst = MultiVarStoreInstancer(store, fvar_axes)
        out = {}
        for l, lv in enumerate(ev.locs):
            inst.setLocation({ax: float(c) for ax, c in zip(axes, lv) if c or case["dense"]})
            for idx in idxs:
                out[idx, l] = tuple(inst[idx])
        return out

    ok, iv = _lib(acc, "mstore-instancer", case, instancer_values)
    if ok:
        for (idx, l), v in iv.items():
            scale = max([1.0] + [abs(d) for d in plain0[1][idx >> 16][1][idx & 0xFFFF]])
            if len(v) != M[idx] or any(_off(a, b, EPS * scale) for a, b in zip(v, V0[idx][l])):
                acc.fail("mstore-instancer", "value-vs-reference", "item %#x at %r: %r, exact %r" % (idx, [str(c) for c in ev.locs[l]], v, [str(x) for x in V0[idx][l]]), case)
                break

    def compare(clause, kind, plain, mapping, which, what):
        for idx in which:
            if idx not in mapping:
                acc.fail(clause, kind + ":index-not-in-map", "%s: item %#x missing from the returned map" % (what, idx), case)
                return
            new = _mitem(ev, plain, mapping[idx], M[idx])
            if isinstance(new, str):
                acc.fail(clause, kind + ":bad-index", "%s: item %#x -> %#x: %s" % (what, idx, mapping[idx], new), case)
                return
            if new != V0[idx]:
                l = next(i for i in range(len(new)) if new[i] != V0[idx][i])
                acc.fail(clause, kind + ":value-changed", "%s: item %#x -> %#x at %r was %r, now %r" % (what, idx, mapping[idx], [str(c) for c in ev.locs[l]], [str(x) for x in V0[idx][l]], [str(x) for x in new[l]]), case)
                return

    # compile + decompile
    font = TTFont()

    def roundtrip():
        s = copy.deepcopy(store)
        w = OTTableWriter()
        s.compile(w, font)
        s2 = MultiVarStore()
        s2.decompile(OTTableReader(w.getAllData()), font)
        return _mplain(s2, naxes)

    ok, p = _lib(acc, "mstore-compile", case, roundtrip)
    if ok:
        compare("mstore-compile", "decompile", p, {i: i for i in idxs}, idxs, "compile+decompile")
    # subset (prunes regions)
    keep = [idx for idx, k in zip(idxs, itertools.cycle(case["keep"])) if k]
    s2 = copy.deepcopy(store)
    ok, mp = _lib(acc, "mstore-subset", case, lambda: s2.subset_varidxes(set(keep)))
    if ok:
        p2 = _mplain(s2, naxes)
        compare("mstore-subset", "subset", p2, mp, keep, "subset_varidxes(%r)" % (sorted(keep),))
        used = {ri for ris, _ in p2[1] for ri in ris}
        if used != set(range(len(p2[0]))):
            acc.fail("mstore-subset", "unused-region-left", "regions %d, used %r" % (len(p2[0]), sorted(used)), case)
        if len(p2[0]) < len(plain0[0]):
            labels.append("mstore:subset-removed-regions")
    labels.append("mstore:vardata=%d" % min(len(plain0[1]), 3))
    return bool(len(idxs) >= 2 and len(locs) >= 3), labels


def _st_mstore():
    from hypothesis import strategies as st

    @st.composite
    def s(draw):
        m = draw(_st_model_core(max_axes=3, dens=(4, 4, 2, 1, 8, 16384), max_extra=5, min_extra=1))
        n = len(m["locs"])
        m.pop("origin")
        m.pop("mask")
        items = []
        for _ in range(draw(st.integers(1, 6))):
            width = draw(st.integers(1, 4))
            comp = st.one_of(st.integers(-50, 50), st.integers(-3000, 3000), st.just(0))
            base = [draw(comp) for _ in range(width)]
            rows = []
            for i in range(n):
                rows.append([b + (draw(comp) if draw(st.integers(0, 2)) else 0) for b in base])
            items.append(rows)
        m.update(k="mstore", items=items, keep=draw(st.lists(st.sampled_from([True, True, False]), min_size=1, max_size=5)), eseed=draw(st.integers(0, 2**32)))
        return m

    return s()


# ---------------------------------------------------------------------------
# 4./5. IUP and TupleVariation.optimize


def _glyph(case):
    coords = [tuple(p) for c in case["contours"] for p in c] + [tuple(p) for p in case["phantom"]]
    ends = []
    n = 0
    for c in case["contours"]:
        n += len(c)
        ends.append(n - 1)
    deltas = [tuple(d) for d in case["deltas"]]
    return coords, ends, deltas


def _within(ref_deltas, orig, tol):
    """index of the first delta whose Euclidean error exceeds tol (+ float slack), or None"""
    scale = max([1.0] + [abs(float(c)) for d in orig for c in d])
    lim = Q(tol) + Q(EPS * scale)
    lim2 = lim * lim
    for i, (r, o) in enumerate(zip(ref_deltas, orig)):
        ex, ey = r[0] - Q(o[0]), r[1] - Q(o[1])
        if ex * ex + ey * ey > lim2:
            return i
    return None


def check_iup(acc, case):
    """case: dict(k='iup', contours=[[[x,y]..]..], phantom=[[x,y]*4], deltas=[[dx,dy]..], mask=[bool..], tol)"""
    from fontTools.varLib import iup

    coords, ends, deltas = _glyph(case)
    n = len(coords)
    labels = []
    scale = max([1.0] + [abs(float(c)) for d in deltas for c in d])
    # (i) iup_delta with the masked deltas
    mask = list(itertools.islice(itertools.cycle(case["mask"]), n))
    sparse = [d if m else None for d, m in zip(deltas, mask)]
    want = R.iup_glyph(coords, sparse, ends)
    ok, got = _lib(acc, "iup_delta", case, lambda: list(iup.iup_delta(list(sparse), list(coords), list(ends))))
    inferred = 0
    if ok:
        if len(got) != n:
            acc.fail("iup_delta", "length", "%d deltas for %d points" % (len(got), n), case)
        else:
            for i in range(n):
                if sparse[i] is None:
                    inferred += 1
                g = got[i]
                if g is None or len(g) != 2 or _off(g[0], want[i][0], EPS * scale) or _off(g[1], want[i][1], EPS * scale):
                    acc.fail(
                        "iup_delta",
                        "vs-reference" if sparse[i] is None else "explicit-delta-changed",
                        "coords %r ends %r deltas %r: point %d gets %r, reference (%s, %s)" % (coords, ends, sparse, i, g, want[i][0], want[i][1]),
                        case,
                    )
                    break
    if inferred:
        labels.append("iup:inferred>=1")
    # (ii) optimise, then the reference IUP must stay within tolerance
    tol = case["tol"]
    ok, opt = _lib(acc, "iup_optimize", case, lambda: list(iup.iup_delta_optimize(list(deltas), list(coords), list(ends), tolerance=tol)))
    omitted = 0
    if ok:
        omitted = _check_optimized(acc, case, "iup_optimize", coords, ends, deltas, opt, tol)
        if omitted:
            ok, back = _lib(acc, "iup_optimize", case, lambda: list(iup.iup_delta(list(opt), list(coords), list(ends))))
            if ok:
                ref = R.iup_glyph(coords, opt, ends)
                for i in range(n):
                    if _off(back[i][0], ref[i][0], EPS * scale) or _off(back[i][1], ref[i][1], EPS * scale):
                        acc.fail("iup_optimize", "iup_delta-of-optimized-vs-reference", "point %d: %r vs (%s, %s)" % (i, back[i], ref[i][0], ref[i][1]), case)
                        break
    labels.append("iup:omitted>=1" if omitted else "iup:omitted=0")
    labels.append("iup:tol=0" if tol == 0 else "iup:tol>0")
    labels.append("iup:contours=%d" % min(len(ends), 3))
    if len(set(coords[: n - 4])) < n - 4:
        labels.append("iup:duplicate-points")
    return bool(omitted), labels


def _check_optimized(acc, case, clause, coords, ends, deltas, opt, tol):
    n = len(coords)
    if len(opt) != n:
        acc.fail(clause, "length", "%d deltas for %d points" % (len(opt), n), case)
        return 0
    omitted = 0
    for i in range(n):
        if opt[i] is None:
            omitted += 1
        elif tuple(opt[i]) != tuple(deltas[i]):
            acc.fail(clause, "explicit-delta-changed", "point %d: %r, was %r" % (i, opt[i], deltas[i]), case)
            return omitted
    ref = R.iup_glyph(coords, opt, ends)
    i = _within(ref, deltas, tol)
    if i is not None:
        acc.fail(
            clause,
            "beyond-tolerance",
            "coords %r ends %r deltas %r tolerance %r -> %r: point %d is inferred as (%s, %s), original %r"
            % (coords, ends, deltas, tol, opt, i, ref[i][0], ref[i][1], deltas[i]),
            case,
        )
    return omitted


def check_tv(acc, case):
    """case as for iup, plus axes={tag: [lo, pk, up]}"""
    from fontTools.ttLib.tables.TupleVariation import TupleVariation

    coords, ends, deltas = _glyph(case)
    axes = {a: tuple(t) for a, t in case["axes"].items()}
    tol = case["tol"]
    tags = sorted(axes)
    labels = []
    tv = TupleVariation(axes, list(deltas))
    ok, _ = _lib(acc, "tv-optimize", case, lambda: tv.optimize(list(coords), list(ends), tolerance=tol))
    if not ok:
        return False, ["tv:exception"]
    if tv.axes != axes:
        acc.fail("tv-optimize", "axes-changed", "%r" % (tv.axes,), case)
    opt = list(tv.coordinates)
    omitted = _check_optimized(acc, case, "tv-optimize", coords, ends, deltas, opt, tol)

    def size(t):
        a, b = t.compile(tags)
        return len(a) + len(b)

    ok, sizes = _lib(acc, "tv-optimize", case, lambda: (size(TupleVariation(axes, list(deltas))), size(tv)))
    if ok:
        if omitted and not sizes[1] < sizes[0]:
            acc.fail("tv-optimize", "optimised-form-kept-but-not-smaller", "%d -> %d bytes: %r" % (sizes[0], sizes[1], opt), case)
        labels.append("tv:adopted" if omitted else "tv:kept-full")
    if omitted and any(d is not None for d in opt):
        tv2 = TupleVariation(axes, list(opt))
        ok, _ = _lib(acc, "tv-optimize", case, lambda: tv2.calcInferredDeltas(list(coords), list(ends)))
        if ok:
            ref = R.iup_glyph(coords, opt, ends)
            scale = max([1.0] + [abs(float(c)) for d in deltas for c in d])
            for i, g in enumerate(tv2.coordinates):
                if g is None or _off(g[0], ref[i][0], EPS * scale) or _off(g[1], ref[i][1], EPS * scale):
                    acc.fail("tv-optimize", "calcInferredDeltas-vs-reference", "point %d: %r vs (%s, %s)" % (i, g, ref[i][0], ref[i][1]), case)
                    break
    if omitted and all(d is None for d in opt):
        labels.append("tv:all-omitted")
    # a variation that is already sparse is left alone
    if omitted:
        before = list(tv.coordinates)
        ok, _ = _lib(acc, "tv-optimize", case, lambda: tv.optimize(list(coords), list(ends), tolerance=tol))
        if ok and list(tv.coordinates) != before:
            acc.fail("tv-optimize", "second-optimize-changed-deltas", "%r -> %r" % (before, tv.coordinates), case)
    return bool(omitted), labels


def _st_glyph(kind):
    from hypothesis import strategies as st

    @st.composite
    def contour(draw):
        n = draw(st.one_of(st.integers(1, 12), st.integers(1, 5)))
        style = draw(st.sampled_from(["tiny", "tiny", "normal", "normal", "ortho"]))
        if style == "tiny":
            c = st.integers(0, 3)
            pts = [(draw(c), draw(c)) for _ in range(n)]
        elif style == "normal":
            c = st.integers(-200, 800)
            pts = [(draw(c), draw(c)) for _ in range(n)]
        else:  # axis-parallel moves: many equal coordinates in one direction
            x, y = draw(st.integers(0, 100)), draw(st.integers(0, 100))
            pts = []
            for i in range(n):
                pts.append((x, y))
                d = draw(st.integers(-60, 60))
                if draw(st.booleans()):
                    x += d
                else:
                    y += d
        if n >= 2 and draw(st.integers(0, 4)) == 0:  # duplicate point
            i = draw(st.integers(0, n - 1))
            pts[i] = pts[draw(st.integers(0, n - 1))]
        dstyle = draw(st.sampled_from(["const", "affine", "iup", "iup", "iup-noise", "random", "zero"]))
        small = st.integers(-40, 40)
        if dstyle == "const":
            d = (draw(small), draw(small))
            ds = [d] * n
        elif dstyle == "zero":
            ds = [(draw(st.integers(-1, 1)), 0) for _ in range(n)] if draw(st.booleans()) else [(0, 0)] * n
        elif dstyle == "affine":
            a, b, c, e = (Fraction(draw(st.integers(-8, 8)), 8) for _ in range(4))
            ox, oy = draw(small), draw(small)
            ds = [(_rnd(a * x + b * y) + ox, _rnd(c * x + e * y) + oy) for x, y in pts]
        elif dstyle == "random":
            ds = [(draw(small), draw(small)) for _ in range(n)]
        else:
            big = st.one_of(small, st.integers(-400, 400))
            keep = [draw(st.integers(0, 2)) == 0 for _ in range(n)]
            sparse = [(draw(big), draw(big)) if k else None for k in keep]
            full = R.iup_contour(pts, sparse)
            ds = [(_rnd(dx), _rnd(dy)) for dx, dy in full]
            if dstyle == "iup-noise":
                ds = [(dx + draw(st.integers(-1, 1)), dy + draw(st.integers(-1, 1))) if draw(st.integers(0, 3)) == 0 else (dx, dy) for dx, dy in ds]
        return [list(p) for p in pts], [list(d) for d in ds]

    @st.composite
    def s(draw):
        cs = draw(st.lists(contour(), min_size=draw(st.sampled_from([0, 1, 1, 1, 1, 1, 1, 1, 1, 1, 1, 1])), max_size=draw(st.sampled_from([1, 1, 2, 3]))))
        contours = [c for c, _ in cs]
        deltas = [d for _, ds in cs for d in ds]
        phantom = [[0, 0], [draw(st.integers(0, 1000)), 0], [0, draw(st.integers(0, 1000))], [0, draw(st.integers(-300, 0))]]
        pd = st.sampled_from([0, 0, 0, 1, -3, 25])
        deltas += [[draw(pd), draw(pd)] for _ in range(4)]
        if kind == "iup" and draw(st.integers(0, 7)) == 0:  # half-unit deltas (exact in binary)
            deltas = [[dx + 0.5, dy] for dx, dy in deltas]
        tol = draw(st.sampled_from([0, 0, 0.0, 0.5, 0.5, 0.5, 1, 1.0, 0.25, 2.5, 10]))
        case = dict(k=kind, contours=contours, phantom=phantom, deltas=deltas, tol=tol)
        if kind == "iup":
            case["mask"] = draw(st.one_of(st.lists(st.booleans(), min_size=1, max_size=13), st.sampled_from([[False], [True, False, False, False, False], [False, False, True]])))
        else:
            case["axes"] = draw(st.sampled_from([{"wght": [0.0, 1.0, 1.0]}, {"wght": [0.0, 0.5, 1.0], "wdth": [-1.0, -1.0, 0.0]}, {"wdth": [-1.0, -0.25, 0.0]}]))
        return case

    return s()


def _rnd(q):
    """round half up, exact"""
    q = Q(q)
    return (2 * q.numerator + q.denominator) // (2 * q.denominator)


# ---------------------------------------------------------------------------
# driving

CHECKS = {"tent": check_tent, "model": check_model, "mhist": check_mhist, "store": check_store, "mstore": check_mstore, "iup": check_iup, "tv": check_tv}


def jobs(tier, seed):
    thorough = tier == "thorough"
    J = []
    for i in range(12):
        J.append(dict(kind="tent-lattice", name="tent-lattice4-%d" % i, den=4, shard=i, nshards=12))
    if thorough:
        for i in range(96):
            J.append(dict(kind="tent-lattice", name="tent-lattice8-%d" % i, den=8, shard=i, nshards=96))

    def gen(kind, njobs, n):
        for i in range(njobs):
            J.append(dict(kind=kind, name="%s-%d" % (kind, i), n=n, seed=subseed(seed, kind, i)))

    if thorough:
        gen("tent", 16, 9000)
        gen("model", 16, 5000)
        gen("mhist", 16, 2500)
        gen("store", 16, 2500)
        gen("mstore", 8, 2000)
        gen("iup", 16, 7000)
        gen("tv", 16, 2500)
    else:
        gen("tent", 6, 1500)
        gen("model", 8, 700)
        gen("mhist", 6, 400)
        gen("store", 10, 220)
        gen("mstore", 3, 300)
        gen("iup", 6, 1100)
        gen("tv", 4, 800)
    return J


STRATS = {"tent": _st_tent, "model": _st_model, "mhist": _st_mhist, "store": _st_store, "mstore": _st_mstore, "iup": lambda: _st_glyph("iup"), "tv": lambda: _st_glyph("tv")}


def run_job(job):
    acc = Acc()
    k = job["kind"]
    if k == "tent-lattice":
        den = job["den"]
        tents = lattice_tents(den)[job["shard"] :: job["nshards"]]
        lims = lattice_limits(den)
        pairs = points = nt = 0
        for t in tents:
            for l in lims:
                case = dict(k="tent", den=den, tent=list(t), lim=list(l))
                np_, nontriv, labels = check_tent(acc, case)
                pairs += 1
                points += np_
                nt += nontriv
                for lb in labels:
                    acc.label("lattice/" + lb)
        acc.bulk(pairs, nt, "tent:lattice-1/%d" % den, sample=dict(k="tent", den=den, tent=list(tents[0]), lim=list(lims[len(lims) // 2])) if tents else None)
        acc.extra["exhaustive_subdomains"] = {
            "rebaseTent 1/%d lattice: (tent, limits) pairs" % den: pairs,
            "rebaseTent 1/%d lattice: point evaluations" % den: points,
        }
    elif k in STRATS:
        fn = CHECKS[k]

        def body(case, acc):
            if k == "tent":
                if not tent_ok(*case["tent"], case["den"]):
                    raise HarnessError("generator produced a tent outside the domain: %r" % (case,))
                np_, nontriv, labels = fn(acc, case)
                acc.extra["generated_tent_point_evaluations"] = acc.extra.get("generated_tent_point_evaluations", 0) + np_
            else:
                nontriv, labels = fn(acc, case)
            acc.case(case, nontrivial=nontriv, labels=labels, sample=case if nontriv and len(repr(case)) < 700 else None)

        hyp_collect(acc, STRATS[k](), body, job["n"], job["seed"])
    else:
        raise HarnessError("unknown job kind %r" % k)
    return acc


MUST_OCCUR = [
    "tent:lattice-1/4",
    "tent:partial-overlap",
    "tent:gain",
    "tent:peak-beyond-1",
    "lattice/tent:partial-overlap",
    "model:off-axis",
    "model:box-split",
    "model:submodel",
    "model:fraction-values",
    "mhist:reorder",
    "mhist:das",
    "mhist:sub",
    "mhist:same-sparse-pattern-after-reorder",
    "store:vardata-after-opt=2",
    "store:long-words",
    "store:no-variation-index",
    "store:quantization=>1",
    "store:retainFirstMap",
    "store:prune-removed-regions",
    "mstore:subset-removed-regions",
    "mstore:no-variation-index",
    "iup:inferred>=1",
    "iup:omitted>=1",
    "iup:duplicate-points",
    "tv:adopted",
    "tv:kept-full",
]


def finish(total, tier, seed):
    missing = [l for l in MUST_OCCUR if total.labels.get(l, 0) == 0]
    if missing:
        raise HarnessError("generator classes with zero hits: %s" % ", ".join(missing))
    want = len(lattice_tents(4)) * len(lattice_limits(4))
    got = total.extra.get("exhaustive_subdomains", {}).get("rebaseTent 1/4 lattice: (tent, limits) pairs")
    if got != want:
        raise HarnessError("quarter-lattice sweep incomplete: %r of %d pairs" % (got, want))


def replay(case):
    acc = Acc()
    CHECKS[case["k"]](acc, case)
    return acc.failures
