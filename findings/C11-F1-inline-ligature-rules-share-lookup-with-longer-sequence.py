"""feaLib lets the inline ligature rules of one contextual lookup share a single nested ligature lookup whenever their sequences do
not map to different ligatures (ChainContextSubstBuilder.find_chainable_ligature_subst), also when one sequence is a prefix of another:
the nested lookup of the shorter rule then contains the longer ligature, and since a nested lookup matches beyond the rule's input
sequence the shorter rule ligates more glyphs than it marks. Input:
    feature calt { sub a f' f' by f_f; sub f' f' i' by f_f_i; } calt;
text 'affi': the first rule matches at the first f (preceded by a) and says a f_f i; HarfBuzz on the compiled GSUB gives a f_f_i
(both rules point to one lookup holding f f i -> f_f_i and f f -> f_f)."""

FEA = "feature calt { sub a f' f' by f_f; sub f' f' i' by f_f_i; } calt;"
ORDER = [".notdef", "a", "f", "i", "f_f", "f_f_i"]


def reproduce():
    gsub, shape = _compile_and_shape(FEA, ORDER)
    out = []
    # hand-derived from the rules: 'affi': rule 1 at the first f; 'ffi': rule 1 does not match (no a), rule 2 does
    for text, want in (("affi", ["a", "f_f", "i"]), ("ffi", ["f_f_i"]), ("aff", ["a", "f_f"])):
        got = shape(text)
        if got != want:
            out.append("%r shapes to %s, the rules say %s" % (text, " ".join(got), " ".join(want)))
    return (FEA + " => " + "; ".join(out)) if out else None


def _compile_and_shape(fea, order):
    """-> (GSUB table, shape(text, script=None, language=None) -> glyph names by HarfBuzz)"""
    from io import BytesIO
    import uharfbuzz as hb
    from fontTools.feaLib.builder import addOpenTypeFeaturesFromString
    from fontTools.fontBuilder import FontBuilder
    from fontTools.ttLib import TTFont
    from fontTools.ttLib.tables._g_l_y_f import Glyph

    fb = FontBuilder(1000, isTTF=True)
    fb.setupGlyphOrder(order)
    fb.setupCharacterMap({ord(n): n for n in order if len(n) == 1})
    fb.setupGlyf({n: Glyph() for n in order})
    fb.setupHorizontalMetrics({n: (500, 0) for n in order})
    fb.setupHorizontalHeader(ascent=800, descent=-200)
    fb.setupNameTable({"familyName": "W", "styleName": "R"})
    fb.setupOS2()
    fb.setupPost()
    addOpenTypeFeaturesFromString(fb.font, fea)
    buf = BytesIO()
    fb.font.save(buf)
    data = buf.getvalue()

    def shape(text, script=None, language=None):
        font = hb.Font(hb.Face(data))
        b = hb.Buffer()
        b.add_str(text)
        b.guess_segment_properties()
        if script:
            b.script = script
        if language:
            b.language = language
        hb.shape(font, b, {})
        return [font.glyph_to_string(i.codepoint) for i in b.glyph_infos]

    return TTFont(BytesIO(data))["GSUB"].table, shape
