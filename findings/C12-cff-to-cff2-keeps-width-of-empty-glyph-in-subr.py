"""convertCFFToCFF2 does not remove the width operand of an empty glyph whose 'w endchar' lives in a subroutine:
glyph B = [-107, 'callsubr'] with local subr 0 = [600, 'endchar'] (nominalWidthX 100, advance 700). The converter first
cuts every subroutine at its endchar (subr = [600]) and only then runs the width extractor over the glyphs, which now meets
no stack-clearing operator and never reports the width. The CFF2 glyph keeps the stray operand 600 (CFF2 charstrings have
no width), and converting back with convertCFF2ToCFF gives subr [600, 'return'] / glyph [-107, 'callsubr', 'endchar']:
the stale 600 is read as the width operand again, now against the new nominalWidthX 500, so the charstring width is 1100
while hmtx says 700.
Expected: the CFF2 glyph is empty and CFF -> CFF2 -> CFF keeps the advance width 700."""


def _build(charstrings, widths, private, lsubrs=()):
    """bytes of a small OpenType/CFF font; charstrings: name -> Type 2 program, lsubrs: local subroutine programs"""
    import io

    from fontTools.cffLib import SubrsIndex
    from fontTools.fontBuilder import FontBuilder
    from fontTools.misc.psCharStrings import T2CharString

    names = list(charstrings)
    fb = FontBuilder(1000, isTTF=False)
    fb.setupGlyphOrder(names)
    fb.setupCharacterMap({0x41 + i: n for i, n in enumerate(names) if i})
    fb.setupCFF("Witness", {"FullName": "Witness"}, {n: T2CharString(program=list(p)) for n, p in charstrings.items()}, dict(private))
    if lsubrs:
        subrs = SubrsIndex()
        for p in lsubrs:
            subrs.append(T2CharString(program=list(p)))
        fb.font["CFF "].cff.topDictIndex[0].Private.Subrs = subrs
    fb.setupHorizontalMetrics({n: (widths[n], 0) for n in names})
    fb.setupHorizontalHeader(ascent=800, descent=-200)
    fb.setupNameTable({"familyName": "Witness", "styleName": "Regular"})
    fb.setupOS2()
    fb.setupPost()
    buf = io.BytesIO()
    fb.font.save(buf)
    return buf.getvalue()


def reproduce():
    import io

    from fontTools.cffLib.CFF2ToCFF import convertCFF2ToCFF
    from fontTools.cffLib.CFFToCFF2 import convertCFFToCFF2
    from fontTools.pens.recordingPen import RecordingPen
    from fontTools.ttLib import TTFont

    data = _build(
        {".notdef": [0, 0, "rmoveto", "endchar"], "B": [-107, "callsubr"]},
        {".notdef": 500, "B": 700},
        dict(defaultWidthX=500, nominalWidthX=100),
        lsubrs=[[600, "endchar"]],
    )
    font = TTFont(io.BytesIO(data), recalcBBoxes=False)  # as the converters' command lines do
    cs = font["CFF "].cff.topDictIndex[0].CharStrings["B"]
    cs.draw(RecordingPen())
    if cs.width != 700:
        return None  # the input is not what this witness assumes
    convertCFFToCFF2(font)
    out = []
    top = font["CFF2"].cff.topDictIndex[0]
    cs = top.CharStrings["B"]
    cs.decompile()
    flat = list(cs.program)
    subrs = getattr(top.FDArray[0].Private, "Subrs", [])
    if flat[-1:] == ["callsubr"]:
        flat = flat[:-2] + list(subrs[flat[-2] + 107].program)
    if flat:
        out.append("after convertCFFToCFF2 the empty glyph B still carries %r" % (flat,))
    convertCFF2ToCFF(font)
    buf = io.BytesIO()
    font.save(buf)
    font = TTFont(io.BytesIO(buf.getvalue()))
    name = font.getGlyphOrder()[1]
    cs = font["CFF "].cff.topDictIndex[0].CharStrings[name]
    cs.draw(RecordingPen())
    if cs.width != 700 or font["hmtx"][name][0] != 700:
        out.append("after CFF -> CFF2 -> CFF the charstring width is %r (hmtx %r), expected 700" % (cs.width, font["hmtx"][name][0]))
    return "; ".join(out) or None
