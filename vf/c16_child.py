"""C16 child program: run a list of pipeline jobs in this process and print one JSON
line per job with the sha256 of the output (first and second save) and of every table.

usage: python c16_child.py <jobs.json> <scratch dir>
The experiment variables (PYTHONHASHSEED, cwd, LC_ALL, TZ, SOURCE_DATE_EPOCH) are set by
the parent in the environment of this process; lazy mode and table access order are part
of each job descriptor. fontTools is imported from $VERIF_REPO/Lib (default /repo/Lib)."""

import hashlib
import io
import json
import os
import signal
import sys
import traceback

VERIF = os.path.dirname(os.path.dirname(os.path.abspath(__file__)))
if VERIF not in sys.path:
    sys.path.insert(0, VERIF)

JOB_SECONDS = 240


class _Timeout(BaseException):
    pass


def _alarm(signum, frame):
    raise _Timeout()


def table_hashes(data):
    from fontTools.ttLib import TTFont

    f = TTFont(io.BytesIO(data), lazy=True)
    out = {}
    head = None
    for tag in f.reader.keys():
        raw = f.reader[tag]
        out[tag] = hashlib.sha256(raw).hexdigest()[:16]
        if tag == "head":
            head = raw.hex()
    return out, head


def run_one(job, tmpdir):
    from vf import pipelines
    from vf.runner import innermost_frame

    rec = {"name": job["name"]}
    try:
        font, kw = pipelines.run_pipeline(job, tmpdir)
        b1 = io.BytesIO()
        font.save(b1, **kw)
        d1 = b1.getvalue()
    except _Timeout:
        raise
    except Exception as e:
        rec["exc"] = type(e).__name__
        rec["msg"] = str(e)[:200]
        rec["where"] = innermost_frame(e)
        return rec
    rec["sha"] = hashlib.sha256(d1).hexdigest()
    rec["size"] = len(d1)
    rec["tables"], rec["head"] = table_hashes(d1)
    # second save of the same object
    try:
        b2 = io.BytesIO()
        font.save(b2, **kw)
        d2 = b2.getvalue()
        rec["sha2"] = hashlib.sha256(d2).hexdigest()
        if d2 != d1:
            rec["tables2"], rec["head2"] = table_hashes(d2)
            rec["size2"] = len(d2)
    except _Timeout:
        raise
    except Exception as e:
        rec["exc2"] = type(e).__name__
        rec["msg2"] = str(e)[:200]
        rec["where2"] = innermost_frame(e)
    return rec


def main(argv):
    from vf.runner import bootstrap

    bootstrap()
    with open(argv[1]) as fh:
        jobs = json.load(fh)
    tmpdir = argv[2]
    signal.signal(signal.SIGALRM, _alarm)
    out = sys.stdout
    env = {
        "hashseed": os.environ.get("PYTHONHASHSEED"),
        "cwd": os.getcwd(),
        "encoding": __import__("locale").getpreferredencoding(False),
        "tz": os.environ.get("TZ"),
        "epoch": os.environ.get("SOURCE_DATE_EPOCH"),
        "hash_of_a": hash("a") & 0xFFFF,
    }
    out.write(json.dumps({"env": env}) + "\n")
    for job in jobs:
        signal.setitimer(signal.ITIMER_REAL, JOB_SECONDS)
        try:
            rec = run_one(job, tmpdir)
        except _Timeout:
            rec = {"name": job["name"], "timeout": True}
        except BaseException as e:  # harness problem inside the child
            rec = {"name": job["name"], "harness": "".join(traceback.format_exception(type(e), e, e.__traceback__))[-1500:]}
        finally:
            signal.setitimer(signal.ITIMER_REAL, 0)
        out.write(json.dumps(rec) + "\n")
        out.flush()
    return 0


if __name__ == "__main__":
    sys.exit(main(sys.argv))
