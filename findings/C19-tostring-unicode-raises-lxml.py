"""DesignSpaceDocument.tostring(encoding="unicode") and tostring(encoding=str), the two spellings that tostring()
explicitly accepts for getting a str, raise when lxml is installed (LookupError "unknown encoding: 'UNICODE'" resp.
TypeError "unbound method str.upper() needs an argument"): lxml's ElementTree.write() does not know the pseudo encoding
"unicode" (only lxml.etree.tostring() does), while the built-in fallback of fontTools.misc.etree does.
Expected: a str holding the same XML as tostring() without the XML declaration."""


def reproduce():
    from fontTools.designspaceLib import DesignSpaceDocument

    out = []
    for enc in ("unicode", str):
        doc = DesignSpaceDocument()
        doc.addAxisDescriptor(name="Wéight", tag="wght", minimum=100, default=400, maximum=900)
        try:
            s = doc.tostring(encoding=enc)
        except (LookupError, TypeError) as e:
            out.append("tostring(encoding=%r) raises %s: %s" % (enc, type(e).__name__, e))
            continue
        if not isinstance(s, str):
            out.append("tostring(encoding=%r) returns %s" % (enc, type(s).__name__))
            continue
        doc2 = DesignSpaceDocument.fromstring(s)
        if [a.name for a in doc2.axes] != ["Wéight"]:
            out.append("tostring(encoding=%r) does not read back: axes %r" % (enc, [a.name for a in doc2.axes]))
    return "; ".join(out) or None
