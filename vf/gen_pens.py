"""Hypothesis strategies for VALID pen call sequences (property C14) and the
small glyph-set objects the pens under test decompose components from.

A generated case is a JSON-able dict

  segment kind:  {"kind": "seg", "mode": "int"|"float", "glyphs": {name: ops}, "ops": ops,
                  "T": [6 numbers], "flags": {...}}
      ops = [[opname, args]...] in RecordingPen.value layout, points as 2-lists,
      ("addComponent", [name, [6 numbers]]) for components.
  point kind:    {"kind": "pt", ..., "glyphs": {name: items}, "items": items, ...}
      items = [{"c": [[x, y, segType, smooth, name, identifier]...], "id": identifier-or-None}
               | {"comp": [name, [6 numbers], identifier-or-None]}]

Validity rules followed (fontTools.pens.basePen.AbstractPen / pointPen docs):
every sub path starts with moveTo and ends with closePath or endPath; the only
exception is the contour without on-curve points, which is the single call
qCurveTo(*offCurves, None) followed by closePath; components come between
contours; in the point protocol an open contour starts with a "move" point and
does not end in off-curve points, "line" points are not preceded by off-curves,
and identifiers are unique within a glyph.
"""

from hypothesis import strategies as st

GLYPH_NAMES = ["a", "b", "c"]  # "c" may reference "a"/"b" (nested components)

# ---------------------------------------------------------------------------
# numbers and points


def _int_coord():
    return st.one_of(st.integers(-3, 3), st.integers(-3, 3), st.integers(-20, 20), st.integers(-1000, 1000), st.integers(-8000, 8000))


def _float_coord():
    half = st.builds(lambda i: i + 0.5, st.integers(-60, 60))
    near = st.builds(
        lambda i, e: i + 0.5 + e, st.integers(-60, 60), st.sampled_from([-1e-6, 1e-6, -0.25, 0.25, 0.4999999, -0.4999999, 0.5])
    )
    quarter = st.builds(lambda i: i / 4.0, st.integers(-400, 400))
    anyf = st.floats(-1000, 1000, allow_nan=False, allow_infinity=False, allow_subnormal=False, width=64)
    return st.one_of(half, near, quarter, anyf, st.integers(-30, 30))


def _point(mode):
    c = _int_coord() if mode == "int" else _float_coord()
    return st.tuples(c, c).map(list)


@st.composite
def _pooled_point(draw, mode):
    """A per-glyph point strategy: a small pool of points is reused with high
    probability so that duplicate / coincident points are common."""
    pool = draw(st.lists(_point(mode), min_size=1, max_size=5))
    return st.one_of(st.sampled_from(pool), st.sampled_from(pool), _point(mode))


# ---------------------------------------------------------------------------
# transforms (own arithmetic only; nothing from fontTools.misc.transform)

_INT_MATS = [
    [1, 0, 0, 1],
    [1, 0, 0, 1],
    [-1, 0, 0, 1],
    [1, 0, 0, -1],
    [0, 1, -1, 0],
    [0, -1, 1, 0],
    [-1, 0, 0, -1],
    [0, 1, 1, 0],
    [3, 0, 0, 3],
    [1, 1, 0, 1],
    [1, 0, -2, 1],
    [-2, 0, 0, 1],
    [3, 1, 1, 1],
    [-2, -1, 1, -1],
]
_SINGULAR_INT_MATS = [[0, 0, 0, 0], [1, 0, 0, 0], [0, 0, 0, 1], [1, 1, 1, 1], [1, -1, -1, 1], [0, 1, 0, 0]]


def int_transform(singular_ok=True):
    off = st.one_of(st.just(0), st.integers(-5, 5), st.integers(-300, 300))
    mats = _INT_MATS + (_SINGULAR_INT_MATS if singular_ok else [])
    free = st.lists(st.sampled_from([-3, -2, -1, 0, 1, 3]), min_size=4, max_size=4)
    if not singular_ok:
        free = free.filter(lambda m: m[0] * m[3] - m[1] * m[2] != 0)
    m = st.one_of(st.sampled_from(mats), st.sampled_from(mats), free)
    return st.builds(lambda m, dx, dy: list(m) + [dx, dy], m, off, off)


def float_transform():
    """Well-conditioned float matrices (|det| >= 0.05, entries <= 4)."""
    import math

    sc = st.one_of(st.sampled_from([1.0, -1.0, 0.5, 2.0, 1.5, -0.75]), st.floats(0.3, 2.0, allow_nan=False), st.floats(-2.0, -0.3, allow_nan=False))
    ang = st.one_of(st.sampled_from([0.0, math.pi / 2, math.pi / 6, -math.pi / 4, 1.0]), st.floats(-3.2, 3.2, allow_nan=False))
    sk = st.one_of(st.just(0.0), st.floats(-0.6, 0.6, allow_nan=False))
    off = st.one_of(st.just(0), st.integers(-300, 300), st.floats(-500, 500, allow_nan=False, allow_subnormal=False), st.builds(lambda i: i + 0.5, st.integers(-20, 20)))

    def build(sx, sy, a, k, dx, dy):
        c, s = math.cos(a), math.sin(a)
        # rotation * skew * scale
        xx, xy, yx, yy = c * sx, s * sx, (-s + c * k) * sy, (c + s * k) * sy
        return [xx, xy, yx, yy, dx, dy]

    return st.builds(build, sc, sc, ang, sk, off, off).filter(lambda t: abs(t[0] * t[3] - t[1] * t[2]) >= 0.05)


def transform(mode, singular_ok=True):
    if mode == "int":
        return int_transform(singular_ok)
    return st.one_of(float_transform(), float_transform(), int_transform(False))


# ---------------------------------------------------------------------------
# segment-pen contours


@st.composite
def seg_contour(draw, pt, allow=("l", "c", "q", "super", "short", "noon", "single", "open"), mode="int"):
    kinds = ["normal"] * 8
    if "single" in allow:
        kinds += ["single"]
    if "noon" in allow:
        kinds += ["noon", "noon"]
    if "q" in allow and "c" in allow:
        kinds += ["impl"]
    kind = draw(st.sampled_from(kinds))
    if kind == "impl":
        k = draw(st.integers(1, 4))
        keep = draw(st.lists(st.booleans(), min_size=k, max_size=k))
        return impliable_seg_contour(lambda: draw(pt), mode, k, draw(st.integers(0, 2)) == 0, keep)
    if kind == "single":
        closed = draw(st.booleans()) or "open" not in allow
        return [["moveTo", [draw(pt)]], ["closePath" if closed else "endPath", []]]
    if kind == "noon":
        n = draw(st.sampled_from([1, 2, 2, 3, 3, 4, 4, 5, 7]))
        offs = [draw(pt) for _ in range(n)]
        if n >= 2 and draw(st.integers(0, 5)) == 0:
            offs[-1] = offs[0]
        return [["qCurveTo", offs + [None]], ["closePath", []]]
    p0 = draw(pt)
    ops = [["moveTo", [p0]]]
    segkinds = []
    if "l" in allow:
        segkinds += ["l", "l", "l"]
    if "c" in allow:
        segkinds += ["c", "c", "c"]
    if "q" in allow:
        segkinds += ["q", "q", "q", "q0"]
    if "super" in allow:
        segkinds += ["super"]
    if "short" in allow:
        segkinds += ["short"]
    for _ in range(draw(st.integers(1, 5))):
        t = draw(st.sampled_from(segkinds))
        if t == "l":
            ops.append(["lineTo", [draw(pt)]])
        elif t == "c":
            ops.append(["curveTo", [draw(pt), draw(pt), draw(pt)]])
        elif t == "super":
            n = draw(st.sampled_from([4, 4, 5, 6, 7]))
            ops.append(["curveTo", [draw(pt) for _ in range(n)]])
        elif t == "short":
            n = draw(st.sampled_from([1, 2]))
            ops.append(["curveTo", [draw(pt) for _ in range(n)]])
        elif t == "q":
            n = draw(st.sampled_from([2, 2, 2, 3, 3, 4, 5]))
            ops.append(["qCurveTo", [draw(pt) for _ in range(n)]])
        else:
            ops.append(["qCurveTo", [draw(pt)]])
        if draw(st.integers(0, 9)) == 0:
            # duplicate the on-curve point just reached (zero-length line)
            ops.append(["lineTo", [ops[-1][1][-1]]])
    closed = "open" not in allow or draw(st.integers(0, 2)) != 0
    if closed:
        how = draw(st.sampled_from(["plain", "plain", "line-to-start", "last-on-start"]))
        if how == "line-to-start" and "l" in allow:
            ops.append(["lineTo", [p0]])
        elif how == "last-on-start":
            ops[-1] = [ops[-1][0], ops[-1][1][:-1] + [p0]]
    ops.append(["closePath" if closed else "endPath", []])
    return ops


@st.composite
def seg_glyph(draw, mode, comp_names=(), allow=None, max_contours=4, min_contours=0):
    pt = draw(_pooled_point(mode))
    kw = {"mode": mode}
    if allow is not None:
        kw["allow"] = allow
    parts = [draw(seg_contour(pt, **kw)) for _ in range(draw(st.integers(min_contours, max_contours)))]
    if comp_names:
        for _ in range(draw(st.sampled_from([0, 0, 1, 1, 2]))):
            comp = [["addComponent", [draw(st.sampled_from(list(comp_names))), draw(transform(mode))]]]
            parts.insert(draw(st.integers(0, len(parts))), comp)
    return [op for part in parts for op in part]


@st.composite
def seg_case(draw, mode, allow=None, with_components=True):
    glyphs = {}
    glyphs["a"] = draw(seg_glyph(mode, allow=allow, min_contours=1, max_contours=2))
    glyphs["b"] = draw(seg_glyph(mode, allow=allow, max_contours=2))
    glyphs["c"] = draw(seg_glyph(mode, comp_names=("a", "b"), allow=allow, max_contours=1))
    names = GLYPH_NAMES if with_components else ()
    ops = draw(seg_glyph(mode, comp_names=names, allow=allow))
    return dict(
        kind="seg",
        mode=mode,
        glyphs=glyphs,
        ops=ops,
        T=draw(transform(mode)),
        flags=dict(
            oicl=draw(st.booleans()),
            guess=draw(st.booleans()),
            drop=draw(st.booleans()),
            opt=draw(st.booleans()),
            isp=draw(st.booleans()),
        ),
    )


# ---------------------------------------------------------------------------
# point-pen contours

_NAMES = [None, None, None, "top", "pt", "a b", ""]


@st.composite
def pt_contour(draw, pt, ids, allow=("l", "c", "q", "super", "short", "noon", "single", "open"), mode="int"):
    """Returns a list of [x, y, segType, smooth, name, identifier]."""
    if "q" in allow and "c" in allow and draw(st.integers(0, 11)) == 0:
        k = draw(st.integers(1, 4))
        keep = draw(st.lists(st.booleans(), min_size=k, max_size=k))
        return impliable_pt_contour(lambda: draw(pt), mode, k, draw(st.integers(0, 2)) == 0, keep, draw(st.integers(0, 11)))

    def mk(p, t):
        ident = None
        if draw(st.integers(0, 5)) == 0:
            ident = "id%d" % len(ids)
            ids.append(ident)
        return [p[0], p[1], t, draw(st.booleans()) if t is not None else False, draw(st.sampled_from(_NAMES)), ident]

    kinds = ["normal"] * 8
    if "single" in allow:
        kinds += ["single"]
    if "noon" in allow:
        kinds += ["noon", "noon"]
    kind = draw(st.sampled_from(kinds))
    if kind == "single":
        types = ["line", "qcurve", None] + (["move"] if "open" in allow else [])
        return [mk(draw(pt), draw(st.sampled_from(types)))]
    if kind == "noon":
        n = draw(st.sampled_from([2, 2, 3, 3, 4, 5, 7]))
        pts = [draw(pt) for _ in range(n)]
        if draw(st.integers(0, 5)) == 0:
            pts[-1] = pts[0]
        return [mk(p, None) for p in pts]
    segkinds = []
    if "l" in allow:
        segkinds += ["l", "l", "l"]
    if "c" in allow:
        segkinds += ["c", "c", "c"]
    if "q" in allow:
        segkinds += ["q", "q", "q", "q0"]
    if "super" in allow:
        segkinds += ["super"]
    if "short" in allow:
        segkinds += ["short"]
    segs = []
    for _ in range(draw(st.integers(1, 5))):
        t = draw(st.sampled_from(segkinds))
        if t == "l":
            segs.append(("line", 0))
        elif t == "c":
            segs.append(("curve", 2))
        elif t == "super":
            segs.append(("curve", draw(st.sampled_from([3, 3, 4, 5, 6]))))
        elif t == "short":
            segs.append(("curve", draw(st.sampled_from([0, 1]))))
        elif t == "q":
            segs.append(("qcurve", draw(st.sampled_from([1, 1, 1, 2, 2, 3, 4]))))
        else:
            segs.append(("qcurve", 0))
    is_open = "open" in allow and draw(st.integers(0, 2)) == 0
    out = []
    if is_open:
        out.append(mk(draw(pt), "move"))
    for t, noff in segs:
        for _ in range(noff):
            out.append(mk(draw(pt), None))
        out.append(mk(draw(pt), t))
        if draw(st.integers(0, 9)) == 0 and "l" in allow:
            out.append(mk(out[-1][:2], "line"))  # duplicate point
    if not is_open:
        if draw(st.integers(0, 3)) == 0 and len(out) > 1:
            # last on-curve coincides with an earlier on-curve (duplicate closing point)
            first_on = next(p for p in out if p[2] is not None)
            out[-1] = [first_on[0], first_on[1]] + out[-1][2:]
        r = draw(st.integers(0, len(out) - 1))
        out = out[r:] + out[:r]
    return out


@st.composite
def pt_glyph(draw, mode, comp_names=(), allow=None, max_contours=4, min_contours=0, ids=None):
    pt = draw(_pooled_point(mode))
    ids = [] if ids is None else ids
    kw = {"mode": mode}
    if allow is not None:
        kw["allow"] = allow
    items = []
    for _ in range(draw(st.integers(min_contours, max_contours))):
        c = draw(pt_contour(pt, ids, **kw))
        ident = None
        if draw(st.integers(0, 3)) == 0:
            ident = "cid%d" % len(ids)
            ids.append(ident)
        items.append({"c": c, "id": ident})
    if comp_names:
        for _ in range(draw(st.sampled_from([0, 0, 1, 1, 2]))):
            ident = None
            if draw(st.integers(0, 2)) == 0:
                ident = "kid%d" % len(ids)
                ids.append(ident)
            comp = {"comp": [draw(st.sampled_from(list(comp_names))), draw(transform(mode)), ident]}
            items.insert(draw(st.integers(0, len(items))), comp)
    return items


@st.composite
def pt_case(draw, mode, allow=None, with_components=True):
    glyphs = {}
    glyphs["a"] = draw(pt_glyph(mode, allow=allow, min_contours=1, max_contours=2))
    glyphs["b"] = draw(pt_glyph(mode, allow=allow, max_contours=2))
    glyphs["c"] = draw(pt_glyph(mode, comp_names=("a", "b"), allow=allow, max_contours=1))
    names = GLYPH_NAMES if with_components else ()
    items = draw(pt_glyph(mode, comp_names=names, allow=allow))
    return dict(
        kind="pt",
        mode=mode,
        glyphs=glyphs,
        items=items,
        T=draw(transform(mode)),
        flags=dict(oicl=draw(st.booleans()), guess=draw(st.booleans()), drop=draw(st.booleans())),
    )


# ---------------------------------------------------------------------------
# Transform algebra cases


@st.composite
def algebra_case(draw):
    mode = draw(st.sampled_from(["int", "float", "float"]))
    t = lambda: transform(mode, singular_ok=False)
    p = _point(mode)
    return dict(
        kind="alg",
        mode=mode,
        A=draw(t()),
        B=draw(t()),
        C=draw(t()),
        pts=draw(st.lists(p, min_size=1, max_size=4)),
        angle=draw(st.one_of(st.sampled_from([0.0, 1.5707963267948966, 3.141592653589793, -1.5707963267948966]), st.floats(-6.3, 6.3, allow_nan=False))),
        skew=draw(st.lists(st.floats(-1.2, 1.2, allow_nan=False), min_size=2, max_size=2)),
        sc=draw(st.lists(st.one_of(st.integers(-3, 3), st.floats(-3, 3, allow_nan=False)), min_size=2, max_size=2)),
        tr=draw(p),
    )


# ---------------------------------------------------------------------------
# materialisation: JSON-able case -> call sequences with tuples, glyph objects


def tup_ops(ops):
    out = []
    for op, args in ops:
        if op == "addComponent":
            out.append((op, (args[0], tuple(args[1]))))
        else:
            out.append((op, tuple(None if p is None else (p[0], p[1]) for p in args)))
    return out


def replay_ops(ops, pen):
    for op, args in ops:
        getattr(pen, op)(*args)


def replay_items(items, pen, identifiers=True):
    """Drive a point pen with the generated items."""
    for it in items:
        if "comp" in it:
            name, t, ident = it["comp"]
            if identifiers and ident is not None:
                pen.addComponent(name, tuple(t), identifier=ident)
            else:
                pen.addComponent(name, tuple(t))
        else:
            if identifiers and it.get("id") is not None:
                pen.beginPath(identifier=it["id"])
            else:
                pen.beginPath()
            for x, y, t, smooth, name, ident in it["c"]:
                kw = {}
                if identifiers and ident is not None:
                    kw["identifier"] = ident
                pen.addPoint((x, y), segmentType=t, smooth=smooth, name=name, **kw)
            pen.endPath()


class SegGlyph:
    """Glyph-set member for segment pens: draw() replays recorded ops."""

    def __init__(self, ops):
        self.ops = tup_ops(ops)

    def draw(self, pen):
        replay_ops(self.ops, pen)


class PtGlyph:
    """Glyph-set member for point pens: drawPoints() replays the items; draw()
    uses the reference point->segment conversion supplied by the check."""

    def __init__(self, items, to_ops=None):
        self.items = items
        self._to_ops = to_ops

    def drawPoints(self, pen):
        replay_items(self.items, pen)

    def draw(self, pen):
        replay_ops(self._to_ops(self.items), pen)


# ---------------------------------------------------------------------------
# Fast seeded generator. Hypothesis spends ~10x the cost of all sub-checks on
# drawing the few hundred primitives of one case, so the bulk of the cases is
# built by the functions below from a random.Random whose seed is the single
# value Hypothesis draws (fast_case). The distributions mirror the strategies
# above; the structured strategies are still run for a share of the cases.

import math as _math
import random as _random


def r_coord(rnd, mode):
    if mode == "int":
        k = rnd.randrange(5)
        if k < 2:
            return rnd.randint(-3, 3)
        if k == 2:
            return rnd.randint(-20, 20)
        if k == 3:
            return rnd.randint(-1000, 1000)
        return rnd.randint(-8000, 8000)
    k = rnd.randrange(6)
    if k == 0:
        return rnd.randint(-60, 60) + 0.5
    if k == 1:
        return rnd.randint(-60, 60) + 0.5 + rnd.choice([-1e-6, 1e-6, -0.25, 0.25, 0.4999999, -0.4999999, 0.5])
    if k == 2:
        return rnd.randint(-400, 400) / 4.0
    if k == 3:
        return rnd.uniform(-1000, 1000)
    if k == 4:
        return rnd.uniform(-10, 10)
    return rnd.randint(-30, 30)


def r_pointfn(rnd, mode):
    pool = [[r_coord(rnd, mode), r_coord(rnd, mode)] for _ in range(rnd.randint(1, 5))]

    def pt():
        if rnd.randrange(3) < 2:
            return list(rnd.choice(pool))
        return [r_coord(rnd, mode), r_coord(rnd, mode)]

    return pt


def r_int_transform(rnd, singular_ok=True):
    def off():
        k = rnd.randrange(3)
        return 0 if k == 0 else rnd.randint(-5, 5) if k == 1 else rnd.randint(-300, 300)

    mats = _INT_MATS + (_SINGULAR_INT_MATS if singular_ok else [])
    while True:
        if rnd.randrange(3) < 2:
            m = list(rnd.choice(mats))
        else:
            m = [rnd.choice([-3, -2, -1, 0, 1, 3]) for _ in range(4)]
        if singular_ok or m[0] * m[3] - m[1] * m[2] != 0:
            return m + [off(), off()]


def r_float_transform(rnd):
    def sc():
        k = rnd.randrange(3)
        return rnd.choice([1.0, -1.0, 0.5, 2.0, 1.5, -0.75]) if k == 0 else rnd.uniform(0.3, 2.0) if k == 1 else rnd.uniform(-2.0, -0.3)

    def off():
        k = rnd.randrange(4)
        return 0 if k == 0 else rnd.randint(-300, 300) if k == 1 else rnd.uniform(-500, 500) if k == 2 else rnd.randint(-20, 20) + 0.5

    while True:
        a = rnd.choice([0.0, _math.pi / 2, _math.pi / 6, -_math.pi / 4, 1.0]) if rnd.randrange(2) else rnd.uniform(-3.2, 3.2)
        k = 0.0 if rnd.randrange(2) else rnd.uniform(-0.6, 0.6)
        sx, sy = sc(), sc()
        c, s = _math.cos(a), _math.sin(a)
        t = [c * sx, s * sx, (-s + c * k) * sy, (c + s * k) * sy, off(), off()]
        if abs(t[0] * t[3] - t[1] * t[2]) >= 0.05:
            return t


def r_transform(rnd, mode, singular_ok=True):
    if mode == "int":
        return r_int_transform(rnd, singular_ok)
    if rnd.randrange(3) < 2:
        return r_float_transform(rnd)
    return r_int_transform(rnd, False)


_SEGKINDS = ["l", "l", "l", "c", "c", "c", "q", "q", "q", "q0", "super", "short"]


def _impliable(pt, k, cubic, mode, choose):
    """Off-curve points whose midpoints are made explicit on-curve points (TrueType
    'implied' points written out): returns (offs, ons) with ons[i] between the last
    off-curve of group i and the first of group i+1. Integer mode doubles the
    coordinates so that the midpoints are integers."""
    per = 2 if cubic else 1
    offs = []
    for _ in range(k * per):
        p = pt()
        offs.append([p[0] * 2, p[1] * 2] if mode == "int" else p)
    groups = [offs[i * per : (i + 1) * per] for i in range(k)]
    ons = []
    for i in range(k):
        a, b = groups[i][-1], groups[(i + 1) % k][0]
        m = [(a[0] + b[0]) / 2, (a[1] + b[1]) / 2]
        if mode == "int":
            m = [int(m[0]), int(m[1])]
        ons.append(m)
    return groups, ons


def impliable_seg_contour(pt, mode, k, cubic, keep):
    """keep[i]: whether the on-curve point after group i is explicit (cubic: always)."""
    groups, ons = _impliable(pt, k, cubic, mode, None)
    if cubic or not any(keep):
        keep = [True] * k
    # start at an explicit on-curve point
    s = max(i for i in range(k) if keep[i])
    ops = [["moveTo", [ons[s]]]]
    cur = []
    for j in range(1, k + 1):
        i = (s + j) % k
        cur.extend(groups[i])
        if keep[i]:
            ops.append(["curveTo" if cubic else "qCurveTo", cur + [ons[i]]])
            cur = []
    ops.append(["closePath", []])
    return ops


def impliable_pt_contour(pt, mode, k, cubic, keep, rot):
    groups, ons = _impliable(pt, k, cubic, mode, None)
    if cubic or not any(keep):
        keep = [True] * k
    out = []
    for i in range(k):
        for p in groups[i]:
            out.append([p[0], p[1], None, False, None, None])
        if keep[i]:
            out.append([ons[i][0], ons[i][1], "curve" if cubic else "qcurve", True, None, None])
    rot %= len(out)
    return out[rot:] + out[:rot]


def r_seg_contour(rnd, pt, mode="int"):
    kind = rnd.choice(["normal"] * 8 + ["single", "noon", "noon", "impl"])
    if kind == "impl":
        k = rnd.randint(1, 4)
        return impliable_seg_contour(pt, mode, k, rnd.randrange(3) == 0, [rnd.randrange(3) != 0 for _ in range(k)])
    if kind == "single":
        return [["moveTo", [pt()]], ["closePath" if rnd.randrange(2) else "endPath", []]]
    if kind == "noon":
        n = rnd.choice([1, 2, 2, 3, 3, 4, 4, 5, 7])
        offs = [pt() for _ in range(n)]
        if n >= 2 and rnd.randrange(6) == 0:
            offs[-1] = list(offs[0])
        return [["qCurveTo", offs + [None]], ["closePath", []]]
    p0 = pt()
    ops = [["moveTo", [p0]]]
    for _ in range(rnd.randint(1, 5)):
        t = rnd.choice(_SEGKINDS)
        if t == "l":
            ops.append(["lineTo", [pt()]])
        elif t == "c":
            ops.append(["curveTo", [pt(), pt(), pt()]])
        elif t == "super":
            ops.append(["curveTo", [pt() for _ in range(rnd.choice([4, 4, 5, 6, 7]))]])
        elif t == "short":
            ops.append(["curveTo", [pt() for _ in range(rnd.choice([1, 2]))]])
        elif t == "q":
            ops.append(["qCurveTo", [pt() for _ in range(rnd.choice([2, 2, 2, 3, 3, 4, 5]))]])
        else:
            ops.append(["qCurveTo", [pt()]])
        if rnd.randrange(10) == 0:
            ops.append(["lineTo", [list(ops[-1][1][-1])]])
    closed = rnd.randrange(3) != 0
    if closed:
        how = rnd.choice(["plain", "plain", "line-to-start", "last-on-start"])
        if how == "line-to-start":
            ops.append(["lineTo", [list(p0)]])
        elif how == "last-on-start":
            ops[-1] = [ops[-1][0], ops[-1][1][:-1] + [list(p0)]]
    ops.append(["closePath" if closed else "endPath", []])
    return ops


def r_seg_glyph(rnd, mode, comp_names=(), max_contours=4, min_contours=0):
    pt = r_pointfn(rnd, mode)
    parts = [r_seg_contour(rnd, pt, mode) for _ in range(rnd.randint(min_contours, max_contours))]
    if comp_names:
        for _ in range(rnd.choice([0, 0, 1, 1, 2])):
            parts.insert(rnd.randint(0, len(parts)), [["addComponent", [rnd.choice(list(comp_names)), r_transform(rnd, mode)]]])
    return [op for part in parts for op in part]


def r_flags(rnd):
    return dict(oicl=bool(rnd.randrange(2)), guess=bool(rnd.randrange(2)), drop=bool(rnd.randrange(2)), opt=bool(rnd.randrange(2)), isp=bool(rnd.randrange(2)))


def r_seg_case(rnd, mode):
    glyphs = {
        "a": r_seg_glyph(rnd, mode, min_contours=1, max_contours=2),
        "b": r_seg_glyph(rnd, mode, max_contours=2),
        "c": r_seg_glyph(rnd, mode, comp_names=("a", "b"), max_contours=1),
    }
    ops = r_seg_glyph(rnd, mode, comp_names=GLYPH_NAMES if rnd.randrange(4) else ())
    if not any(op[0] == "addComponent" for op in ops) and rnd.randrange(2):
        glyphs = {"a": [], "b": [], "c": []}  # keep component-free cases small
    return dict(kind="seg", mode=mode, glyphs=glyphs, ops=ops, T=r_transform(rnd, mode), flags=r_flags(rnd))


def r_pt_contour(rnd, pt, ids, mode="int"):
    if rnd.randrange(12) == 0:
        k = rnd.randint(1, 4)
        return impliable_pt_contour(pt, mode, k, rnd.randrange(3) == 0, [rnd.randrange(3) != 0 for _ in range(k)], rnd.randrange(12))

    def mk(p, t):
        ident = None
        if rnd.randrange(6) == 0:
            ident = "id%d" % len(ids)
            ids.append(ident)
        return [p[0], p[1], t, bool(rnd.randrange(2)) if t is not None else False, rnd.choice(_NAMES), ident]

    kind = rnd.choice(["normal"] * 8 + ["single", "noon", "noon"])
    if kind == "single":
        return [mk(pt(), rnd.choice(["line", "qcurve", None, "move"]))]
    if kind == "noon":
        pts = [pt() for _ in range(rnd.choice([2, 2, 3, 3, 4, 5, 7]))]
        if rnd.randrange(6) == 0:
            pts[-1] = list(pts[0])
        return [mk(p, None) for p in pts]
    segs = []
    for _ in range(rnd.randint(1, 5)):
        t = rnd.choice(_SEGKINDS)
        if t == "l":
            segs.append(("line", 0))
        elif t == "c":
            segs.append(("curve", 2))
        elif t == "super":
            segs.append(("curve", rnd.choice([3, 3, 4, 5, 6])))
        elif t == "short":
            segs.append(("curve", rnd.choice([0, 1])))
        elif t == "q":
            segs.append(("qcurve", rnd.choice([1, 1, 1, 2, 2, 3, 4])))
        else:
            segs.append(("qcurve", 0))
    is_open = rnd.randrange(3) == 0
    out = []
    if is_open:
        out.append(mk(pt(), "move"))
    for t, noff in segs:
        for _ in range(noff):
            out.append(mk(pt(), None))
        out.append(mk(pt(), t))
        if rnd.randrange(10) == 0:
            out.append(mk(out[-1][:2], "line"))
    if not is_open:
        if rnd.randrange(4) == 0 and len(out) > 1:
            first_on = next(p for p in out if p[2] is not None)
            out[-1] = [first_on[0], first_on[1]] + out[-1][2:]
        r = rnd.randrange(len(out))
        out = out[r:] + out[:r]
    return out


def r_pt_glyph(rnd, mode, comp_names=(), max_contours=4, min_contours=0):
    pt = r_pointfn(rnd, mode)
    ids = []
    items = []
    for _ in range(rnd.randint(min_contours, max_contours)):
        c = r_pt_contour(rnd, pt, ids, mode)
        ident = None
        if rnd.randrange(4) == 0:
            ident = "cid%d" % len(ids)
            ids.append(ident)
        items.append({"c": c, "id": ident})
    if comp_names:
        for _ in range(rnd.choice([0, 0, 1, 1, 2])):
            ident = None
            if rnd.randrange(3) == 0:
                ident = "kid%d" % len(ids)
                ids.append(ident)
            items.insert(rnd.randint(0, len(items)), {"comp": [rnd.choice(list(comp_names)), r_transform(rnd, mode), ident]})
    return items


def r_pt_case(rnd, mode):
    glyphs = {
        "a": r_pt_glyph(rnd, mode, min_contours=1, max_contours=2),
        "b": r_pt_glyph(rnd, mode, max_contours=2),
        "c": r_pt_glyph(rnd, mode, comp_names=("a", "b"), max_contours=1),
    }
    items = r_pt_glyph(rnd, mode, comp_names=GLYPH_NAMES if rnd.randrange(4) else ())
    if not any("comp" in it for it in items) and rnd.randrange(2):
        glyphs = {"a": [], "b": [], "c": []}
    fl = r_flags(rnd)
    return dict(kind="pt", mode=mode, glyphs=glyphs, items=items, T=r_transform(rnd, mode), flags=dict(oicl=fl["oicl"], guess=fl["guess"], drop=fl["drop"]))


def r_alg_case(rnd):
    mode = rnd.choice(["int", "float", "float"])
    return dict(
        kind="alg",
        mode=mode,
        A=r_transform(rnd, mode, False),
        B=r_transform(rnd, mode, False),
        C=r_transform(rnd, mode, False),
        pts=[[r_coord(rnd, mode), r_coord(rnd, mode)] for _ in range(rnd.randint(1, 4))],
        angle=rnd.choice([0.0, _math.pi / 2, _math.pi, -_math.pi / 2]) if rnd.randrange(3) == 0 else rnd.uniform(-6.3, 6.3),
        skew=[rnd.uniform(-1.2, 1.2), rnd.uniform(-1.2, 1.2)],
        sc=[rnd.randint(-3, 3) if rnd.randrange(2) else rnd.uniform(-3, 3) for _ in range(2)],
        tr=[r_coord(rnd, mode), r_coord(rnd, mode)],
    )


def build_case(kind, mode, seed):
    rnd = _random.Random(seed)
    if kind == "seg":
        return r_seg_case(rnd, mode)
    if kind == "pt":
        return r_pt_case(rnd, mode)
    if kind == "alg":
        return r_alg_case(rnd)
    raise ValueError(kind)


def fast_case(kind, mode):
    """Strategy: Hypothesis draws one 62-bit seed, the case is built from it."""
    return st.integers(0, 2**62 - 1).map(lambda s: build_case(kind, mode, s))
