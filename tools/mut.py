#!/usr/bin/env python3
"""Sensitivity helper: tools/mut.py <PROP> <relpath under Lib/fontTools> <old> <new> [--tier quick]
Copies /repo/Lib to a scratch dir outside /repo and /verif, applies a textual
mutation, runs ./check <PROP> with VERIF_REPO pointing at it, removes the copy.
Prints the check's tail and 'CAUGHT'/'MISSED'."""
import os, shutil, subprocess, sys, tempfile
prop, rel, old, new = sys.argv[1:5]
tier = sys.argv[6] if len(sys.argv) > 6 else "quick"
d = tempfile.mkdtemp(prefix="ftmut.", dir="/tmp")
try:
    shutil.copytree("/repo/Lib", d + "/Lib", ignore=shutil.ignore_patterns("__pycache__", "*.pyc"))
    os.symlink("/repo/Tests", d + "/Tests")
    p = d + "/Lib/fontTools/" + rel
    s = open(p).read()
    if s.count(old) < 1:
        print("MUTATION-NOT-APPLICABLE: pattern not found"); sys.exit(3)
    open(p, "w").write(s.replace(old, new, 1))
    env = dict(os.environ, VERIF_REPO=d, VERIF_OUT=d + "/out")
    r = subprocess.run(["./check", prop, "--tier", tier], cwd="/verif", env=env, capture_output=True, text=True)
    out = (r.stdout + r.stderr).strip().splitlines()
    print("\n".join(out[-8:]))
    print("exit", r.returncode, "=>", "CAUGHT" if r.returncode == 1 else "MISSED" if r.returncode == 0 else "HARNESS-ERROR")
finally:
    shutil.rmtree(d, ignore_errors=True)
    # restore evidence from the real tree is the caller's job (re-run the check)
