#!/bin/bash
cd "$(dirname "$0")/.."; export PYTHONHASHSEED=0 SOURCE_DATE_EPOCH=1700000000 PYTHONDONTWRITEBYTECODE=1 FONTTOOLS_VERIF=1 LC_ALL=C.UTF-8
for id in "$@"; do timeout 3000 /venv/bin/python tools/detcheck.py $id 1 2>&1 | tail -n 6 | cut -c1-400; done
