import sys, io
sys.path.insert(0, "/repo/Lib")
from fontTools.ttLib import TTFont
f = TTFont(); f.importXML("/repo/Tests/cffLib/data/TestCFF2Widths.ttx")
td = f["CFF2"].cff.topDictIndex[0]
print("before", "charset" in td.__dict__, td.order[:20] if hasattr(td,"order") else None)
a = f.getTableData("CFF2")
print("after1", "charset" in td.__dict__, type(td.__dict__.get("charset")))
b = f.getTableData("CFF2")
c = f.getTableData("CFF2")
print(len(a), len(b), len(c), b == c)
for i,(x,y) in enumerate(zip(a,b)):
    if x!=y:
        print("first diff at", i, a[i-4:i+8].hex(), b[i-4:i+8].hex()); break
# reload from binary and recompile twice
f2 = TTFont(); f2["CFF2"]=f["CFF2"]
g = TTFont(io.BytesIO()) if False else None
