import sys, time, json, collections
sys.path.insert(0, "/verif")
from vf import runner
runner.bootstrap()
from props import c14
kind, mode, n, seed = sys.argv[1], sys.argv[2], int(sys.argv[3]), int(sys.argv[4])
t0 = time.time()
if kind == "fixed":
    acc = c14.run_job(dict(kind="fixed", mode="int", name="fixed"))
else:
    acc = c14.run_job(dict(kind=kind, mode=mode, name="x", n=n, seed=seed))
print("evals", acc.evals, "nontrivial", len(acc.nontrivial), "time %.1f" % (time.time() - t0))
b = collections.Counter()
for k, v in acc._bucket_counts.items():
    print("BUCKET", v, k)
seen = set()
for f in acc.failures:
    key = (f["clause"], f["kind"], f["where"])
    if key in seen: continue
    seen.add(key)
    print("FAIL", key, f["detail"][:300])
    print("   case", json.dumps(f["case"])[:1500])
if "-l" in sys.argv:
    for k, v in sorted(acc.labels.items()): print("  ", k, v)
print("excluded", dict(acc.excluded))
