"""HarfBuzz as an independent OpenType implementation (uharfbuzz).

HarfBuzz parses the compiled bytes itself: cmap, hmtx/HVAR/vmtx/VVAR, glyf+gvar,
CFF, CFF2, VARC outlines, avar/fvar normalisation, MVAR, GSUB/GPOS/GDEF.
"""

import uharfbuzz as hb

GID_BASE = 0x100000


class _RecPen:
    """Minimal segment pen that records calls (no fontTools involved)."""

    def __init__(self):
        self.value = []

    def moveTo(self, p):
        self.value.append(("moveTo", (p,)))

    def lineTo(self, p):
        self.value.append(("lineTo", (p,)))

    def qCurveTo(self, *pts):
        self.value.append(("qCurveTo", pts))

    def curveTo(self, *pts):
        self.value.append(("curveTo", pts))

    def closePath(self):
        self.value.append(("closePath", ()))

    def endPath(self):
        self.value.append(("endPath", ()))


class HBFont:
    def __init__(self, data, index=0):
        self.data = data
        self.blob = hb.Blob(data)
        self.face = hb.Face(self.blob, index)
        self.font = hb.Font(self.face)
        self.upem = self.face.upem
        self.font.scale = (self.upem, self.upem)
        self.loc = None
        self._gidfont = None

    # -- variations ------------------------------------------------------
    def set_location(self, loc):
        """loc: dict axis tag -> user-space value (missing axes at default), or None."""
        self.loc = dict(loc) if loc else None
        self.font.set_variations(self.loc or {})
        if self._gidfont is not None:
            self._gidfont.set_variations(self.loc or {})

    def set_normalized(self, coords):
        """coords: list of normalized floats in fvar axis order."""
        self.font.set_var_coords_normalized([float(c) for c in coords])
        if self._gidfont is not None:
            self._gidfont.set_var_coords_normalized([float(c) for c in coords])

    def normalized(self):
        return list(self.font.get_var_coords_normalized())

    def axes(self):
        return [(a.tag, a.min_value, a.default_value, a.max_value) for a in self.face.axis_infos]

    # -- glyph data --------------------------------------------------------
    def glyph_count(self):
        return self.face.glyph_count

    def draw(self, gid):
        pen = _RecPen()
        self.font.draw_glyph_with_pen(gid, pen)
        return pen.value

    def h_advance(self, gid):
        return self.font.get_glyph_h_advance(gid)

    def v_advance(self, gid):
        return self.font.get_glyph_v_advance(gid)

    def nominal(self, cp):
        return self.font.get_nominal_glyph(cp)

    def variation_glyph(self, cp, vs):
        return self.font.get_variation_glyph(cp, vs)

    def unicodes(self):
        return sorted(self.face.unicodes)

    def metric(self, tag):
        return self.font.get_metric_position(tag)

    def extents(self, gid):
        return self.font.get_glyph_extents(gid)

    # -- shaping -------------------------------------------------------------
    def _shape(self, font, buf, features, script, language, direction, trace):
        if direction:
            buf.direction = direction
        if script:
            buf.set_script_from_ot_tag(script)
        if language:
            buf.set_language_from_ot_tag(language)
        buf.guess_segment_properties()
        msgs = []
        if trace:

            def on_msg(m):
                msgs.append(m)
                return True

            buf.set_message_func(on_msg)
        hb.shape(font, buf, features or {}, shapers=["ot"])
        out = []
        for info, pos in zip(buf.glyph_infos, buf.glyph_positions):
            out.append((info.codepoint, info.cluster, pos.x_advance, pos.y_advance, pos.x_offset, pos.y_offset))
        return (out, msgs) if trace else out

    def shape_text(self, text, features=None, script=None, language=None, direction=None, trace=False):
        buf = hb.Buffer()
        buf.add_str(text)
        return self._shape(self.font, buf, features, script, language, direction, trace)

    def gid_font(self):
        """A second hb.Font on the same face whose nominal-glyph function maps
        GID_BASE+gid -> gid, so that raw glyph-ID runs can be shaped; advances are
        delegated to the untouched font."""
        if self._gidfont is None:
            f = hb.Font(self.face)
            f.scale = (self.upem, self.upem)
            funcs = hb.FontFuncs.create()
            n = self.face.glyph_count
            base = self.font

            def nominal(font, cp, data):
                if GID_BASE <= cp < GID_BASE + n:
                    return cp - GID_BASE
                return 0

            def hadv(font, gid, data):
                return base.get_glyph_h_advance(gid)

            def vadv(font, gid, data):
                return base.get_glyph_v_advance(gid)

            funcs.set_nominal_glyph_func(nominal)
            funcs.set_glyph_h_advance_func(hadv)
            funcs.set_glyph_v_advance_func(vadv)
            f.funcs = funcs
            if self.loc:
                f.set_variations(self.loc)
            self._gidfont = f
            self._gidfuncs = funcs
        return self._gidfont

    def shape_gids(self, gids, features=None, script=None, language=None, direction="ltr", trace=False):
        buf = hb.Buffer()
        buf.add_codepoints([GID_BASE + g for g in gids])
        return self._shape(self.gid_font(), buf, features, script, language, direction, trace)

    def layout_scripts(self, table):
        return list(self.face.get_table_script_tags(table))

    def layout_languages(self, table, script_index):
        return list(self.face.get_script_language_tags(table, script_index))

    def layout_features(self, table, script_index, lang_index):
        return list(self.face.get_language_feature_tags(table, script_index, lang_index))
