"""C11 — compiled feature files do what their rules say.

Oracle 1: HarfBuzz shaping of the compiled tables on generated glyph runs == vf.ref_layout's
          interpretation of the structured program (glyphs and positions).
Oracle 2: the lookups HarfBuzz starts for the feature are as many as the program wrote, and their
          indices are consistent with definition order across all runs of a program.
Oracle 3: text -> asFea -> text is a fixed point after one iteration and compiles to identical tables
          (generated programs and the feaLib corpus).
"""

import copy
import io
import os
import random
import re

from vf import gen_fea
from vf.runner import Acc, CaseTimeout, HarnessError, TESTS, short, subseed, time_limit

ID = "C11"
LEVEL = "exploration"
RULE = (
    "structured feature programs generated over a fixed 67-glyph font (glyph/mark classes, GDEF block, languagesystems, "
    "standalone and in-feature named lookups, lookup references, lookupflags, script/language sections; GSUB single/"
    "multiple/alternate/ligature/chaining-contextual with inline and referenced lookups/ignore/reverse; GPOS single/"
    "pair specific+enum+class/cursive/mark-base/mark-ligature/mark-mark/chaining-contextual with inline values and "
    "referenced lookups/ignore), printed by the generator, compiled by feaLib into the font, shaped by HarfBuzz on 8 glyph "
    "runs per program (6 built from the rules' own input sequences with skippable glyphs interleaved, 2 random) with one "
    "feature switched on; compared with vf.ref_layout's interpretation of the structure. Plus parse/asFea round trip and "
    "table identity for every generated program and every Tests/feaLib/data/*.fea. non-trivial = the reference fired >= 1 "
    "rule on the run (round trip: the file has >= 1 rule statement); distinct by (program, feature, langsys, run)"
)
ASSUMPTIONS = [
    "HarfBuzz 12.1 implements OpenType layout correctly; only one generated feature is enabled per run, script latn/cyrl/grek/DFLT (default shaper), direction ltr",
    "HarfBuzz conventions mirrored by the reference (checked on hand-made cases first): yAdvance ignored in horizontal text; GDEF mark advances zeroed after GPOS, "
    "and with no GPOS table the mark is shifted back by its advance; attachment offsets are relative to the attached glyph's pen position; cursive: previous advance = "
    "exit.x, current glyph shifted by entry.x and hung off the previous one; mark-to-base looks for the nearest preceding non-mark glyph; a class-pair subtable that covers "
    "the first glyph ends the lookup at that position and consumes the second glyph when any class rule of the lookup has a second value record",
    "class-pair rules of one lookup are generated with first classes identical-or-disjoint and second classes identical-or-disjoint (one class matrix, independent of subtable partitioning); "
    "within one pair lookup either all or none of the specific (and of the class) rules carry a second value record",
    "adjacent anonymous single+multiple/ligature rule groups with equal lookupflag are generated only when folding them into one lookup cannot change the result; "
    "inline contextual ligature rules of one lookup whose sequences are prefixes of each other are not generated (finding F1, counted)",
    "runs in which a later multi-glyph match would use a glyph that was skipped inside an earlier ligature are left out (HarfBuzz ligature-component policy, counted)",
    "contextual rules reference only single/alternate (GSUB) or single/pair/mark-base (GPOS) lookups; length-changing nested lookups only in their inline form",
    "corpus .fea files are built into the glyph order of Tests/feaLib/builder_test.py; files the unchanged builder rejects for that font (variable-font syntax, deliberate error cases) are skipped and counted",
]
WALL_BUDGET = {"quick": 900, "thorough": 3 * 3600}

RT_TABLES = ["GSUB", "GPOS", "GDEF", "BASE", "name", "OS/2", "head", "hhea", "vhea", "STAT"]
DEFAULT_OFF = ["abvm", "blwm", "ccmp", "locl", "mark", "mkmk", "rlig", "calt", "clig", "curs", "dist", "kern", "liga", "rclt", "rvrn", "frac", "numr", "dnom", "ltra", "ltrm"]

REQUIRED_LABELS = [
    "fired:gsub1", "fired:gsub2", "fired:gsub3", "fired:gsub4", "fired:gsub6", "fired:gsub8",
    "fired:gpos1", "fired:gpos2:specific", "fired:gpos2:enum", "fired:gpos2:class", "fired:gpos3", "fired:gpos4", "fired:gpos5", "fired:gpos6", "fired:gpos8",
    "fired:flag:IgnoreMarks", "fired:flag:IgnoreLigatures", "fired:flag:IgnoreBaseGlyphs", "fired:flag:MarkAttachmentType", "fired:flag:UseMarkFilteringSet",
    "fired:ignore-sub", "fired:ignore-pos", "fired:named-lookup", "fired:lookup-reference-in-context", "fired:lookup-reference-in-feature",
    "fired:langsys:script", "fired:langsys:language", "fired:gsub6:inline-single", "fired:gsub6:inline-ligature", "fired:gsub6:inline-multiple",
    "fired:gpos8:inline-value", "fired:anysubst-merged-groups", "roundtrip:generated", "roundtrip:corpus",
    "program:class-mixing-glyph-names-before-class-reference",
]


# ---------------------------------------------------------------------------
# compiling


def compile_text(text, filename=None):
    """feature text -> (font bytes, TTFont) on the fixed skeleton"""
    from fontTools.feaLib.builder import addOpenTypeFeaturesFromString
    from fontTools.ttLib import TTFont

    font = TTFont(io.BytesIO(gen_fea.skeleton_bytes()), recalcTimestamp=False)
    addOpenTypeFeaturesFromString(font, text, filename=filename)
    buf = io.BytesIO()
    font.save(buf)
    return buf.getvalue(), font


def table_bytes(data):
    from fontTools.ttLib import TTFont

    f = TTFont(io.BytesIO(data), lazy=True)
    out = {}
    for tag in RT_TABLES:
        if tag in f:
            b = f.reader[tag]
            if tag == "head":
                b = b[:8] + b"\0\0\0\0" + b[12:]
            out[tag] = b
    return out


def roundtrip_texts(text, glyph_names, filename=None):
    from fontTools.feaLib.parser import Parser

    def parse(t):
        fh = io.StringIO(t)
        if filename:
            fh.name = filename
        return Parser(fh, glyphNames=glyph_names).parse()

    t1 = parse(text).asFea()
    t2 = parse(t1).asFea()
    return t1, t2


def first_diff(a, b):
    la, lb = a.splitlines(), b.splitlines()
    for i, (x, y) in enumerate(zip(la, lb)):
        if x != y:
            return "line %d: %r != %r" % (i + 1, x[:120], y[:120])
    return "length %d != %d lines" % (len(la), len(lb))


# ---------------------------------------------------------------------------
# glyph runs


def vocabulary(program):
    seen = []

    def add(gl):
        for g in gl:
            if g not in seen:
                seen.append(g)

    for L in gen_fea.all_lookups(program):
        for rule in L["rules"]:
            for s in _rule_sets(L, rule):
                add(s)
    for _n, defs in program["markclasses"]:
        for gl, _a in defs:
            add(gl)
    return seen


def _rule_sets(L, rule):
    t = L["type"]
    if t in ("single", "reverse"):
        yield rule["s"]["g"]
        yield rule["o"]["g"]
        for s in rule.get("pre", []) + rule.get("suf", []):
            yield s["g"]
    elif t == "multiple":
        yield [rule["s"]]
        yield rule["o"]
    elif t == "alternate":
        yield [rule["s"]]
        yield rule["o"]["g"]
    elif t == "ligature":
        for c in rule["s"]:
            yield c["g"]
        yield [rule["o"]]
    elif t in ("context", "cpos"):
        for s in rule["pre"] + rule["suf"]:
            yield s["g"]
        for x in rule["inp"]:
            yield x["s"]["g"]
    elif t == "pair":
        yield rule["a"]["g"]
        yield rule["b"]["g"]
    else:
        yield rule["s"]["g"]


def instantiate(rnd, layout, L, rule, vocab):
    """A glyph sequence on which `rule` of lookup L would match if nothing else interfered."""
    P = layout.P
    t = L["type"]
    pick = lambda s: rnd.choice(s["g"])
    marks_of = lambda mc: list(layout.markclass[mc])
    seq = []
    if t in ("single", "spos", "cursive"):
        seq = [pick(rule["s"])]
        if t == "cursive":
            others = [r2 for r2 in L["rules"]]
            seq = [pick(rnd.choice(others)["s"]) for _ in range(rnd.randint(2, 4))]
    elif t in ("multiple", "alternate"):
        seq = [rule["s"]]
    elif t == "ligature":
        seq = [pick(c) for c in rule["s"]]
    elif t in ("context", "cpos"):
        seq = [pick(s) for s in rule["pre"]] + [pick(x["s"]) for x in rule["inp"]] + [pick(s) for s in rule["suf"]]
    elif t == "reverse":
        seq = [pick(s) for s in rule["pre"]] + [pick(rule["s"])] + [pick(s) for s in rule["suf"]]
    elif t == "pair":
        seq = [pick(rule["a"]), pick(rule["b"])]
        if rnd.random() < 0.3:
            seq.append(pick(rnd.choice(L["rules"])["b"]))
    elif t in ("markbase", "marklig", "markmark"):
        parts = rule["marks"] if "marks" in rule else [m for comp in rule["comps"] for m in comp]
        seq = [pick(rule["s"])]
        if t == "markmark" and rnd.random() < 0.7:
            seq.insert(0, rnd.choice([g for g in vocab if layout.cls.get(g, 0) != 3] or vocab))
        for _ in range(rnd.randint(1, 2)):
            _a, mc = rnd.choice(parts)
            seq.append(rnd.choice(marks_of(mc)))
        return seq  # no interleaving: attachment looks at neighbours itself
    # interleave glyphs the lookup skips
    skippable = [g for g in vocab + P["gdef"]["mark"][:3] if layout.skip(L["flag"], g)]
    if skippable and len(seq) > 1 and rnd.random() < 0.6:
        out = [seq[0]]
        for g in seq[1:]:
            if rnd.random() < 0.5:
                out.extend(rnd.choice(skippable) for _ in range(rnd.randint(1, 2)))
            out.append(g)
        seq = out
    return seq


def feature_lookups(layout, feat):
    out = []
    for it in feat["items"]:
        if it["k"] in ("anon", "block"):
            out.append(it["lookup"])
        elif it["k"] == "ref":
            out.append(layout.by_name[it["name"]])
    return out


def gen_run(rnd, layout, feat, vocab, biased):
    lookups = feature_lookups(layout, feat)
    run = []
    if biased:
        for _ in range(rnd.choice([1, 1, 2, 3])):
            L = rnd.choice(lookups)
            rule = rnd.choice(L["rules"])
            if L["type"] in ("context", "cpos") and rnd.random() < 0.3:
                # also aim at what the referenced lookups need
                pass
            run.extend(rnd.choice(vocab) for _ in range(rnd.choice([0, 0, 1, 2])))
            run.extend(instantiate(rnd, layout, L, rule, vocab))
        run.extend(rnd.choice(vocab) for _ in range(rnd.choice([0, 1, 2])))
    else:
        run = [rnd.choice(vocab) for _ in range(rnd.randint(3, 10))]
    return run[:24]


def gen_langsys(rnd, program, feat):
    """(script, language) to ask HarfBuzz for"""
    cands = [("DFLT", "dflt"), ("latn", "dflt")]
    cands += [tuple(x) for x in program["langsys"]]
    script = None
    for it in feat["items"]:
        if it["k"] == "script":
            script = it["tag"]
            cands += [(script, "dflt")] * 2
        elif it["k"] == "language":
            cands += [(script, it["tag"])] * 3
    cands.append((rnd.choice(gen_fea.SCRIPTS), rnd.choice(gen_fea.LANGS)))
    return rnd.choice(cands)


# ---------------------------------------------------------------------------
# one program

_MIXED_CLASS = re.compile(r"\[[^\]@]*[A-Za-z0-9_.][^\]@]*@[A-Za-z0-9_.]+[^\]]*\]")



def check_program(acc, program, runs_seed, nruns=8, only=None):
    """Compile the program once and run all oracles. `only`: dict(tag, value, script, lang, run) for replay."""
    from vf.hbref import HBFont
    from vf.ref_layout import Layout

    text = gen_fea.print_program(program)
    pcase = dict(kind="program", program=program, runs_seed=runs_seed)
    for attempt in (1, 2, 3):
        # compiling takes ~10 ms; the limit only guards against a hang, and a stalled machine gets another try
        try:
            with time_limit(120):
                data, font = compile_text(text)
            break
        except CaseTimeout:
            if attempt == 3:
                acc.inconclusive += 1
                return
        except Exception as e:
            acc.fail_exc("compile-generated-program", e, pcase, extra=" | " + text[:300].replace("\n", " / "))
            return
    if only is None:
        for lab in compiled_shape_labels(font):
            acc.label(lab)
        if _MIXED_CLASS.search(text):
            acc.label("program:class-mixing-glyph-names-before-class-reference")
    layout = Layout(program)
    feats = [t for t in program["top"] if t["k"] == "feature"]
    all_tags = [t["tag"] for t in feats]
    hb = HBFont(data)
    vocab = vocabulary(program)
    rnd = random.Random(runs_seed)
    index_of = {"GSUB": {}, "GPOS": {}}  # lookup id -> HarfBuzz lookup index seen
    merged = sum(1 for L in layout.lookups if L.get("merge"))
    if only is None:
        if merged:
            acc.label("program:anysubst-merged-groups")
        plan = []
        for k in range(nruns):
            feat = feats[k % len(feats)]
            has_alt = any(L["type"] == "alternate" or any(r.get("inline") and r["inline"]["k"] == "alternate" for r in L["rules"] if L["type"] == "context") for L in layout.lookups)
            value = rnd.choice([1, 2, 3, 4]) if has_alt and feat["table"] == "GSUB" else rnd.choice([1, 1, 1, 2, 5])
            script, lang = gen_langsys(rnd, program, feat)
            run = gen_run(rnd, layout, feat, vocab, biased=(k < nruns - 2))
            plan.append(dict(tag=feat["tag"], value=value, script=script, lang=lang, run=run))
    else:
        plan = [only]
    for item in plan:
        tag, value, script, lang, run = item["tag"], item["value"], item["script"], item["lang"], item["run"]
        case = dict(kind="shape", program=program, tag=tag, value=value, script=script, lang=lang, run=run)
        exp = layout.shape(run, tag, value, script, lang)
        features = {t: False for t in DEFAULT_OFF + all_tags}
        features[tag] = value
        try:
            got, msgs = hb.shape_gids([gen_fea.GID[g] for g in run], features=features, script=script, language=lang.strip(), direction="ltr", trace=True)
        except Exception as e:
            raise HarnessError("HarfBuzz failed: %r" % e)
        labels = ["table:" + next(t["table"] for t in feats if t["tag"] == tag)]
        labels += ["fired:" + e for e in sorted(exp["events"])]
        refs_in_feature = any(it["k"] == "ref" for t in feats if t["tag"] == tag for it in t["items"])
        if exp["events"] and refs_in_feature:
            for t in feats:
                if t["tag"] == tag:
                    ref_ids = set(layout.by_name[it["name"]]["id"] for it in t["items"] if it["k"] == "ref")
                    if ref_ids & set(exp["lookups"][0] + exp["lookups"][1]):
                        labels.append("fired:lookup-reference-in-feature")
        applied = [L for L in layout.lookups if L["id"] in exp["lookups"][0] + exp["lookups"][1]]
        if exp["events"] and any(L.get("merge") for L in applied):
            labels.append("fired:anysubst-merged-groups")
        nontrivial = bool(exp["events"] - {"langsys:script", "langsys:language"})
        if exp["excluded"]:
            acc.exclude(exp["excluded"])
            acc.case((text, tag, value, script, lang, run), nontrivial=False, labels=["run:excluded"])
            continue
        got_glyphs = [gen_fea.GLYPHS[g[0]] for g in got]
        got_pos = [tuple(g[2:6]) for g in got]
        if got_glyphs != exp["glyphs"]:
            acc.fail("shaping", "glyph-sequence", "feature %s=%s %s/%s run %s: HarfBuzz %s, reference %s" % (tag, value, script, lang, " ".join(run), " ".join(got_glyphs), " ".join(exp["glyphs"])), case, where=_where(exp))
        elif got_pos != exp["pos"]:
            d = [(i, gg, a, b) for i, (gg, a, b) in enumerate(zip(got_glyphs, got_pos, exp["pos"])) if a != b]
            acc.fail("shaping", "positions", "feature %s=%s %s/%s run %s: at %s HarfBuzz (xa,ya,xo,yo)=%s, reference %s" % (tag, value, script, lang, " ".join(run), "%d:%s" % d[0][:2], d[0][2], d[0][3]), case, where=_where(exp))
        # oracle 2: lookups started
        started = {"GSUB": [], "GPOS": []}
        table = None
        for m in msgs:
            if m.startswith("start table "):
                table = m.split()[2]
            elif m.startswith("start lookup ") and table in started:
                started[table].append(int(m.split()[2]))
        for ti, table in enumerate(("GSUB", "GPOS")):
            ids = [i for i in exp["lookups"][ti] if not next(L for L in layout.lookups if L["id"] == i).get("merge")]
            st = started[table]
            if st != sorted(set(st)):
                acc.fail("lookup-order", "not-increasing", "%s lookups started %r" % (table, st), case)
            elif len(st) != len(ids):
                acc.fail("lookup-order", "lookup-count", "feature %s %s/%s %s: HarfBuzz started lookups %r, the feature has %d lookups written (ids %r)" % (tag, script, lang, table, st, len(ids), ids), case)
            else:
                for i, n in zip(ids, st):
                    old = index_of[table].setdefault(i, n)
                    if old != n:
                        acc.fail("lookup-order", "inconsistent-index", "%s lookup #%d (definition order) seen as index %d and %d" % (table, i, old, n), case)
        acc.case((text, tag, value, script, lang, run), nontrivial=nontrivial, labels=labels, sample=dict(feature=tag, run=run, result=exp["glyphs"], fired=sorted(exp["events"])) if nontrivial and len(exp["events"]) > 3 else None)
    for table in ("GSUB", "GPOS"):
        pairs = sorted(index_of[table].items())
        idx = [n for _i, n in pairs]
        if idx != sorted(idx) or len(set(idx)) != len(idx):
            acc.fail("lookup-order", "definition-order", "%s lookups in definition order have indices %r" % (table, pairs), pcase)
    if only is None:
        check_roundtrip_generated(acc, program, text, data)


def compiled_shape_labels(font):
    """Coverage information only: which subtable formats the compiler chose."""
    out = set()
    for tag, ctx in (("GSUB", (5, 6)), ("GPOS", (7, 8))):
        if tag not in font:
            continue
        for lk in font[tag].table.LookupList.Lookup:
            for st in lk.SubTable:
                t = lk.LookupType
                if hasattr(st, "ExtSubTable"):
                    out.add("compiled:extension-lookup")
                    t = st.ExtensionLookupType
                    st = st.ExtSubTable
                if t in ctx:
                    out.add("compiled:%s-context-format-%d" % (tag, st.Format))
                elif tag == "GPOS" and t == 2:
                    out.add("compiled:pairpos-format-%d" % st.Format)
    return sorted(out)


def _where(exp):
    kinds = sorted(e.replace(":", "-") for e in exp["events"] if e.startswith(("gsub", "gpos")) and ":inline" not in e)
    return "+".join(kinds[:3])


def check_roundtrip_generated(acc, program, text, data):
    case = dict(kind="rt-gen", program=program)
    try:
        t1, t2 = roundtrip_texts(text, gen_fea.GLYPHS)
    except Exception as e:
        acc.fail_exc("roundtrip-generated", e, case)
        return
    ok = True
    if t1 != t2:
        ok = False
        acc.fail("roundtrip-generated", "asFea-not-fixed-point", first_diff(t1, t2), case)
    try:
        data1, _f = compile_text(t1)
    except Exception as e:
        acc.fail_exc("roundtrip-generated", e, case, extra=" (compiling the asFea text)")
        return
    a, b = table_bytes(data), table_bytes(data1)
    for tag in RT_TABLES:
        if a.get(tag) != b.get(tag):
            ok = False
            acc.fail("roundtrip-generated", "table-differs:" + tag, "table %s from the text and from its asFea() form differ (%s vs %s bytes)" % (tag, len(a.get(tag) or b""), len(b.get(tag) or b"")), case, where=tag)
    acc.case(("rt", text), nontrivial=True, labels=["roundtrip:generated"])


def check_text(acc, tseed, text=None):
    """Round-trip clause on a generated text of vf.gen_fea_text (no shaping oracle for these statement kinds)."""
    from vf import gen_fea_text

    labels = []
    if text is None:
        text, labels = gen_fea_text.gen_text(tseed)
    case = dict(kind="rt-text", tseed=tseed)
    try:
        with time_limit(120):
            data, _font = compile_text(text)
    except CaseTimeout:
        acc.inconclusive += 1
        return
    except Exception as e:
        # a text the unchanged library rejects is a generator error: counted, and the vacuity guard bounds the share
        acc.exclude("generated-text-rejected:%s" % type(e).__name__)
        acc.label("textgen:rejected")
        acc.extra.setdefault("textgen_rejections", [])
        if len(acc.extra["textgen_rejections"]) < 5:
            acc.extra["textgen_rejections"].append(short(str(e), 200))
        return
    try:
        t1, t2 = roundtrip_texts(text, gen_fea.GLYPHS)
    except Exception as e:
        acc.fail_exc("roundtrip-text", e, case)
        return
    if t1 != t2:
        acc.fail("roundtrip-text", "asFea-not-fixed-point", first_diff(t1, t2), case)
    try:
        data1, _f = compile_text(t1)
    except Exception as e:
        acc.fail_exc("roundtrip-text", e, case, extra=" (compiling the asFea text)")
        return
    a, b = table_bytes(data), table_bytes(data1)
    for tag in RT_TABLES + ["vmtx", "size"]:
        if a.get(tag) != b.get(tag):
            acc.fail("roundtrip-text", "table-differs:" + tag, "table %s from the text and from its asFea() form differ (%s vs %s bytes)" % (tag, len(a.get(tag) or b""), len(b.get(tag) or b"")), case, where=tag)
    acc.case(("rt-text", tseed), nontrivial=True, labels=["roundtrip:text"] + ["text:" + l for l in labels])


# ---------------------------------------------------------------------------
# corpus round trip


def corpus_files():
    root = os.path.join(TESTS, "feaLib", "data")
    out = []
    for dp, _dn, fn in os.walk(root):
        for f in fn:
            if f.endswith(".fea"):
                out.append(os.path.relpath(os.path.join(dp, f), TESTS))
    return sorted(out)


_corpus_order = None


def corpus_glyph_order():
    """The glyph order of Tests/feaLib/builder_test.py:makeTTFont, read from the test source."""
    global _corpus_order
    if _corpus_order is None:
        import re

        src = open(os.path.join(TESTS, "feaLib", "builder_test.py")).read()
        m = re.search(r'def makeTTFont\(\):\s+glyphs = """(.*?)"""\.split\(\)', src, re.S)
        if not m:
            raise HarnessError("cannot find makeTTFont glyph list in builder_test.py")
        glyphs = m.group(1).split()
        glyphs.extend("cid{:05d}".format(cid) for cid in range(800, 1001 + 1))
        _corpus_order = glyphs
    return list(_corpus_order)


def corpus_build(text_or_path, from_path, filename=None):
    from fontTools.feaLib.builder import addOpenTypeFeatures, addOpenTypeFeaturesFromString
    from fontTools.ttLib import TTFont

    font = TTFont()
    font.setGlyphOrder(corpus_glyph_order())
    if from_path:
        addOpenTypeFeatures(font, text_or_path)
    else:
        addOpenTypeFeaturesFromString(font, text_or_path, filename=filename)
    out = {}
    for tag in RT_TABLES:
        if tag in font:
            try:
                out[tag] = font[tag].compile(font)
            except Exception:
                buf = io.StringIO()
                from fontTools.misc.xmlWriter import XMLWriter

                w = XMLWriter(buf)
                font[tag].toXML(w, font)
                out[tag] = buf.getvalue()
    return out


def check_corpus_file(acc, rel):
    from fontTools.feaLib.error import FeatureLibError
    from fontTools.feaLib.parser import Parser

    path = os.path.join(TESTS, rel)
    case = dict(kind="rt-corpus", file=rel)
    order = corpus_glyph_order()
    try:
        with time_limit(120):
            try:
                doc = Parser(path, glyphNames=order).parse()
            except (FeatureLibError, OSError, UnicodeDecodeError) as e:
                acc.exclude("corpus-file-rejected-by-parser")
                return
            try:
                t1 = doc.asFea()
            except Exception as e:
                acc.fail_exc("roundtrip-corpus", e, case, extra=" (asFea of the parsed file)")
                return
            fh = io.StringIO(t1)
            fh.name = path
            try:
                doc2 = Parser(fh, glyphNames=order).parse()
                t2 = doc2.asFea()
            except Exception as e:
                acc.fail_exc("roundtrip-corpus", e, case, extra=" (parsing the asFea text)")
                return
            nrules = sum(1 for l in t1.splitlines() if l.strip().startswith(("sub ", "pos ", "rsub ", "enum ", "ignore ")))
            if t1 != t2:
                acc.fail("roundtrip-corpus", "asFea-not-fixed-point", "%s: %s" % (rel, first_diff(t1, t2)), case)
            try:
                a = corpus_build(path, True)
            except Exception as e:
                acc.exclude("corpus-file-rejected-by-builder:%s" % type(e).__name__)
                acc.case(("rtc", rel), nontrivial=nrules > 0, labels=["roundtrip:corpus", "roundtrip:corpus:text-only"])
                return
            try:
                b = corpus_build(t1, False, filename=path)
            except Exception as e:
                acc.fail_exc("roundtrip-corpus", e, case, extra=" (building the asFea text of %s)" % rel)
                return
            for tag in RT_TABLES:
                if a.get(tag) != b.get(tag):
                    acc.fail("roundtrip-corpus", "table-differs:" + tag, "%s: table %s differs between the file and its asFea() form" % (rel, tag), case, where=tag)
            acc.case(("rtc", rel), nontrivial=nrules > 0, labels=["roundtrip:corpus", "roundtrip:corpus:tables"])
    except CaseTimeout:
        acc.inconclusive += 1


# ---------------------------------------------------------------------------
# framework entry points


def jobs(tier, seed):
    thorough = tier == "thorough"
    total = 40000 if thorough else 1500
    per = 125 if thorough else 32
    J = []
    n = 0
    i = 0
    while n < total:
        k = min(per, total - n)
        J.append(dict(kind="gen", name="gen-%03d" % i, seed=subseed(seed, "gen", i), n=k))
        n += k
        i += 1
    # texts over the statement kinds outside the structured grammar (round-trip clause only)
    nt = 8000 if thorough else 640
    for k in range(16):
        J.append(dict(kind="textgen", name="textgen-%02d" % k, seed=subseed(seed, "textgen", k), n=nt // 16))
    files = corpus_files()
    shards = 8
    for s in range(shards):
        J.append(dict(kind="corpus", name="corpus-%d" % s, files=files[s::shards]))
    return J


def run_job(job):
    acc = Acc()
    if job["kind"] == "gen":
        excl = {}
        for i in range(job["n"]):
            pseed = subseed(job["seed"], "p", i)
            program = gen_fea.gen_program(pseed, excl)
            check_program(acc, program, subseed(job["seed"], "r", i))
        for k, v in excl.items():
            acc.exclude(k, v)
    elif job["kind"] == "textgen":
        for i in range(job["n"]):
            check_text(acc, subseed(job["seed"], "t", i))
    elif job["kind"] == "corpus":
        for rel in job["files"]:
            check_corpus_file(acc, rel)
    else:
        raise HarnessError("unknown job kind %r" % job["kind"])
    return acc


def replay(case):
    acc = Acc()
    if case["kind"] == "shape":
        check_program(acc, case["program"], 0, only=dict(tag=case["tag"], value=case["value"], script=case["script"], lang=case["lang"], run=case["run"]))
    elif case["kind"] == "program":
        check_program(acc, case["program"], case.get("runs_seed", 0))
    elif case["kind"] == "rt-gen":
        program = case["program"]
        text = gen_fea.print_program(program)
        data, _f = compile_text(text)
        check_roundtrip_generated(acc, program, text, data)
    elif case["kind"] == "rt-corpus":
        check_corpus_file(acc, case["file"])
    elif case["kind"] == "rt-text":
        check_text(acc, case["tseed"], text=case.get("text"))
    return acc.failures


def finish(total, tier, seed):
    missing = [l for l in REQUIRED_LABELS if total.labels.get(l, 0) == 0]
    if missing:
        raise HarnessError("rule kinds never fired in this run: %s" % ", ".join(missing))


# ---------------------------------------------------------------------------
# shrinking of a failing shaping case (greedy deletion, keeps the failure bucket)


def _fails_same(case, key):
    try:
        with time_limit(30):
            fs = replay(case)
    except BaseException:
        return None
    for f in fs:
        if "%s|%s|%s" % (f["clause"], f["kind"], f["where"]) == key:
            return f
    return None


_shrunk = 0


def shrink(f, key, tier, seed):
    import time

    global _shrunk
    _shrunk += 1
    if _shrunk > 6:  # many buckets: a broken build, not a subtle finding; do not spend minutes shrinking
        return None
    case = f["case"]
    from vf.runner import from_jsonable

    case = from_jsonable(case)
    if case.get("kind") != "shape":
        return None
    t0 = time.time()
    best = f
    changed = True
    while changed and time.time() - t0 < 15:
        changed = False
        for cand in _shrink_candidates(case):
            if time.time() - t0 > 15:
                break
            g = _fails_same(cand, key)
            if g is not None:
                case = cand
                best = g
                changed = True
                break
    return best


def _shrink_candidates(case):
    P = case["program"]
    # shorter run
    for i in range(len(case["run"])):
        c = copy.deepcopy(case)
        del c["run"][i]
        yield c
    # drop top-level entries (other features, unused lookups)
    for i, t in enumerate(P["top"]):
        if t["k"] == "feature" and t["tag"] == case["tag"]:
            continue
        c = copy.deepcopy(case)
        del c["program"]["top"][i]
        yield c
    # drop items of the feature, rules of lookups
    for i, t in enumerate(P["top"]):
        if t["k"] == "feature":
            for j in range(len(t["items"])):
                c = copy.deepcopy(case)
                del c["program"]["top"][i]["items"][j]
                yield c
            for j, it in enumerate(t["items"]):
                if it["k"] in ("anon", "block") and len(it["lookup"]["rules"]) > 1:
                    for k in range(len(it["lookup"]["rules"])):
                        c = copy.deepcopy(case)
                        del c["program"]["top"][i]["items"][j]["lookup"]["rules"][k]
                        yield c
        elif len(t["lookup"]["rules"]) > 1:
            for k in range(len(t["lookup"]["rules"])):
                c = copy.deepcopy(case)
                del c["program"]["top"][i]["lookup"]["rules"][k]
                yield c
    if P["langsys"]:
        c = copy.deepcopy(case)
        c["program"]["langsys"] = []
        yield c
