"""Reference Bezier geometry for C13 (independent of fontTools.misc.bezierTools).

Points are Python complex numbers (x + yj).  A *piece* is a tuple of 2, 3 or 4
control points (line, quadratic, cubic); for the distance routines every piece
is degree-elevated to a cubic, which is exact up to one rounding per control
point.

Three measuring devices, in increasing cost:

* ``cu2qu_param_dist``   parametric sample distance between a cubic and the
  quadratic spline cu2qu returned for it (piece k of n against the cubic on
  [k/n, (k+1)/n]).  This is the quantity the implementation bounds, so it is a
  tight first-stage filter; it is only an upper bound of the geometric distance.
* ``approx_hausdorff``   sampled two-sided Hausdorff distance where the
  distance of a sample point to the other curve is an *upper* bound (distance to
  an actual point of the other curve, refined by Newton steps).  Filter only.
* ``point_dist_bounds``  branch and bound distance from one point to a set of
  pieces with certified lower and upper bounds (chord distance minus the
  second-difference flatness bound).  ``hausdorff_lower_bound`` evaluates it at
  the worst sample points, giving a certified *lower* bound of the true
  Hausdorff distance: sup over the curve >= value at a sample point.
"""

import heapq
import math

import numpy as np

# ---------------------------------------------------------------------------
# elementary operations


def lerp(a, b, t):
    return a + (b - a) * t


def bez_eval(ctrl, t):
    """de Casteljau evaluation of a Bezier of any degree at t."""
    pts = list(ctrl)
    while len(pts) > 1:
        pts = [lerp(pts[i], pts[i + 1], t) for i in range(len(pts) - 1)]
    return pts[0]


def split_half(c):
    """Split a cubic (4 complex) at t = 1/2 (de Casteljau)."""
    p0, p1, p2, p3 = c
    a = (p0 + p1) * 0.5
    b = (p1 + p2) * 0.5
    d = (p2 + p3) * 0.5
    e = (a + b) * 0.5
    f = (b + d) * 0.5
    m = (e + f) * 0.5
    return (p0, a, e, m), (m, f, d, p3)


def elevate(piece):
    """Degree-elevate a line / quadratic to a cubic 4-tuple."""
    n = len(piece)
    if n == 4:
        return tuple(piece)
    if n == 3:
        p0, p1, p2 = piece
        return (p0, p0 + (p1 - p0) * (2.0 / 3.0), p2 + (p1 - p2) * (2.0 / 3.0), p2)
    if n == 2:
        p0, p1 = piece
        return (p0, p0 + (p1 - p0) / 3.0, p1 + (p0 - p1) / 3.0, p1)
    raise ValueError("piece with %d points" % n)


def explicit_quads(points):
    """TrueType-style quadratic spline (on, off, off, ..., on) -> list of
    (p0, p1, p2) with the implied on-curve points made explicit."""
    pts = list(points)
    if len(pts) < 3:
        raise ValueError("quadratic spline needs at least 3 points")
    offs = pts[1:-1]
    out = []
    start = pts[0]
    for i, off in enumerate(offs):
        if i + 1 < len(offs):
            end = (off + offs[i + 1]) * 0.5
        else:
            end = pts[-1]
        out.append((start, off, end))
        start = end
    return out


def to_c(p):
    return complex(p[0], p[1])


def scale_of(points):
    m = 1.0
    for p in points:
        m = max(m, abs(p.real), abs(p.imag))
    return m


# ---------------------------------------------------------------------------
# vectorised evaluation


def _as_array(pieces):
    """list of pieces -> complex array (n, 4) of elevated cubics"""
    return np.array([elevate(p) for p in pieces], dtype=complex).reshape(-1, 4)


def _eval_arr(P, t):
    """P: (..., 4) control points broadcastable against t (...)."""
    p0, p1, p2, p3 = P[..., 0], P[..., 1], P[..., 2], P[..., 3]
    a = p0 + (p1 - p0) * t
    b = p1 + (p2 - p1) * t
    c = p2 + (p3 - p2) * t
    d = a + (b - a) * t
    e = b + (c - b) * t
    return d + (e - d) * t


def _deriv_arr(P, t):
    q0 = (P[..., 1] - P[..., 0]) * 3.0
    q1 = (P[..., 2] - P[..., 1]) * 3.0
    q2 = (P[..., 3] - P[..., 2]) * 3.0
    a = q0 + (q1 - q0) * t
    b = q1 + (q2 - q1) * t
    return a + (b - a) * t, (b - a) * 2.0


def cu2qu_param_dist(cubic, spline, K=65):
    """max over pieces k and K samples s of |C((k+s)/n) - Q_k(s)|.
    Returns (distance, piece index, s)."""
    segs = explicit_quads(spline)
    n = len(segs)
    Q = np.array(segs, dtype=complex)  # (n, 3)
    s = np.linspace(0.0, 1.0, K)[None, :]
    k = np.arange(n, dtype=float)[:, None]
    t = (k + s) / n
    C = np.array(cubic, dtype=complex)[None, None, :]
    c = _eval_arr(C, t)
    q0, q1, q2 = Q[:, 0:1], Q[:, 1:2], Q[:, 2:3]
    a = q0 + (q1 - q0) * s
    b = q1 + (q2 - q1) * s
    q = a + (b - a) * s
    d = np.abs(c - q)
    i = int(np.argmax(d))
    return float(d.flat[i]), i // K, float(s[0, i % K])


def _directed_upper(PA, PB, m, top=3):
    """For m+1 uniform samples on each piece of A: an upper bound of the
    distance to the union of the pieces of B.  Returns (max, candidates) where
    candidates are the `top` samples with the largest bound:
    (bound, piece index in A, t)."""
    ts = np.linspace(0.0, 1.0, m + 1)
    A = _eval_arr(PA[:, None, :], ts[None, :]).reshape(-1)  # samples on A
    mb = m
    tb = np.linspace(0.0, 1.0, mb + 1)
    B = _eval_arr(PB[:, None, :], tb[None, :]).reshape(-1)  # vertices on B
    nb = PB.shape[0]
    best = np.empty(A.shape[0])
    arg = np.empty(A.shape[0], dtype=np.int64)
    chunk = max(1, 400000 // max(1, B.shape[0]))
    for i in range(0, A.shape[0], chunk):
        D = np.abs(A[i : i + chunk, None] - B[None, :])
        j = np.argmin(D, axis=1)
        arg[i : i + chunk] = j
        best[i : i + chunk] = D[np.arange(D.shape[0]), j]
    # Newton refinement of the foot point on the piece that owns the nearest vertex
    pj = arg // (mb + 1)
    t = tb[arg % (mb + 1)]
    h = 1.0 / mb
    lo = np.clip(t - h, 0.0, 1.0)
    hi = np.clip(t + h, 0.0, 1.0)
    Pj = PB[pj]
    for _ in range(4):
        x = _eval_arr(Pj, t) - A
        d1, d2 = _deriv_arr(Pj, t)
        f = (x * np.conj(d1)).real
        g = (d1 * np.conj(d1)).real + (x * np.conj(d2)).real
        with np.errstate(divide="ignore", invalid="ignore"):
            step = np.where(g > 0, f / g, 0.0)
        step = np.where(np.isfinite(step), step, 0.0)
        t = np.clip(t - step, lo, hi)
        dist = np.abs(_eval_arr(Pj, t) - A)
        best = np.minimum(best, dist)
    order = np.argsort(-best)[:top]
    cands = [(float(best[i]), int(i // (m + 1)), float(ts[i % (m + 1)])) for i in order]
    return float(best[order[0]]), cands


def approx_hausdorff(piecesA, piecesB, m=32, top=3):
    """Sampled two-sided Hausdorff distance (filter quality, see module doc).
    Returns (distance, candidates) with candidates
    (bound, direction 'AB'|'BA', piece index, t)."""
    PA = _as_array(piecesA)
    PB = _as_array(piecesB)
    dab, cab = _directed_upper(PA, PB, m, top)
    dba, cba = _directed_upper(PB, PA, m, top)
    cands = [(c[0], "AB", c[1], c[2]) for c in cab] + [(c[0], "BA", c[1], c[2]) for c in cba]
    cands.sort(key=lambda c: -c[0])
    return max(dab, dba), cands


# ---------------------------------------------------------------------------
# certified point-to-curve distance


def _seg_dist(a, p, q):
    d = q - p
    w = a - p
    dd = d.real * d.real + d.imag * d.imag
    if dd == 0.0:
        return abs(w)
    t = (w.real * d.real + w.imag * d.imag) / dd
    if t <= 0.0:
        return abs(w)
    if t >= 1.0:
        return abs(a - q)
    return abs(w - d * t)


def flatness(c):
    """Bound on |B(t) - L(t)| for a cubic, L the linear interpolant of its end
    points: n(n-1)/8 * max second difference, n = 3."""
    return 0.75 * max(abs(c[0] - 2 * c[1] + c[2]), abs(c[1] - 2 * c[2] + c[3]))


def point_dist_bounds(a, cubics, delta, max_nodes=20000):
    """Certified (lo, hi) with lo <= dist(a, union of cubics) <= hi and
    hi - lo <= delta unless max_nodes is exhausted (then lo is still valid)."""
    heap = []
    ub = math.inf
    cnt = 0
    for c in cubics:
        ub = min(ub, abs(a - c[0]), abs(a - c[3]))
        lb = _seg_dist(a, c[0], c[3]) - flatness(c)
        heapq.heappush(heap, (lb if lb > 0.0 else 0.0, cnt, c))
        cnt += 1
    nodes = 0
    while heap:
        lb, _, c = heapq.heappop(heap)
        if lb >= ub - delta or nodes >= max_nodes:
            return min(lb, ub), ub
        nodes += 1
        l, r = split_half(c)
        d = abs(a - l[3])
        if d < ub:
            ub = d
        for ch in (l, r):
            clb = _seg_dist(a, ch[0], ch[3]) - flatness(ch)
            if clb < lb:
                clb = lb  # a child lies inside its parent: the parent's bound still holds
            if clb < ub:
                heapq.heappush(heap, (clb, cnt, ch))
                cnt += 1
    return ub, ub


def hausdorff_lower_bound(piecesA, piecesB, cands, delta):
    """Certified lower bound of the two-sided Hausdorff distance between the
    unions of pieces A and B, evaluated at candidate sample points (from
    approx_hausdorff) and a small local search around the best of them.
    Returns (lower bound, witness dict)."""
    CA = [elevate(p) for p in piecesA]
    CB = [elevate(p) for p in piecesB]
    best = (-1.0, None)

    def probe(direction, idx, t):
        src, dst = (CA, CB) if direction == "AB" else (CB, CA)
        a = bez_eval(src[idx], t)
        lo, hi = point_dist_bounds(a, dst, delta)
        return lo, dict(direction=direction, piece=idx, t=t, point=(a.real, a.imag), lo=lo, hi=hi)

    for _, direction, idx, t in cands:
        lo, w = probe(direction, idx, t)
        if lo > best[0]:
            best = (lo, w)
    if best[1] is not None:
        # local search: ternary refinement of t on the same piece
        w = best[1]
        h = 1.0 / 64
        t = w["t"]
        for _ in range(8):
            improved = False
            for tt in (t - h, t + h):
                if 0.0 <= tt <= 1.0:
                    lo, ww = probe(w["direction"], w["piece"], tt)
                    if lo > best[0]:
                        best = (lo, ww)
                        t = tt
                        improved = True
            if not improved:
                h *= 0.5
    return best


# ---------------------------------------------------------------------------
# self test (python -m vf.bezier_ref)


def _selftest():
    import random

    rnd = random.Random(7)
    # flatness bound and elevation
    for _ in range(2000):
        c = tuple(complex(rnd.uniform(-100, 100), rnd.uniform(-100, 100)) for _ in range(4))
        fl = flatness(c)
        for k in range(33):
            t = k / 32
            assert abs(bez_eval(c, t) - lerp(c[0], c[3], t)) <= fl * (1 + 1e-12) + 1e-12
        q = c[:3]
        e = elevate(q)
        for k in range(9):
            assert abs(bez_eval(q, k / 8) - bez_eval(e, k / 8)) < 1e-10
        l, r = split_half(c)
        for k in range(9):
            assert abs(bez_eval(l, k / 8) - bez_eval(c, k / 16)) < 1e-10
            assert abs(bez_eval(r, k / 8) - bez_eval(c, 0.5 + k / 16)) < 1e-10
    # point distance against brute force
    for _ in range(200):
        cs = [tuple(complex(rnd.uniform(-100, 100), rnd.uniform(-100, 100)) for _ in range(4)) for _ in range(3)]
        a = complex(rnd.uniform(-150, 150), rnd.uniform(-150, 150))
        lo, hi = point_dist_bounds(a, cs, 1e-7)
        brute = min(abs(a - bez_eval(c, k / 20000)) for c in cs for k in range(20001))
        assert lo <= brute + 1e-9 and hi - lo <= 1e-7 + 1e-12 and brute <= hi + 1e-3, (lo, hi, brute)
    # Hausdorff of two parallel lines / offset curves
    A = [(0j, 100 + 0j)]
    B = [(5j, 100 + 5j)]
    d, cands = approx_hausdorff(A, B)
    assert abs(d - 5) < 1e-9
    lb, w = hausdorff_lower_bound(A, B, cands, 1e-9)
    assert abs(lb - 5) < 1e-8
    A = [(0j, 100 + 0j)]
    B = [(0j, 60 + 0j)]
    d, cands = approx_hausdorff(A, B)
    assert abs(d - 40) < 1e-9, d
    q = [(0j, 50 + 50j, 100 + 0j)]
    d, cands = approx_hausdorff(q, A)
    assert abs(d - 25) < 1e-6, d
    lb, w = hausdorff_lower_bound(q, A, cands, 1e-9)
    assert abs(lb - 25) < 1e-6, lb
    sp = [0j, 10 + 10j, 30 + 10j, 40 + 0j]
    assert explicit_quads(sp) == [(0j, 10 + 10j, 20 + 10j), (20 + 10j, 30 + 10j, 40 + 0j)]
    print("bezier_ref selftest ok")


if __name__ == "__main__":
    _selftest()
