"""C05 — glyph outlines and advances reported through the glyph-set API are the
font's true ones: differential against HarfBuzz, FreeType adjudicating."""

import io
import random

from vf import corpus, geom
from vf.runner import from_jsonable, to_jsonable, Acc, CaseTimeout, HarnessError, fingerprint, hyp_collect, subseed, time_limit

ID = "C05"
LEVEL = "exploration"
RULE = (
    "every corpus font (binary files as they are, complete TTX compiled) and Hypothesis-generated glyf+gvar(+avar) fonts "
    "(simple glyphs with on/off-curve patterns, composites with transforms and offset-scaling flags, tuple variations with "
    "inferred (IUP) deltas, intermediate regions) x locations {default, each axis min/max, "
    "all-min/all-max corners, seeded interior user-space values, values next to avar segment ends, out-of-range "
    "values} x glyphs (all, or a seeded sample per font in the quick tier): glyphSet[name].draw through a "
    "decomposing recording pen and .width/.height vs HarfBuzz draw/advances, canonicalised by vf.geom; FreeType "
    "votes on a disagreement. non-trivial = glyph has >= 1 contour and (location != default or composite glyph or "
    "CFF/CFF2 charstring or VARC); distinct by (font, glyph, location)"
)
ASSUMPTIONS = [
    "HarfBuzz 12.1 (and FreeType 2.13 when it can load the glyph) implement OpenType outline and metrics semantics correctly",
    "point tolerance 0.51 font unit and advance tolerance 1 unit cover float vs 16.16/rounded arithmetic in the C implementations",
    "VARC composites (draft format, not in the statement's list, not supported by FreeType) are compared with tolerance 2.0: fontTools and HarfBuzz differ by up to 1.3 units on Tests/ttLib/data/varc-6868.ttf uni6868 at interior locations and no third implementation can vote",
    "fonts without head/hhea/hmtx/maxp or without glyf/CFF/CFF2 outlines, and the experimental cubic-glyf font (head.glyphDataFormat=1), are excluded (counted)",
    "WOFF/WOFF2 corpus files are converted to plain sfnt with fontTools before HarfBuzz reads them (flavour decoding is C04's subject)",
]

PT_TOL = 0.51
VARC_TOL = 2.0  # VARC is outside the statement's list and has no third implementation; see ASSUMPTIONS
ADV_TOL = 1.0
DEGEN = 0.01  # segments whose control points all lie within this distance are representation noise


def _locations(font, seed, n_random, fid):
    if "fvar" not in font:
        return [None]
    axes = [(a.axisTag, a.minValue, a.defaultValue, a.maxValue) for a in font["fvar"].axes]
    rnd = random.Random(subseed(seed, "loc", fid))
    locs = [None]
    for tag, mn, df, mx in axes:
        if mn != df:
            locs.append({tag: mn})
        if mx != df:
            locs.append({tag: mx})
    if len(axes) > 1:
        locs.append({t: mn for t, mn, df, mx in axes})
        locs.append({t: mx for t, mn, df, mx in axes})
    for _ in range(n_random):
        loc = {}
        for tag, mn, df, mx in axes:
            r = rnd.random()
            if r < 0.7:
                loc[tag] = round(rnd.uniform(mn, mx), rnd.choice([0, 1, 3]))
            elif r < 0.8:
                loc[tag] = df
            # else: axis left out (default)
        locs.append(loc)
    # next to avar segment ends (user-space values whose normalised value is an avar map key)
    if "avar" in font:
        for tag, mn, df, mx in axes:
            seg = font["avar"].segments.get(tag, {})
            for k in sorted(seg):
                if k in (-1.0, 0.0, 1.0):
                    continue
                u = df + k * (mx - df) if k > 0 else df + k * (df - mn)
                locs.append({tag: u})
                locs.append({tag: u + (mx - mn) / 200.0})
    # out-of-range (must be clamped)
    tag, mn, df, mx = axes[0]
    locs.append({tag: mx + (mx - mn) + 1})
    locs.append({tag: mn - (mx - mn) - 1})
    # dedupe
    out, seen = [], set()
    for l in locs:
        k = fingerprint(l)
        if k not in seen:
            seen.add(k)
            out.append(l)
    return out


def jobs(tier, seed):
    fids = corpus.ids()
    J = []
    for fid in fids:
        J.append(dict(kind="font", name=fid, fid=fid, seed=seed, tier=tier))
    n = 4000 if tier == "thorough" else 400
    for i in range(16):
        J.append(dict(kind="generated", name="generated-%d" % i, n=n // 16, seed=subseed(seed, "gen", i), tier=tier))
    # generated CFF fonts: Type 2 programs over the whole operator grammar (every flex form, hint operators,
    # alternating curve forms, subroutines), which the CFF fonts of the test data hardly use
    m = 3200 if tier == "thorough" else 320
    for i in range(16):
        J.append(dict(kind="gencff", name="gencff-%d" % i, n=m // 16, seed=subseed(seed, "gencff", i), tier=tier))
    return J


def _open_pair(fid):
    """(TTFont under test, bytes for the C oracles, face index)"""
    from fontTools.ttLib import TTFont

    kind, rest = fid.split(":", 1)
    index = 0
    if kind == "bin":
        data = corpus.file_bytes(fid)
        if "#" in rest:
            index = int(rest.split("#")[1])
        if data[:4] in (b"wOFF", b"wOF2"):
            f = TTFont(io.BytesIO(data))
            f.flavor = None
            buf = io.BytesIO()
            f.save(buf)
            data = buf.getvalue()
    else:
        data = corpus.sfnt_bytes(fid)
    font = TTFont(io.BytesIO(data), fontNumber=index if data[:4] == b"ttcf" else -1)
    return font, data, index


def _has_cubic_glyf(font):
    """glyf flag bit 7 marks cubic off-curve points: a fontTools/HarfBuzz experiment, not OpenType."""
    if "glyf" not in font:
        return False
    glyf = font["glyf"]
    for name in font.getGlyphOrder():
        g = glyf[name]
        if g.numberOfContours > 0 and any(fl & 0x80 for fl in g.flags):
            return True
    return False


def _quantisation_budget(font, name, depth=0):
    """2**-14 x sum over the glyph's gvar tuples of (largest |delta| x sum of the tent slopes over its axes), components
    included: how far a point can move when every normalised coordinate moves by one 2.14 step"""
    memo = font.__dict__.setdefault("_verif_qbudget", {})
    if name in memo:
        return memo[name]
    b = 0.0
    try:
        for tv in font["gvar"].variations.get(name, []):
            m = max((max(abs(d[0]), abs(d[1])) for d in tv.coordinates if d is not None), default=0)
            slope = 0.0
            for s_, p_, e_ in tv.axes.values():
                w = min(x for x in (p_ - s_, e_ - p_) if x > 0) if (p_ - s_ > 0 or e_ - p_ > 0) else 1.0
                slope += 1.0 / w
            b += m * slope / 16384.0
        g = font["glyf"][name]
        if g.isComposite() and depth < 8:
            for c in g.components:
                b += _quantisation_budget(font, c.glyphName, depth + 1)
    except Exception:
        b = 0.0
    memo[name] = b
    return b


def check_glyph(font, glyphSet, hbf, ft_get, name, gid, loc, acc, case, kinds, degen=None):
    """Compare one glyph. Returns (ncontours or None)."""
    from fontTools.pens.recordingPen import DecomposingRecordingPen

    pen = DecomposingRecordingPen(glyphSet)
    try:
        g = glyphSet[name]
        g.draw(pen)
        width = g.width
        height = getattr(g, "height", None)
    except CaseTimeout:
        raise
    except AssertionError as e:
        if "must not have an initial width" in str(e):
            # malformed CFF2 charstring in a corpus master (width operand is not allowed in CFF2): no true outline exists
            acc.exclude("cff2-charstring-with-width-operand")
            return None
        acc.fail_exc("draw-raises", e, case)
        return None
    except Exception as e:
        acc.fail_exc("draw-raises", e, case)
        return None
    degen = DEGEN if degen is None else degen
    try:
        A = geom.canon(pen.value, tol=degen)
    except geom.GeomError as e:
        acc.fail("pen-protocol", "GeomError", str(e), case)
        return None
    B = geom.canon(hbf.draw(gid), tol=degen)
    tol = (VARC_TOL if "VARC" in font else PT_TOL) + (degen if degen > DEGEN else 0.0)
    if loc and "gvar" in font and "glyf" in font:
        # HarfBuzz evaluates the variations at normalised coordinates rounded to 2.14, the library at the unrounded ones
        tol += _quantisation_budget(font, name)
    # representation: both sides drop fully degenerate segments; fontTools' glyf draws implied
    # closing lines which geom makes explicit on both sides
    A = [c for c in A if c["segs"]]
    B = [c for c in B if c["segs"]]
    ok, detail = geom.same_geometry(A, B, tol=tol)
    if not ok:
        # representation differences that are not geometry: collinear line merging
        ok2, _ = geom.same_geometry(geom.merge_collinear(A), geom.merge_collinear(B), tol=tol)
        if ok2:
            ok = True
            acc.label("outline:equal-after-collinear-merge")
    if not ok:
        vote = "no-third-vote"
        ft = ft_get()
        if ft is not None and "VARC" not in font:
            try:
                C = [c for c in geom.canon(ft.draw(gid), tol=DEGEN) if c["segs"]]
                ft_hb, _ = geom.same_geometry(C, B, tol=1.01)
                ft_us, _ = geom.same_geometry(C, A, tol=1.01)
                vote = "freetype-agrees-with-harfbuzz" if ft_hb and not ft_us else "freetype-agrees-with-fonttools" if ft_us and not ft_hb else "freetype-agrees-with-both" if ft_us else "freetype-agrees-with-neither"
            except Exception as e:
                vote = "freetype-failed:%s" % type(e).__name__
        if vote in ("freetype-agrees-with-fonttools", "freetype-agrees-with-both"):
            acc.label("outline:hb-disagrees-but-freetype-sides-with-fonttools")
        else:
            gen = case.get("gen")
            if gen:
                g = [x for x in gen["glyphs"] if x["name"] == name]
                if g and "components" in g[0]:
                    n = len(g[0]["components"])
                    if any(tv["deltas"][n] not in (None, [0, 0], (0, 0)) for tv in gen.get("variations", {}).get(name, [])):
                        vote = "composite-with-left-phantom-delta"
            acc.fail("outline", vote, "%s glyph %r gid %d loc %r: %s" % (case["fid"], name, gid, loc, detail), case)
    # advances
    hadv = hbf.h_advance(gid)
    if width is not None and width < 0 and hadv == 0:
        acc.label("advance:negative-at-location(clamped by the shaper, not compared)")
    elif width is None or abs(width - hadv) > ADV_TOL:
        vote = "no-third-vote"
        ft = ft_get()
        if ft is not None:
            try:
                fa = ft.h_advance(gid)
                vote = "freetype=%s" % fa
                if width is not None and abs(fa - width) <= ADV_TOL and abs(fa - hadv) > ADV_TOL:
                    vote = "freetype-agrees-with-fonttools"
            except Exception as e:
                vote = "freetype-failed:%s" % type(e).__name__
        if vote == "freetype-agrees-with-fonttools":
            acc.label("advance:hb-disagrees-but-freetype-sides-with-fonttools")
        else:
            acc.fail("advance", "h-advance", "%s glyph %r gid %d loc %r: fontTools %r, HarfBuzz %r (%s)" % (case["fid"], name, gid, loc, width, hadv, vote), case)
    if "vmtx" in font and height is not None:
        vadv = -hbf.v_advance(gid)
        if height < 0 and vadv == 0:
            # the variation data drive the advance below zero at this location; shapers clamp it, there is no true value
            acc.label("advance:negative-at-location(clamped by the shaper, not compared)")
        elif abs(height - vadv) > ADV_TOL:
            acc.fail("advance", "v-advance", "%s glyph %r gid %d loc %r: fontTools %r, HarfBuzz %r" % (case["fid"], name, gid, loc, height, vadv), case)
    return len(A)


def run_font(acc, fid, seed, tier, only=None):
    try:
        font, data, index = _open_pair(fid)
    except Exception as e:
        acc.exclude("cannot-open:%s" % type(e).__name__)
        return
    compare_font(acc, font, data, index, fid, seed, tier, only=only)


def compare_font(acc, font, data, index, fid, seed, tier, only=None, gen=None, nrandom=None, degen=None):
    from vf.hbref import HBFont

    if not {"head", "hhea", "hmtx", "maxp"}.issubset(font.keys()) or not ({"glyf", "CFF ", "CFF2"} & set(font.keys())):
        acc.exclude("font-lacks-required-tables-or-outlines")
        return
    if font["head"].glyphDataFormat != 0 or _has_cubic_glyf(font):
        acc.exclude("experimental-cubic-glyf")
        return
    hbf = HBFont(data, index)
    order = font.getGlyphOrder()
    if hbf.glyph_count() != len(order):
        acc.exclude("glyph-count-mismatch")
        return
    ft_state = {}

    def ft_get_for(loc):
        def get():
            if "ft" not in ft_state:
                try:
                    from vf.ftref import FTFont

                    ft_state["ft"] = FTFont(data, index)
                except Exception:
                    ft_state["ft"] = None
            ft = ft_state["ft"]
            if ft is not None:
                try:
                    ft.set_location(loc)
                except Exception:
                    return None
            return ft

        return get

    thorough = tier == "thorough"
    locs = _locations(font, seed, nrandom if nrandom is not None else (40 if thorough else 8), fid)
    if only is not None:
        locs = [only.get("loc")]  # a replay evaluates the saved location itself (the generated ones depend on the run's seed)
    kinds = []
    if "glyf" in font:
        kinds.append("glyf")
    if "CFF " in font:
        kinds.append("CFF")
    if "CFF2" in font:
        kinds.append("CFF2")
    if "VARC" in font:
        kinds.append("VARC")
    per_font = None if thorough else 600
    rnd = random.Random(subseed(seed, "glyphs", fid))
    for li, loc in enumerate(locs):
        if only is not None and fingerprint(loc) != fingerprint(only.get("loc")):
            continue
        try:
            glyphSet = font.getGlyphSet(location=loc) if loc else font.getGlyphSet()
        except Exception as e:
            acc.fail_exc("getGlyphSet-raises", e, dict(fid=fid, loc=loc, glyph=None))
            continue
        hbf.set_location(loc)
        names = order
        if only is not None:
            names = [only["glyph"]]
        elif per_font and len(order) > per_font:
            names = sorted(rnd.sample(order, per_font), key=order.index)
        ftg = ft_get_for(loc)
        for name in names:
            gid = font.getGlyphID(name)
            case = dict(fid=fid, loc=loc, glyph=name)
            if gen is not None:
                case["gen"] = gen
            try:
                with time_limit(60):
                    nc = check_glyph(font, glyphSet, hbf, ftg, name, gid, loc, acc, case, kinds, degen=degen)
            except CaseTimeout:
                acc.inconclusive += 1
                continue
            composite = False
            if "glyf" in font and "VARC" not in font:
                try:
                    composite = font["glyf"][name].isComposite()
                except Exception:
                    pass
            nontrivial = bool(nc) and (loc is not None or composite or "CFF" in kinds or "CFF2" in kinds or "VARC" in kinds)
            labels = ["kind:" + "+".join(kinds), "loc:default" if loc is None else "loc:variation"]
            if composite:
                labels.append("glyf:composite")
            if nc == 0:
                labels.append("empty-glyph")
            acc.case((fid, name, loc), nontrivial=nontrivial, labels=labels, sample=dict(fid=fid, glyph=name, loc=loc, contours=nc) if nontrivial and li == len(locs) // 2 else None)


def run_generated(acc, spec, seed, tier, only=None):
    from fontTools.ttLib import TTFont
    from vf import gen_varfont

    try:
        data = gen_varfont.build(spec)
    except Exception as e:
        # building the input is not the behaviour under test here (C02/C10 cover it)
        acc.exclude("generated-font-does-not-build:%s" % type(e).__name__)
        return
    font = TTFont(io.BytesIO(data))
    fid = "gen:" + fingerprint(spec)
    compare_font(acc, font, data, 0, fid, seed, tier, only=only, gen=spec, nrandom=3)
    tvs = spec.get("variations", {})
    if any(d is None for v in tvs.values() for tv in v for d in tv["deltas"]):
        acc.label("gen:has-inferred-deltas")
    if spec.get("avar"):
        acc.label("gen:avar")
    if any("components" in g for g in spec["glyphs"]):
        acc.label("gen:composite")


def run_gencff(acc, c, use_subrs, seed, tier, only=None):
    """Generated CFF font: the glyph-set API against HarfBuzz's CFF interpreter. Outlines are compared the way property
    C12 compares them (exact point structure first, then equality of the filled outline): generated programs are full of
    zero-length and sub-unit segments on which the corpus comparison's notion of 'degenerate' is too coarse."""
    from fontTools.pens.recordingPen import DecomposingRecordingPen
    from fontTools.ttLib import TTFont
    from props import c12
    from vf import gen_font, gen_t2
    from vf.hbref import HBFont

    names = gen_t2.glyph_names(len(c["flat"]))
    spec = {"kind": "cff", "cff": c, "names": names, "use_subrs": use_subrs, "extras": {}}
    try:
        data = gen_font.build(spec)
    except Exception as e:
        acc.exclude("generated-font-does-not-build:%s" % type(e).__name__)
        return
    font = TTFont(io.BytesIO(data))
    hbf = HBFont(data)
    fid = "gencff:" + fingerprint((c, use_subrs))
    gs = font.getGlyphSet()
    for gid, name in enumerate(names):
        if only is not None and only.get("glyph") != name:
            continue
        case = dict(fid=fid, loc=None, glyph=name, gencff=to_jsonable(c), use_subrs=use_subrs)
        pen = DecomposingRecordingPen(gs)
        try:
            g = gs[name]
            g.draw(pen)
            width = g.width
        except CaseTimeout:
            raise
        except Exception as e:
            acc.fail_exc("draw-raises", e, case)
            continue
        hb_ops = hbf.draw(gid)
        tol = c12._hb_tol(c["flat"][gid], hb_ops)
        ok, d = c12.exact_same(pen.value, hb_ops, tol)
        if not ok:
            ok, d = c12.fill_same(pen.value, hb_ops, tol, degen_tol=tol)
        if not ok:
            acc.fail("outline", "generated-cff", "%s glyph %r gid %d: %s; program %s" % (fid, name, gid, d, c["flat"][gid][:60]), case)
        hadv = hbf.h_advance(gid)
        if width is None or abs(width - hadv) > ADV_TOL:
            acc.fail("advance", "h-advance", "%s glyph %r: fontTools %r, HarfBuzz %r" % (fid, name, width, hadv), case)
        ncont = sum(1 for op, _ in pen.value if op == "moveTo")
        acc.case((fid, name), nontrivial=ncont > 0, labels=["kind:CFF", "loc:default", "gencff"])
    ops = {t for p in c["flat"] for t in p if isinstance(t, str)}
    for op in ("flex", "flex1", "hflex", "hflex1", "hintmask", "rcurveline", "rlinecurve", "vvcurveto", "hhcurveto"):
        if op in ops:
            acc.label("gencff:op:" + op)
    if use_subrs:
        acc.label("gencff:subroutinised")


def run_job(job):
    acc = Acc()
    if job["kind"] == "font":
        run_font(acc, job["fid"], job["seed"], job["tier"])
    elif job["kind"] == "gencff":
        from hypothesis import strategies as st

        from vf import gen_t2

        def body(case, acc):
            c, sub = case
            run_gencff(acc, c, sub and c["lsubrs"]["n"] + c["gsubrs"]["n"] < 1500, job["seed"], job["tier"])

        hyp_collect(acc, st.tuples(gen_t2.fonts(max_glyphs=5), st.booleans()), body, job["n"], job["seed"])
    else:
        from vf import gen_varfont

        def body(spec, acc):
            run_generated(acc, spec, job["seed"], job["tier"])

        hyp_collect(acc, gen_varfont.specs(), body, job["n"], job["seed"])
    return acc


def finish(total, tier, seed):
    for need in ("gen:has-inferred-deltas", "gen:composite", "gen:avar", "kind:CFF", "kind:CFF2", "loc:variation", "gencff:op:flex", "gencff:op:flex1", "gencff:op:hflex", "gencff:op:hflex1", "gencff:op:hintmask", "gencff:subroutinised"):
        if not total.labels.get(need):
            raise HarnessError("generator/corpus class %r never exercised" % need)


def replay(case):
    acc = Acc()
    if case.get("gen"):
        run_generated(acc, case["gen"], 1, "thorough", only=case)
    elif case.get("gencff"):
        run_gencff(acc, from_jsonable(case["gencff"]), case.get("use_subrs", False), 1, "thorough", only=case)
    else:
        run_font(acc, case["fid"], 1, "thorough", only=case)
    return acc.failures
