"""Oracle-side helpers for the subsetting property (C07).

* cmap_bytes / RestrictedFace: a HarfBuzz face that carries every table of the original font except
  `cmap`, which is rewritten (here, from the format descriptions, no fontTools) to map only a given
  set of characters. Shaper-internal character fallbacks (Unicode composition/decomposition,
  space fallbacks, dotted circle, mirroring) ask the font for characters that are not part of the
  text; a subset legitimately answers "no" for characters that were not retained, so the original
  is asked the same question with the same repertoire.
* rule_sequences: glyph-name sequences read off the font's own GSUB/GPOS rules (ligature
  components, pairs, mark attachments, context inputs) so that probes make lookups fire.
* glyph_refs: every glyph name a reloaded font refers to (cmap, layout, COLR, MATH, kern, hdmx,
  VORG, gvar, glyf components, CFF charset, bitmaps, AAT lookups).
"""

import struct

import uharfbuzz as hb

from .hbref import HBFont


# ---------------------------------------------------------------------------
# cmap writer (format 12 + format 14)


def cmap_bytes(mapping, uvs=None):
    """mapping: {codepoint: gid}; uvs: {(codepoint, selector): gid}."""
    items = sorted(mapping.items())
    groups = []
    for cp, gid in items:
        if groups and groups[-1][1] + 1 == cp and groups[-1][2] + (cp - groups[-1][0]) == gid:
            groups[-1][1] = cp
        else:
            groups.append([cp, cp, gid])
    sub12 = struct.pack(">HHIII", 12, 0, 16 + 12 * len(groups), 0, len(groups))
    for a, b, g in groups:
        sub12 += struct.pack(">III", a, b, g)
    subs = [(3, 10, sub12)]
    if uvs:
        by_sel = {}
        for (cp, sel), gid in uvs.items():
            by_sel.setdefault(sel, []).append((cp, gid))
        sels = sorted(by_sel)
        head_len = 10 + 11 * len(sels)
        bodies = []
        off = head_len
        recs = b""
        for sel in sels:
            ms = sorted(by_sel[sel])
            body = struct.pack(">I", len(ms))
            for cp, gid in ms:
                body += struct.pack(">I", cp)[1:] + struct.pack(">H", gid)
            recs += struct.pack(">I", sel)[1:] + struct.pack(">II", 0, off)
            bodies.append(body)
            off += len(body)
        sub14 = struct.pack(">HII", 14, off, len(sels)) + recs + b"".join(bodies)
        subs.insert(0, (0, 5, sub14))
    out = struct.pack(">HH", 0, len(subs))
    off = 4 + 8 * len(subs)
    for pid, eid, body in subs:
        out += struct.pack(">HHI", pid, eid, off)
        off += len(body)
    for pid, eid, body in subs:
        out += body
    return out


class RestrictedFace(HBFont):
    """HBFont over the tables of `base` (an HBFont) with a replaced cmap."""

    def __init__(self, base, mapping, uvs=None):
        self.data = None
        self.base = base
        cm = cmap_bytes(mapping, uvs)
        cache = {}

        def get(face, tag, user_data):
            if tag == "cmap":
                return cm
            if tag not in cache:
                blob = base.face.reference_table(tag)
                cache[tag] = bytes(blob.data) if blob is not None and len(blob) else None
            return cache[tag]

        self._get = get
        self.face = hb.Face.create_for_tables(get, None)
        self.face.upem = base.upem
        self.font = hb.Font(self.face)
        self.upem = base.upem
        self.font.scale = (self.upem, self.upem)
        self.loc = None
        self._gidfont = None


# ---------------------------------------------------------------------------
# probe sequences from the font's own rules


def _st(st):
    return getattr(st, "ExtSubTable", st)


def _class_members(classdef, cov_glyphs, klass, universe):
    defs = classdef.classDefs if classdef is not None else {}
    if klass == 0:
        pool = cov_glyphs if cov_glyphs is not None else universe
        return [g for g in pool if g not in defs]
    return [g for g, v in defs.items() if v == klass]


def rule_sequences(font, rnd, n, allowed=None, maxtries=None):
    """Up to n glyph-name sequences that are inputs of GSUB/GPOS rules of `font` (a decompiled TTFont).
    `allowed`: restrict to sequences made of these glyph names only."""
    order = font.getGlyphOrder()
    universe = order
    orderset = set(order)
    subtables = []
    lookup_of = {}
    for tag in ("GSUB", "GPOS"):
        if tag not in font:
            continue
        try:
            table = font[tag].table
            if not table.LookupList:
                continue
            for lookup in table.LookupList.Lookup:
                if lookup is None:
                    continue
                for st in lookup.SubTable:
                    if st is not None:
                        subtables.append(_st(st))
                        lookup_of[id(subtables[-1])] = lookup
        except Exception:
            continue
    out = []
    if not subtables:
        return out
    # glyphs that lookup flags make the shaper skip (or not skip): GDEF classes and mark filtering sets
    by_class = {1: [], 2: [], 3: [], 4: []}
    mark_sets = []
    try:
        gdef = font["GDEF"].table if "GDEF" in font else None
        if gdef is not None and gdef.GlyphClassDef is not None:
            for g, c in gdef.GlyphClassDef.classDefs.items():
                if c in by_class and g in orderset:
                    by_class[c].append(g)
        if gdef is not None and getattr(gdef, "MarkGlyphSetsDef", None):
            mark_sets = [[g for g in c.glyphs if g in orderset] if c is not None else [] for c in gdef.MarkGlyphSetsDef.Coverage]
    except Exception:
        pass
    tries = 0
    maxtries = maxtries or n * 12
    pick = rnd.choice

    def cov(c):
        return list(c.glyphs) if c is not None else []

    while len(out) < n and tries < maxtries:
        tries += 1
        st = pick(subtables)
        name = type(st).__name__
        seq = None
        try:
            if name == "SingleSubst" and st.mapping:
                seq = [pick(sorted(st.mapping))]
            elif name == "MultipleSubst" and st.mapping:
                seq = [pick(sorted(st.mapping))]
            elif name == "AlternateSubst" and st.alternates:
                seq = [pick(sorted(st.alternates))]
            elif name == "LigatureSubst" and st.ligatures:
                first = pick(sorted(st.ligatures))
                lig = pick(st.ligatures[first])
                seq = [first] + list(lig.Component)
            elif name == "ReverseChainSingleSubst":
                seq = [pick(cov(c)) for c in reversed(st.BacktrackCoverage)] + [pick(cov(st.Coverage))] + [pick(cov(c)) for c in st.LookAheadCoverage]
            elif name == "SinglePos":
                seq = [pick(cov(st.Coverage))]
            elif name == "PairPos" and st.Format == 1:
                i = rnd.randrange(len(st.Coverage.glyphs))
                ps = st.PairSet[i]
                if ps.PairValueRecord:
                    seq = [st.Coverage.glyphs[i], pick(ps.PairValueRecord).SecondGlyph]
            elif name == "PairPos" and st.Format == 2:
                first = pick(cov(st.Coverage))
                c2 = rnd.randrange(st.Class2Count)
                members = _class_members(st.ClassDef2, None, c2, universe)
                if members:
                    seq = [first, pick(members)]
            elif name == "CursivePos":
                seq = [pick(cov(st.Coverage)), pick(cov(st.Coverage))]
            elif name == "MarkBasePos":
                seq = [pick(cov(st.BaseCoverage)), pick(cov(st.MarkCoverage))]
                if rnd.random() < 0.3:
                    seq.append(pick(cov(st.MarkCoverage)))
            elif name == "MarkLigPos":
                seq = [pick(cov(st.LigatureCoverage)), pick(cov(st.MarkCoverage))]
            elif name == "MarkMarkPos":
                seq = [pick(cov(st.Mark2Coverage)), pick(cov(st.Mark1Coverage))]
                if rnd.random() < 0.5:
                    seq.insert(0, pick(universe))
            elif name in ("ContextSubst", "ContextPos", "ChainContextSubst", "ChainContextPos"):
                chain = name.startswith("Chain")
                typ = "Sub" if name.endswith("Subst") else "Pos"
                pre = ("Chain" if chain else "") + typ
                if st.Format == 3:
                    if chain:
                        seq = [pick(cov(c)) for c in reversed(st.BacktrackCoverage)] + [pick(cov(c)) for c in st.InputCoverage] + [pick(cov(c)) for c in st.LookAheadCoverage]
                    else:
                        seq = [pick(cov(c)) for c in st.Coverage]
                elif st.Format == 1:
                    sets = getattr(st, pre + "RuleSet")
                    i = rnd.randrange(len(st.Coverage.glyphs))
                    rs = sets[i] if i < len(sets) else None
                    rules = getattr(rs, pre + "Rule") if rs else None
                    if rules:
                        r = pick(rules)
                        seq = [st.Coverage.glyphs[i]] + list(r.Input)
                        if chain:
                            seq = list(reversed(r.Backtrack)) + seq + list(r.LookAhead)
                elif st.Format == 2:
                    sets = getattr(st, pre + "ClassSet")
                    cands = [i for i, rs in enumerate(sets) if rs and getattr(rs, pre + "ClassRule")]
                    if cands:
                        i = pick(cands)
                        r = pick(getattr(sets[i], pre + "ClassRule"))
                        icd = st.InputClassDef if chain else st.ClassDef
                        covg = cov(st.Coverage)
                        firsts = [g for g in covg if (icd.classDefs.get(g, 0) if icd else 0) == i]
                        if firsts:
                            seq = [pick(firsts)]
                            ok = True
                            for k in r.Input if chain else r.Class:
                                m = _class_members(icd, None, k, universe)
                                if not m:
                                    ok = False
                                    break
                                seq.append(pick(m))
                            if ok and chain:
                                back, ahead = [], []
                                for k in r.Backtrack:
                                    m = _class_members(st.BacktrackClassDef, None, k, universe)
                                    if not m:
                                        ok = False
                                        break
                                    back.append(pick(m))
                                for k in r.LookAhead if ok else []:
                                    m = _class_members(st.LookAheadClassDef, None, k, universe)
                                    if not m:
                                        ok = False
                                        break
                                    ahead.append(pick(m))
                                seq = list(reversed(back)) + seq + ahead
                            if not ok:
                                seq = None
        except (IndexError, AttributeError, TypeError, ValueError):
            seq = None
        if not seq or len(seq) > 16:
            continue
        if any(g not in orderset for g in seq):
            continue  # malformed font: a rule names a glyph id beyond numGlyphs
        lk = lookup_of.get(id(st))
        flag = lk.LookupFlag if lk is not None else 0
        if flag and rnd.random() < 0.6:
            pool = []
            if flag & 0x10:
                k = getattr(lk, "MarkFilteringSet", None)
                if k is not None and k < len(mark_sets):
                    pool += mark_sets[k] * 2  # a mark of the set is not skipped ...
                pool += by_class[3]  # ... any other mark is
            if flag & 0x08 or flag & 0xFF00:
                pool += by_class[3]
            if flag & 0x04:
                pool += by_class[2]
            if flag & 0x02:
                pool += by_class[1]
            if pool:
                seq = list(seq)
                seq.insert(rnd.randint(1, len(seq)) if len(seq) > 1 and rnd.random() < 0.8 else rnd.choice([0, len(seq)]), pick(pool))
        elif by_class[3] and rnd.random() < 0.1:
            seq = list(seq)
            seq.insert(rnd.randint(0, len(seq)), pick(by_class[3]))
        if allowed is not None and any(g not in allowed for g in seq):
            continue
        if rnd.random() < 0.35:
            # surround with context so that neighbouring rules interact
            pool = sorted(allowed) if allowed is not None else universe
            if pool:
                if rnd.random() < 0.5:
                    seq = [pick(pool)] + seq
                else:
                    seq = seq + [pick(pool)]
        out.append(seq)
    return out


def layout_pool(font):
    """Set of glyph names that occur as inputs of any GSUB/GPOS subtable."""
    pool = set()
    for tag in ("GSUB", "GPOS"):
        if tag not in font:
            continue
        try:
            table = font[tag].table
            if not table.LookupList:
                continue
            for lookup in table.LookupList.Lookup:
                if lookup is None:
                    continue
                for st in lookup.SubTable:
                    st = _st(st)
                    for attr in ("Coverage", "MarkCoverage", "BaseCoverage", "Mark1Coverage", "Mark2Coverage", "LigatureCoverage"):
                        c = getattr(st, attr, None)
                        if c is None:
                            continue
                        for cc in c if isinstance(c, list) else [c]:
                            if cc is not None:
                                pool.update(cc.glyphs)
                    for attr in ("InputCoverage", "BacktrackCoverage", "LookAheadCoverage"):
                        for cc in getattr(st, attr, None) or []:
                            pool.update(cc.glyphs)
                    for attr in ("mapping", "alternates", "ligatures"):
                        d = getattr(st, attr, None)
                        if isinstance(d, dict):
                            pool.update(d)
                    if hasattr(st, "ligatures"):
                        for ligs in st.ligatures.values():
                            for lig in ligs:
                                pool.update(lig.Component)
                    for attr in ("ClassDef", "ClassDef2", "InputClassDef", "BacktrackClassDef", "LookAheadClassDef"):
                        cd = getattr(st, attr, None)
                        if cd is not None and hasattr(cd, "classDefs"):
                            pool.update(cd.classDefs)
        except Exception:
            pass
    return pool


def layout_inventory(font):
    """{'features': {table: set(tags)}, 'scripts': {table: {script: [langs]}}, 'required': set(tags)}"""
    inv = {"features": {}, "scripts": {}, "required": set()}
    for tag in ("GSUB", "GPOS"):
        if tag not in font:
            continue
        t = font[tag].table
        feats = [str(fr.FeatureTag) for fr in t.FeatureList.FeatureRecord] if t.FeatureList else []
        inv["features"][tag] = set(feats)
        sc = {}
        if t.ScriptList:
            for sr in t.ScriptList.ScriptRecord:
                sc[str(sr.ScriptTag)] = [str(l.LangSysTag) for l in sr.Script.LangSysRecord]
                for ls in [sr.Script.DefaultLangSys] + [l.LangSys for l in sr.Script.LangSysRecord]:
                    if ls is not None and ls.ReqFeatureIndex != 0xFFFF and ls.ReqFeatureIndex < len(feats):
                        inv["required"].add(feats[ls.ReqFeatureIndex])
        inv["scripts"][tag] = sc
    return inv


# ---------------------------------------------------------------------------
# references to glyphs in a (re)loaded font


def _walk_ot(t, path, out, seen):
    from fontTools.ttLib.tables import otConverters, otTables
    from fontTools.ttLib.tables.otBase import BaseTable

    if id(t) in seen:
        return
    seen.add(id(t))
    if hasattr(t, "ensureDecompiled"):
        t.ensureDecompiled()
    cls = type(t).__name__
    if isinstance(t, otTables.Coverage):
        out.extend((path + "/Coverage", g) for g in t.glyphs)
        return
    if isinstance(t, otTables.ClassDef):
        out.extend((path + "/ClassDef", g) for g in t.classDefs)
        return
    if cls == "SingleSubst":
        for a, b in t.mapping.items():
            out.append((path + "/SingleSubst.in", a))
            out.append((path + "/SingleSubst.out", b))
        return
    if cls == "MultipleSubst":
        for a, bs in t.mapping.items():
            out.append((path + "/MultipleSubst.in", a))
            out.extend((path + "/MultipleSubst.out", b) for b in bs)
        return
    if cls == "AlternateSubst":
        for a, bs in t.alternates.items():
            out.append((path + "/AlternateSubst.in", a))
            out.extend((path + "/AlternateSubst.out", b) for b in bs)
        return
    if cls == "LigatureSubst":
        for a, ligs in t.ligatures.items():
            out.append((path + "/LigatureSubst.first", a))
            for lig in ligs:
                out.extend((path + "/LigatureSubst.component", c) for c in lig.Component)
                out.append((path + "/LigatureSubst.ligature", lig.LigGlyph))
        return
    if cls == "ClipList":
        out.extend((path + "/ClipList", g) for g in t.clips)
        return
    if cls in ("VarIdxMap", "DeltaSetIndexMap"):
        return
    if cls == "VarCompositeGlyph":
        for comp in getattr(t, "components", []):
            out.append((path + "/VarComponent", comp.glyphName))
        return
    for conv in t.getConverters():
        v = getattr(t, conv.name, None)
        if v is None:
            continue
        if isinstance(conv, (otConverters.GlyphID, otConverters.GlyphID32)):
            for x in v if isinstance(v, list) else [v]:
                out.append((path + "/" + cls + "." + conv.name, x))
        elif isinstance(v, BaseTable):
            _walk_ot(v, path + "/" + conv.name, out, seen)
        elif isinstance(v, list):
            for x in v:
                if isinstance(x, BaseTable):
                    _walk_ot(x, path + "/" + conv.name, out, seen)
                elif hasattr(x, "components"):
                    for comp in x.components:
                        out.append((path + "/VarComponent", comp.glyphName))
        elif isinstance(v, dict) and type(conv).__name__.startswith("AATLookup"):
            out.extend((path + "/" + conv.name, g) for g in v)


def glyph_refs(font):
    """[(where, glyph name)] for every reference to a glyph in `font` (TTFont opened from bytes).
    Decompiles every table it looks at; exceptions propagate to the caller."""
    out = []
    tags = [t for t in font.keys() if t != "GlyphOrder"]
    if "cmap" in tags:
        for st in font["cmap"].tables:
            w = "cmap/%d.%d.f%d" % (st.platformID, st.platEncID, st.format)
            if st.format == 14:
                for vs, lst in st.uvsDict.items():
                    out.extend((w, g) for u, g in lst if g is not None)
            else:
                out.extend((w, g) for g in st.cmap.values())
    for tag in ("GSUB", "GPOS", "GDEF", "MATH", "BASE", "JSTF", "VARC", "ankr", "bsln", "lcar", "opbd", "prop", "morx", "mort", "kerx"):
        if tag in tags:
            t = getattr(font[tag], "table", None)
            if t is not None:
                _walk_ot(t, tag, out, set())
    if "COLR" in tags:
        colr = font["COLR"]
        if colr.version == 0:
            for g, layers in colr.ColorLayers.items():
                out.append(("COLR/base", g))
                out.extend(("COLR/layer", l.name) for l in layers)
        else:
            _walk_ot(colr.table, "COLR", out, set())
    if "kern" in tags:
        for kt in font["kern"].kernTables:
            for a, b in getattr(kt, "kernTable", {}) or {}:
                out.append(("kern/left", a))
                out.append(("kern/right", b))
    if "hdmx" in tags:
        for sz, d in font["hdmx"].hdmx.items():
            out.extend(("hdmx", g) for g in d)
    if "VORG" in tags:
        out.extend(("VORG", g) for g in font["VORG"].VOriginRecords)
    if "gvar" in tags:
        out.extend(("gvar", g) for g in font["gvar"].variations)
    if "hmtx" in tags:
        out.extend(("hmtx", g) for g in font["hmtx"].metrics)
    if "vmtx" in tags:
        out.extend(("vmtx", g) for g in font["vmtx"].metrics)
    if "glyf" in tags:
        glyf = font["glyf"]
        for g in glyf.keys():
            gl = glyf[g]
            if gl.isComposite():
                out.extend(("glyf/component-of:" + g, c) for c in gl.getComponentNames(glyf))
    for tag in ("CFF ", "CFF2"):
        if tag in tags:
            cff = font[tag].cff
            for name in cff.keys():
                top = cff[name]
                out.extend((tag + "/charset", g) for g in top.charset)
                out.extend((tag + "/CharStrings", g) for g in top.CharStrings.keys())
    for tag in ("EBLC", "CBLC"):
        if tag in tags:
            for strike in font[tag].strikes:
                for ist in strike.indexSubTables:
                    out.extend((tag, g) for g in ist.names)
    for tag in ("EBDT", "CBDT"):
        if tag in tags:
            for strike in font[tag].strikeData:
                out.extend((tag, g) for g in strike)
    if "sbix" in tags:
        for strike in font["sbix"].strikes.values():
            out.extend(("sbix", g) for g in strike.glyphs)
    for tag in ("HVAR", "VVAR"):
        if tag in tags:
            t = font[tag].table
            for attr in ("AdvWidthMap", "LsbMap", "RsbMap", "AdvHeightMap", "TsbMap", "BsbMap", "VOrgMap"):
                m = getattr(t, attr, None)
                if m is not None:
                    out.extend((tag + "/" + attr, g) for g in m.mapping)
    return out


def decompile_everything(font):
    """Force full decompilation of every table (exceptions propagate)."""
    for tag in font.keys():
        if tag == "GlyphOrder":
            continue
        t = font[tag]
        if hasattr(t, "ensureDecompiled"):
            t.ensureDecompiled(recurse=True)
        if tag == "glyf":
            for g in t.keys():
                t[g].expand(t) if hasattr(t[g], "expand") else None
        if tag in ("CFF ", "CFF2"):
            for name in t.cff.keys():
                top = t.cff[name]
                for g in top.CharStrings.keys():
                    top.CharStrings[g].decompile()


# ---------------------------------------------------------------------------
# COLRv1: what HarfBuzz would paint


def paint_trace(hbf, gid, mapg=lambda g: g):
    """Sequence of paint callbacks HarfBuzz issues for a COLR glyph (palette 0, black foreground); glyph ids go
    through mapg, colours are resolved RGBA."""
    out = []
    pf = hb.PaintFuncs()

    def col(c):
        return (c.red, c.green, c.blue, c.alpha)

    def cl(line):
        return (str(line.extend), [(round(s.offset, 6), s.is_foreground, col(s.color)) for s in line.color_stops])

    r = lambda v: round(v, 4)
    pf.set_push_transform_func(lambda xx, yx, xy, yy, dx, dy, data: out.append(("T", r(xx), r(yx), r(xy), r(yy), r(dx), r(dy))))
    pf.set_pop_transform_func(lambda data: out.append(("t",)))
    pf.set_push_clip_glyph_func(lambda g, data: out.append(("G", mapg(g))))
    pf.set_push_clip_rectangle_func(lambda a, b, c, d, data: out.append(("R", r(a), r(b), r(c), r(d))))
    pf.set_pop_clip_func(lambda data: out.append(("c",)))
    pf.set_color_func(lambda c, fg, data: out.append(("C", col(c), fg)))
    pf.set_push_group_func(lambda data: out.append(("P",)))
    pf.set_pop_group_func(lambda mode, data: out.append(("p", str(mode))))
    pf.set_linear_gradient_func(lambda line, x0, y0, x1, y1, x2, y2, data: out.append(("L", cl(line), r(x0), r(y0), r(x1), r(y1), r(x2), r(y2))))
    pf.set_radial_gradient_func(lambda line, x0, y0, r0, x1, y1, r1, data: out.append(("Rg", cl(line), r(x0), r(y0), r(r0), r(x1), r(y1), r(r1))))
    pf.set_sweep_gradient_func(lambda line, x0, y0, a, b, data: out.append(("S", cl(line), r(x0), r(y0), r(a), r(b))))
    pf.set_color_glyph_func(lambda g, data: (out.append(("CG", mapg(g))), False)[1])
    hbf.font.paint_glyph(gid, pf, None, 0, hb.Color(0, 0, 0, 255))
    if not any(op[0] in ("G", "C", "L", "Rg", "S", "CG") for op in out):
        return []  # nothing is painted (HarfBuzz still brackets the glyph with an identity transform)
    return out
