"""C08 — instancing a variable font preserves the design space that remains.

Original and instance are both rendered / shaped by HarfBuzz; the instance at the partial user
location L' must agree with the original at the corresponding full location L (pinned axes at
their pinned value, remaining axes at the same USER value) within the rounding budget that the
original's own variation data allow (vf/varbudget.py)."""

import io
import re
import math
import random

from vf import corpus, geom, shapecmp, varbudget
from vf.runner import Acc, CaseTimeout, HarnessError, fingerprint, subseed, time_limit

ID = "C08"
LEVEL = "exploration"
RULE = (
    "every variable corpus font (glyf/gvar, CFF2, avar, HVAR, VVAR, MVAR, variable GPOS/GDEF, feature variations; a font "
    "without `name` gets a minimal one first) x seeded axis-limit sets: per axis leave / pin(value) / (min,max) around the old "
    "default / (min,default,max) with moved default / None (drop = pin at default), any mix; the first sets of every font are "
    "stratified (full pin, one moved default, one proper sub-range, all axes moved, mixes), values are drawn inside the fvar "
    "range from {axis min, default, max, user values of avar map points, interior values (raw / rounded)}; x options "
    "(optimize, inplace, static) x locations inside the new limits (new default, a corner of the new ranges, interior points, "
    "points on the old default / old avar map points). instantiateVariableFont -> save -> reopen; HarfBuzz on original at the "
    "full location vs HarfBuzz on the instance at the partial location: outlines point by point, h/v advances, MVAR-tagged "
    "metrics (static value + float variation), shaping of cmap texts and coverage-biased glyph-name runs (same glyph names, "
    "positions), fvar triples of the remaining axes, absence of every variation table after a full pin. "
    "Budget (per value, from the ORIGINAL's data): 0.5 [default deltas rounded once] + k * N + Q, where N = number of "
    "separately rounded variations the instance can have active at the location: each tuple variation / VarStore region of "
    "the value that contributes (every axis has non-zero scalar at the sampled coordinate or, for a restricted axis, at the "
    "new default coordinate) counts prod over its restricted axes of ([share folded at the new default is non-zero] + "
    "[tents on the new axis active]), minus 1 when the all-folded share lands in the default value (no untouched axis); "
    "variations whose axes are all pinned count 0. k = 0.5 (rounding of the rebased deltas; 1.0 for glyf outlines when "
    "optimize=True since IUP re-optimisation has its own 0.5 tolerance), Q = sum(|delta| * tent slope * eps) for F2Dot14 "
    "quantisation of coordinates (eps = 4/16384, scaled by the steepest avar segment). Composites add their components' "
    "budgets; CFF2 operands are relative, so a CFF2 point gets the per-operand budget times the number of blended operands, "
    "and every vector between consecutive points (one operand pair) is held to the per-operand budget; HarfBuzz's integer "
    "advances/positions add 1.0. "
    "non-trivial = some axis is restricted to a proper sub-range, or its default moved, or it is pinned away from the old "
    "default, and (the sampled location is not the new default, or the new default is not the old default); distinct by "
    "(font, limits, options, location)"
)
ASSUMPTIONS = [
    "HarfBuzz 12.1 implements fvar/avar normalisation, gvar (incl. inferred deltas), CFF2 blend, HVAR/VVAR/MVAR, GPOS/GDEF variation and FeatureVariations correctly; both sides of every comparison go through it",
    "a glyf font whose HVAR advances disagree with its gvar phantom points has two 'original' advances; the instance (hmtx from phantom points at the new default, HVAR rebased) may equal either or the mixed value phantom(newDefault) + HVAR(L) - HVAR(newDefault) (DESIGN C08: either is the original's); counted under labels advance:accepted-*",
    "fonts with glyf outlines and HVAR but no gvar are faulty input by the instancer's own comment in _instantiateVHVAR (hmtx is only updated from gvar phantom points) and gvar is required by OpenType for variable TrueType fonts: excluded, counted",
    "VARC fonts are excluded: instantiateVARC documents NotImplementedError for limits on VarComponent axes",
    "MVAR tags hasc/hdsc/hlgp: when HarfBuzz would read hhea (USE_TYPO_METRICS unset and hhea differs from the OS/2 typo fields) the stored integer is read from OS/2 with the table reader, as the MVAR specification names the OS/2 typo fields, and only the float variation comes from HarfBuzz (label metric:static-read-from-OS/2-table)",
    "a font whose MVAR value records are not sorted by tag is malformed (HarfBuzz' binary search misses tags): its metrics are not compared (counted)",
    "2-tuple (min,max) limits always contain the old default (the docstring of instantiateVariableFont requires it); moved defaults are requested with 3-tuples",
    "a glyph sequence / outline that changes in the ORIGINAL when its normalised coordinates are nudged by 3/16384 sits on a FeatureVariations / tent boundary: quantisation may legitimately flip it, counted as boundary-unstable and not compared",
    "avar version 2 fonts: partial instancing keeps variation tables in old space and approximates the coordinate mapping (documented: 'approximate (not bit-exact)' warning, threshold 8/16384); eps for such fonts is 24/16384 per axis plus the interaction of all axes",
]

WALL_BUDGET = {"quick": 900, "thorough": 3 * 3600}

EXCLUDE_F1 = True  # False turns finding C08-F1 back into the bucket shaping|glyph-sequence|
FLOAT_EPS = 2e-3  # float32 arithmetic inside HarfBuzz
HB_INT = 1.0  # two integer roundings (one per side) in HarfBuzz advances / positions
VAR_TABLES = ("fvar", "gvar", "avar", "HVAR", "MVAR", "cvar", "VVAR")

HB_METRIC_TAGS = {
    "hasc", "hdsc", "hlgp", "hcla", "hcld", "vasc", "vdsc", "vlgp", "hcrs", "hcrn", "hcof", "vcrs", "vcrn", "vcof",
    "xhgt", "cpht", "sbxs", "sbys", "sbxo", "sbyo", "spxs", "spys", "spxo", "spyo", "strs", "stro", "unds", "undo",
}  # fmt: skip


TYPO_FIELDS = {"hasc": "sTypoAscender", "hdsc": "sTypoDescender", "hlgp": "sTypoLineGap"}


def _tagint(t):
    return int.from_bytes(t.encode("ascii"), "big")


def _static_metric(hbf, tag):
    """The integer stored in the font for a metric: HarfBuzz's position at the font's default
    location minus the (float) MVAR variation there (non-zero only for avar2 partial instances,
    whose variation tables stay in the old coordinate space).  hbf must be at its default."""
    pos = hbf.font.get_metric_position(_tagint(tag))
    if pos is None:
        return None
    return int(round(pos - hbf.font.get_metric_variation(_tagint(tag))))


# ---------------------------------------------------------------------------
# per-font context (original font, HarfBuzz handles, budget model)


VARMARKS_FEA = {
    "ttx:varLib/data/master_ttx_varfont_ttf/SparseMasters-VF.ttx": """
markClass dotabovecomb <anchor (wght=350:150 wght=625:190) (wght=350:500 wght=625:560)> @TOP;
feature mark {
  pos base e <anchor (wght=350:250 wght=450:300 wght=625:280) (wght=350:480 wght=625:530)> mark @TOP;
  pos base a <anchor (wght=350:240 wght=625:260) (wght=350:470 wght=450:500 wght=625:455)> mark @TOP;
  pos base s <anchor (wght=350:230 wght=625:231) 500> mark @TOP;
} mark;
feature kern {
  pos e a (wght=350:-20 wght=625:-55);
  pos a s (wght=350:10 wght=450:-13 wght=625:31);
} kern;
""",
}


class Excluded(Exception):
    pass


_FEA_NAME = re.compile(r"^[A-Za-z_][A-Za-z0-9_.]*$")


def varfea_text(font, k):
    """Layout for variant varfea:<k>: a pure function of the font and k.  Variable kerning (glyph pairs, two class
    subtables whose first-glyph coverages overlap), variable mark-free single positioning, and feature variations with
    the SAME condition set in GSUB and GPOS, plus one condition set of its own in each table."""
    rnd = random.Random(k)
    order = font.getGlyphOrder()
    cmap = font.getBestCmap() or {}
    hmtx = font["hmtx"]
    pool = [g for g in order if g in set(cmap.values()) and _FEA_NAME.match(g) and hmtx[g][0] > 0]
    if len(pool) < 4:
        return None
    rnd.shuffle(pool)
    pool = pool[:6]
    axes = [(a.axisTag, a.minValue, a.defaultValue, a.maxValue) for a in font["fvar"].axes]

    def scalar(lo, hi):
        # the default location and one to three others
        locs = [{}]
        for _ in range(rnd.randint(1, 3)):
            loc = {}
            for tag, mn, df, mx in rnd.sample(axes, rnd.randint(1, min(2, len(axes)))):
                v = rnd.choice([mn, mx, round((df + mx) / 2), round((df + mn) / 2)])
                if v != df:
                    loc[tag] = v
            if loc and loc not in locs:
                locs.append(loc)
        parts = []
        for loc in locs:
            full = {tag: loc.get(tag, df) for tag, mn, df, mx in axes}
            parts.append("%s:%d" % (",".join("%s=%s" % (t, _fea_num(v)) for t, v in full.items()), rnd.randint(lo, hi)))
        return "(" + " ".join(parts) + ")" if len(parts) > 1 else parts[0].split(":")[1]

    seen = set()

    def cond(name):
        # three different regions: feaLib folds equal condition sets into one record that then names a feature twice
        while True:
            tag, mn, df, mx = rnd.choice(axes)
            a, b = sorted(rnd.sample([mn, round(mn + (mx - mn) * 0.3), round(mn + (mx - mn) * 0.55), round(mn + (mx - mn) * 0.8), mx], 2))
            if (tag, a, b) not in seen:
                seen.add((tag, a, b))
                return "conditionset %s { %s %s %s; } %s;" % (name, tag, _fea_num(a), _fea_num(b), name)

    g = pool
    out = ["languagesystem DFLT dflt;", cond("both"), cond("onlysub"), cond("onlypos")]
    out.append("feature kern {")
    out.append("  pos %s %s %s;" % (g[0], g[1], scalar(-80, 80)))
    out.append("  pos [%s %s] [%s] %s;" % (g[0], g[1], g[2], scalar(-80, 80)))
    out.append("  pos [%s] [%s %s] %s;" % (g[2], g[0], g[3], scalar(-80, 80)))
    out.append("  subtable;")
    # g[1] (and sometimes g[2]) is a first glyph in both class subtables: the earlier one decides its pairs
    first = [g[1], g[3]] + ([g[2]] if rnd.random() < 0.5 else [])
    out.append("  pos [%s] [%s %s] %s;" % (" ".join(first), g[2], g[0], scalar(-80, 80)))
    if len(g) > 4:
        out.append("  pos [%s] [%s %s] %s;" % (g[4], g[1], g[3], scalar(-80, 80)))
    out.append("} kern;")
    out.append("variation kern both { pos %s %s %d; pos %s <%d 0 %d 0>; } kern;" % (g[0], g[2], rnd.randint(20, 90), g[3], rnd.randint(5, 40), rnd.randint(5, 40)))
    out.append("variation kern onlypos { pos %s %s %d; } kern;" % (g[1], g[2], rnd.randint(-90, -20)))
    out.append("feature rlig { sub %s by %s; } rlig;" % (g[3], g[3]))
    out.append("variation rlig both { sub %s by %s; } rlig;" % (g[0], g[1]))
    out.append("variation rlig onlysub { sub %s by %s; } rlig;" % (g[2], g[3]))
    return "\n".join(out) + "\n"


def _fea_num(v):
    return "%d" % v if float(v) == int(v) else "%s" % v


class FontCtx:
    def __init__(self, fid):
        from fontTools.ttLib import TTFont, newTable
        from vf.hbref import HBFont

        self.fid = fid
        self.notes = []
        base, _, variant = fid.partition("@")
        data = corpus.sfnt_bytes(base)
        font = TTFont(io.BytesIO(data))
        if variant:
            # derived variable fonts: the same data under a different (still valid) axis mapping /
            # advance source.  noavar: user space maps linearly onto the design space (asymmetric
            # two-sided axes then exercise the distance-weighted renormalisation); nohvar: advances
            # come from gvar phantom points only
            drop = {"noavar": ["avar"], "nohvar": ["HVAR", "VVAR"], "varmarks": []}.get(variant, [])
            for t in drop:
                if t in font:
                    del font[t]
            if variant == "varmarks":
                # no corpus font has variable mark anchors: give one a mark-to-base lookup with variable
                # anchors (incl. an intermediate master) and a variable kerning pair.  Original and
                # instance both derive from this font, so feaLib is not part of the oracle.
                from fontTools.feaLib.builder import addOpenTypeFeaturesFromString

                addOpenTypeFeaturesFromString(font, VARMARKS_FEA[base])
            if variant.startswith("varfea:"):
                # generated layout in feaLib's variable syntax (same standing as varmarks: original and instance both
                # derive from the compiled font)
                from fontTools.feaLib.builder import addOpenTypeFeaturesFromString

                fea = varfea_text(font, int(variant.split(":")[1]))
                if fea is None:
                    raise Excluded("varfea: fewer than four encoded glyphs with a feature-file name")
                for t in ("GSUB", "GPOS", "GDEF"):
                    if t in font:
                        del font[t]
                addOpenTypeFeaturesFromString(font, fea)
                variant = "varfea"
            buf = io.BytesIO()
            font.save(buf)
            data = buf.getvalue()
            font = TTFont(io.BytesIO(data))
            self.notes.append("variant:" + variant)
        tables = set(font.keys())
        if "fvar" not in tables:
            raise Excluded("not-variable")
        if "VARC" in tables:
            raise Excluded("VARC-font (instancing VarComponent axes documented as not implemented)")
        if "glyf" in tables and "gvar" not in tables and ("HVAR" in tables or "VVAR" in tables):
            raise Excluded("glyf+HVAR without gvar (faulty input per _instantiateVHVAR comment)")
        if "name" not in tables:
            # instancer precondition (names.pruningUnusedNames indexes varfont['name']): not a finding
            name = newTable("name")
            name.names = []
            name.setName("Verif", 1, 3, 1, 0x409)
            name.setName("Regular", 2, 3, 1, 0x409)
            font["name"] = name
            buf = io.BytesIO()
            font.save(buf)
            data = buf.getvalue()
            font = TTFont(io.BytesIO(data))
            self.notes.append("name-added")
        self.data = data
        self.font = font
        self.order = font.getGlyphOrder()
        self.gid = {n: i for i, n in enumerate(self.order)}
        self.axes = [(a.axisTag, a.minValue, a.defaultValue, a.maxValue) for a in font["fvar"].axes]
        self.tags = [a[0] for a in self.axes]
        if len(set(self.tags)) != len(self.tags):
            raise Excluded("duplicate axis tags")
        self.tables = set(font.keys())
        self.kind = "glyf" if "glyf" in self.tables else "CFF2" if "CFF2" in self.tables else "no-outlines"
        self.avar2 = "avar" in self.tables and getattr(font["avar"], "majorVersion", 1) >= 2
        self.hbo = HBFont(data)
        if self.hbo.glyph_count() != len(self.order):
            raise Excluded("glyph-count-mismatch")
        # avar: user values of map points, steepest segment
        self.avar_points = {}
        self.avar_slope = {}
        if "avar" in self.tables:
            for tag, mn, df, mx in self.axes:
                seg = font["avar"].segments.get(tag) or {}
                ks = sorted(seg)
                pts = []
                for k in ks:
                    if -1.0 < k < 1.0 and k != 0:
                        pts.append(df + k * (mx - df) if k > 0 else df + k * (df - mn))
                self.avar_points[tag] = pts
                sl = 1.0
                for a, b in zip(ks, ks[1:]):
                    if b > a:
                        sl = max(sl, abs(seg[b] - seg[a]) / (b - a))
                self.avar_slope[tag] = sl
        # budget models
        self.gvar = font["gvar"] if "gvar" in self.tables else None
        self._gv = {}
        self._ph = {}
        self.malformed = False
        if self.gvar is not None:
            for n in self.order:
                for axes, m in self._glyph_vars(n):
                    if varbudget.tent_is_malformed(axes):
                        self.malformed = True
        # composites with USE_MY_METRICS whose own hmtx entry contradicts the component's: HarfBuzz answers
        # hmtx at the default location and the component's phantom points elsewhere - no single original value
        self.bad_mymetrics = set()
        if "glyf" in self.tables and "hmtx" in self.tables:
            glyf, hmtx = font["glyf"], font["hmtx"]
            for n in self.order:
                g = glyf[n]
                if g.isComposite():
                    for c in g.components:
                        if c.flags & 0x0200 and hmtx[c.glyphName][0] != hmtx[n][0]:
                            self.bad_mymetrics.add(n)
        self.cff2 = None
        if "CFF2" in self.tables:
            self._init_cff2()
        self.stores = {}
        for tag in ("HVAR", "VVAR", "MVAR", "GDEF"):
            if tag in self.tables:
                st = getattr(font[tag].table, "VarStore", None)
                if st is not None:
                    self.stores[tag] = varbudget.StoreModel(st, self.tags)
                    if self.stores[tag].malformed:
                        self.malformed = True
        if self.malformed:
            raise Excluded("malformed variation region (start > peak, peak > end or straddling zero): instancer drops it, OpenType ignores the axis")
        self.n_gpos_lookups = 0
        if "GPOS" in self.tables:
            ll = font["GPOS"].table.LookupList
            self.n_gpos_lookups = len(ll.Lookup) if ll else 0
        self.has_featvars = any(
            t in self.tables and getattr(font[t].table, "FeatureVariations", None) for t in ("GSUB", "GPOS")
        )
        # FeatureVariations records as [(axis tag, min, max)] (format 1 conditions; None = other format)
        self.featvar_records = {}
        for t in ("GSUB", "GPOS"):
            fv = getattr(font[t].table, "FeatureVariations", None) if t in self.tables else None
            if not fv:
                continue
            recs = []
            for rec in fv.FeatureVariationRecord:
                conds = []
                for c in rec.ConditionSet.ConditionTable if rec.ConditionSet else []:
                    if c.Format == 1:
                        conds.append((self.tags[c.AxisIndex], c.FilterRangeMinValue, c.FilterRangeMaxValue))
                    else:
                        conds.append(None)
                recs.append(conds)
            self.featvar_records[t] = recs
        self.var_gpos = "GDEF" in self.stores
        # static metric values (HarfBuzz at the default location)
        self.hbo.set_location(None)
        self.mvar_tags = []
        self.mvar_unsorted = False
        self.mvar_os2 = set()
        if "MVAR" in self.tables and "MVAR" in self.stores:
            os2 = font["OS/2"] if "OS/2" in self.tables else None
            hhea = font["hhea"] if "hhea" in self.tables else None
            synced = (
                os2 is not None
                and hhea is not None
                and [os2.sTypoAscender, os2.sTypoDescender, os2.sTypoLineGap] == [hhea.ascent, hhea.descent, hhea.lineGap]
            )
            typo = os2 is not None and bool(os2.fsSelection & 0x80)
            recs = font["MVAR"].table.ValueRecord
            self.mvar_unsorted = [r.ValueTag for r in recs] != sorted(r.ValueTag for r in recs)
            for rec in recs if not self.mvar_unsorted else []:
                t = rec.ValueTag
                if t not in HB_METRIC_TAGS:
                    continue
                if t in TYPO_FIELDS and not (synced or typo):
                    # HarfBuzz would read hhea here; MVAR defines these tags on the OS/2 typo fields, so the
                    # stored value is read from OS/2 (table reader) and only the variation comes from HarfBuzz
                    if os2 is not None:
                        self.mvar_tags.append((t, rec.VarIdx, getattr(os2, TYPO_FIELDS[t])))
                        self.mvar_os2.add(t)
                    continue
                pos = _static_metric(self.hbo, t)
                if pos is None:
                    continue
                self.mvar_tags.append((t, rec.VarIdx, pos))
        # the original without HVAR/VVAR: HarfBuzz then takes advances from gvar phantom points
        self._hbp = None
        # glyph-name runs / texts are generated per case from these
        self.unicodes = self.hbo.unicodes()
        self.vmtx = "vmtx" in self.tables

    # -- gvar / glyf ---------------------------------------------------------
    def _glyph_vars(self, name):
        if name not in self._gv:
            self._gv[name] = varbudget.gvar_variations(self.gvar, name) if self.gvar is not None else []
        return self._gv[name]

    def components(self, name):
        g = self.font["glyf"][name]
        if not g.isComposite():
            return []
        out = []
        for c in g.components:
            sc = 1.0
            if hasattr(c, "transform"):
                t = c.transform
                sc = max(abs(t[0][0]) + abs(t[1][0]), abs(t[0][1]) + abs(t[1][1]), 1.0)
            out.append((c.glyphName, sc))
        return out

    def own_phantom(self, name, Lnorm, vertical=False):
        """advance from the glyph's OWN phantom-point deltas (hmtx/vmtx value + sum of scalar * delta),
        without USE_MY_METRICS: what the four phantom points of this glyph say"""
        if self.gvar is None:
            return None
        if name not in self._ph:
            self._ph[name] = varbudget.gvar_phantom_deltas(self.gvar, name)
        base = self.font["vmtx" if vertical else "hmtx"][name][0]
        return base + sum(varbudget.region_scalar(ax, Lnorm) * (dh if vertical else dw) for ax, dw, dh in self._ph[name])

    def featvar_f1(self, pinned, Lnorm):
        """Known finding C08-F1 (see sensitivity/C08.md): a FeatureVariations record whose conditions all
        sit on pinned axes and hold at the pinned coordinates should become unconditional, but
        featureVars._instantiateFeatureVariationRecord drops it when other records survive.  True when the
        limits put a font into that class."""
        slack = 2.5 * varbudget.F2DOT14
        for recs in self.featvar_records.values():
            uncond = False
            other = False
            for conds in recs:
                if not conds or any(c is None for c in conds):
                    continue
                if all(c[0] in pinned for c in conds):
                    if all(c[1] - slack <= Lnorm.get(c[0], 0.0) <= c[2] + slack for c in conds):
                        uncond = True
                else:
                    other = True
            if uncond and other:
                return True
        return False

    def hb_phantom(self):
        """HarfBuzz on a copy of the original without HVAR/VVAR (advances from gvar phantom points)."""
        if self._hbp is None:
            from fontTools.ttLib import TTFont
            from vf.hbref import HBFont

            f = TTFont(io.BytesIO(self.data))
            for t in ("HVAR", "VVAR"):
                if t in f:
                    del f[t]
            buf = io.BytesIO()
            f.save(buf)
            self._hbp = HBFont(buf.getvalue())
        return self._hbp

    # -- CFF2 ------------------------------------------------------------------
    def _init_cff2(self):
        from fontTools.ttLib import TTFont

        f = TTFont(io.BytesIO(self.data))
        cff = f["CFF2"].cff
        cff.desubroutinize()
        td = cff.topDictIndex[0]
        vs = getattr(td, "VarStore", None)
        vs = vs.otVarStore if vs is not None else None
        self.cff2 = {"glyphs": {}, "regions": []}
        if not vs:
            return
        regions = [varbudget.region_axes(r, self.tags) for r in vs.VarRegionList.Region]
        if any(varbudget.tent_is_malformed(r) for r in regions):
            self.malformed = True
        vd_regions = [list(vd.VarRegionIndex) for vd in vs.VarData]
        cs = td.CharStrings
        for n in self.order:
            c = cs[n]
            c.decompile()
            dv = getattr(c.private, "vsindex", 0) or 0
            r = varbudget.cff2_glyph_blends(c, lambda i: len(vd_regions[i]), dv)
            if r is None:
                self.cff2["glyphs"][n] = None
                continue
            vsindex, nblend, sums, maxs = r
            ris = vd_regions[vsindex] if vsindex < len(vd_regions) else []
            self.cff2["glyphs"][n] = dict(
                nblend=nblend,
                per_op=[(regions[ris[k]], m) for k, m in sorted(maxs.items())],
                cumul=[(regions[ris[k]], m) for k, m in sorted(sums.items())],
                regions=[regions[ri] for ri in ris],
            )


_CTX = {}


def get_ctx(fid):
    if fid not in _CTX:
        try:
            _CTX[fid] = FontCtx(fid)
        except Excluded as e:
            _CTX[fid] = e
    return _CTX[fid]


# ---------------------------------------------------------------------------
# generator: limit sets and locations


def _specials(ctx, tag, mn, df, mx):
    s = [mn, df, mx] + list(ctx.avar_points.get(tag, []))
    out = []
    for v in s:
        if mn <= v <= mx and v not in out:
            out.append(v)
    return out


def _pick(rnd, ctx, ax, lo, hi):
    tag, mn, df, mx = ax
    if hi <= lo:
        return lo
    r = rnd.random()
    sp = [v for v in _specials(ctx, tag, mn, df, mx) if lo <= v <= hi]
    if r < 0.35 and sp:
        return rnd.choice(sp)
    v = rnd.uniform(lo, hi)
    nd = rnd.choice([None, 0, 1, 3])
    if nd is not None:
        v = round(v, nd)
    return min(hi, max(lo, v))


def _spec(rnd, ctx, ax, kind):
    tag, mn, df, mx = ax
    if kind == "pin":
        return _pick(rnd, ctx, ax, mn, mx)
    if kind == "drop":
        return None
    if kind == "range":
        for _ in range(4):
            a, b = _pick(rnd, ctx, ax, mn, df), _pick(rnd, ctx, ax, df, mx)
            if a < b and (a > mn or b < mx):
                break
        return [a, b]
    if kind == "range3":
        for _ in range(6):
            vs = sorted(_pick(rnd, ctx, ax, mn, mx) for _ in range(3))
            if vs[0] < vs[2] and vs[1] != df:
                break
        return vs
    raise HarnessError("kind %r" % kind)


def gen_limits(ctx, rnd, k):
    """k-th limit set of a font: the first ones are stratified, the rest random mixes."""
    axes = [a for a in ctx.axes if a[1] < a[3]]
    if not axes:
        return {}, {}
    opts = dict(optimize=rnd.random() < 0.5, inplace=rnd.random() < 0.3, static=False)
    kinds = ["leave", "pin", "range", "range3", "drop"]
    weights = [0.3, 0.2, 0.2, 0.2, 0.1] if len(axes) <= 4 else [0.45, 0.2, 0.12, 0.15, 0.08]
    mode = k % 7
    lim = {}
    if mode == 0:  # full pin
        static = rnd.random() < 0.3
        opts["static"] = static
        for ax in ctx.axes:
            if ax[1] == ax[3]:
                if not static:
                    lim[ax[0]] = None
                continue
            kind = "drop" if rnd.random() < 0.2 else "pin"
            if kind == "drop" and static:
                continue  # static=True pins unspecified axes at their default
            lim[ax[0]] = _spec(rnd, ctx, ax, kind)
    elif mode == 1:  # one moved default
        ax = rnd.choice(axes)
        lim[ax[0]] = _spec(rnd, ctx, ax, "range3")
    elif mode == 2:  # one proper sub-range, others pin/leave
        ax = rnd.choice(axes)
        lim[ax[0]] = _spec(rnd, ctx, ax, "range")
        for o in axes:
            if o is not ax and rnd.random() < 0.4:
                lim[o[0]] = _spec(rnd, ctx, o, rnd.choice(["pin", "drop"]))
    elif mode == 3:  # every axis moved
        for ax in axes:
            lim[ax[0]] = _spec(rnd, ctx, ax, "range3")
    else:
        for ax in axes:
            kind = rnd.choices(kinds, weights)[0]
            if kind != "leave":
                lim[ax[0]] = _spec(rnd, ctx, ax, kind)
        if not lim:
            ax = rnd.choice(axes)
            lim[ax[0]] = _spec(rnd, ctx, ax, rnd.choice(["pin", "range", "range3"]))
    return lim, opts


def new_triples(ctx, lim, static=False):
    """tag -> (min, default, max) after instancing, for every axis of the original; pinned set."""
    out = {}
    pinned = set()
    for tag, mn, df, mx in ctx.axes:
        if tag not in lim:
            if static:
                out[tag] = (df, df, df)
                pinned.add(tag)
            else:
                out[tag] = (mn, df, mx)
            continue
        s = lim[tag]
        if s is None:
            out[tag] = (df, df, df)
        elif isinstance(s, (int, float)):
            out[tag] = (s, s, s)
        elif len(s) == 2:
            out[tag] = (s[0], min(max(df, s[0]), s[1]), s[1])
        else:
            out[tag] = (s[0], s[1], s[2])
        if out[tag][0] == out[tag][2]:
            pinned.add(tag)
    return out, pinned


def gen_locations(ctx, rnd, triples, pinned, n):
    rem = [(t, triples[t]) for t in ctx.tags if t not in pinned]
    if not rem:
        return [{}]
    locs = [{}]
    # a corner of the new ranges
    locs.append({t: rnd.choice([a, b]) for t, (a, d, b) in rem})
    while len(locs) < n:
        mode = len(locs) % 3
        loc = {}
        for t, (a, d, b) in rem:
            if mode == 0:  # points where the old space has a kink / a map point, or an end
                ax = [x for x in ctx.axes if x[0] == t][0]
                sp = [v for v in _specials(ctx, t, ax[1], ax[2], ax[3]) if a <= v <= b] + [a, b]
                loc[t] = rnd.choice(sp) if rnd.random() < 0.7 else rnd.uniform(a, b)
            else:
                r = rnd.random()
                if r < 0.1:
                    continue  # axis at its new default
                v = rnd.uniform(a, b)
                if r < 0.4:
                    v = min(b, max(a, round(v, rnd.choice([0, 1]))))
                loc[t] = v
        locs.append(loc)
    out, seen = [], set()
    for l in locs:
        l = {t: v for t, v in l.items() if v != triples[t][1]}
        key = fingerprint(l)
        if key not in seen:
            seen.add(key)
            out.append(l)
    return out


def jobs(tier, seed):
    thorough = tier == "thorough"
    nsets = 840 if thorough else 28
    chunk = 7 if thorough else 14
    J = []
    fids = []
    for e in corpus.fonts(lambda e: e["variable"]):
        fids.append(e["id"])
        t = set(e["tables"])
        if "VARC" in t:
            continue
        two_sided = any(a[1] < a[2] < a[3] for a in e.get("axes") or [])
        if "avar" in t and two_sided and "Amstelvar-avar2" not in e["id"]:
            fids.append(e["id"] + "@noavar")
        if {"glyf", "gvar", "HVAR"} <= t:
            fids.append(e["id"] + "@nohvar")
    fids.extend(b + "@varmarks" for b in sorted(VARMARKS_FEA))
    for e in corpus.fonts(lambda e: e["variable"]):
        t = set(e["tables"])
        if "VARC" in t or e["numGlyphs"] < 5 or not ({"glyf", "CFF2"} & t) or "Amstelvar-avar2" in e["id"]:
            continue
        for j in range(3 if thorough else 1):
            fids.append("%s@varfea:%d" % (e["id"], subseed(seed, "varfea", e["id"], j) % 100000))
    for fid in fids:
        for c0 in range(0, nsets, chunk):
            J.append(
                dict(
                    kind="font",
                    name="%s[%d]" % (fid, c0),
                    fid=fid,
                    k0=c0,
                    k1=min(nsets, c0 + chunk),
                    nloc=8 if thorough else 4,
                    seed=seed,
                    tier=tier,
                )
            )
    return J


# ---------------------------------------------------------------------------
# comparison helpers


def _contours(ops):
    """HarfBuzz pen calls -> list of contours [start point, [(op, [points])...], stripped, alts] where a final
    lineTo that lands exactly on the start point (HarfBuzz emits one to close an open path; an explicit
    operand ending there is geometrically the same) is removed and remembered in `stripped`."""
    out = []
    cur = None
    for op, args in ops:
        ps = [(float(p[0]), float(p[1])) for p in args if p is not None]
        if op == "moveTo":
            if cur is not None:
                cur.append([cur[1][-1][1][-1] if cur[1] else cur[0]])
            cur = [ps[0], [], False]
            out.append(cur)
        elif op in ("closePath", "endPath"):
            if cur is not None:
                # candidates for the charstring's current point after this contour: the end of the last
                # drawn op, or - if that is a lineTo, which may be HarfBuzz' implicit closing line - the
                # point before it
                alts = [cur[1][-1][1][-1] if cur[1] else cur[0]]
                if cur[1] and cur[1][-1][0] == "lineTo":
                    alts.append(cur[1][-2][1][-1] if len(cur[1]) > 1 else cur[0])
                cur.append(alts)
                if cur[1] and cur[1][-1][0] == "lineTo" and cur[1][-1][1][-1] == cur[0]:
                    cur[1].pop()
                    cur[2] = True
            cur = None
        elif cur is not None:
            cur[1].append((op, ps))
    if cur is not None:
        cur.append([cur[1][-1][1][-1] if cur[1] else cur[0]])
    return out


def _sig(c):
    return [(op, len(ps)) for op, ps in c[1]]


def _pts(c):
    out = [c[0]]
    for op, ps in c[1]:
        out.extend(ps)
    return out


def _d(p, q):
    return max(abs(p[0] - q[0]), abs(p[1] - q[1]))


def compare_outline(opsA, opsB, tol, step_tol=None):
    """-> (ok, detail, how).  Contour by contour, point by point within `tol`.  With `step_tol`
    (relative encodings: CFF2) every vector between consecutive points - one operand pair of the
    charstring - must agree within step_tol, including the move from the previous contour's current
    point.  If the drawing structures differ: canonical geometry with short segments dropped and
    collinear lines merged."""
    CA, CB = _contours(opsA), _contours(opsB)
    same = len(CA) == len(CB)
    if same:
        for ca, cb in zip(CA, CB):
            if _sig(ca) == _sig(cb):
                continue
            # rounding can open / close the gap between the last explicit point and the start point
            for x, y in ((ca, cb), (cb, ca)):
                if len(x[1]) == len(y[1]) + 1 and x[1][-1][0] == "lineTo" and _d(x[1][-1][1][-1], x[0]) <= tol and _sig(x)[:-1] == _sig(y):
                    x[1].pop()
                    x[2] = True
                    break
            if _sig(ca) != _sig(cb):
                same = False
                break
    if same:
        worst = 0.0
        prevA = prevB = None
        for i, (ca, cb) in enumerate(zip(CA, CB)):
            pa, pb = _pts(ca), _pts(cb)
            for p, q in zip(pa, pb):
                worst = max(worst, _d(p, q))
            if step_tol is not None:
                for k in range(1, len(pa)):
                    da = (pa[k][0] - pa[k - 1][0], pa[k][1] - pa[k - 1][1])
                    db = (pb[k][0] - pb[k - 1][0], pb[k][1] - pb[k - 1][1])
                    if _d(da, db) > step_tol:
                        return False, "contour %d point %d: vector from the previous point %r vs %r differs by %.4f > per-operand budget %.4f" % (i, k, da, db, _d(da, db), step_tol), "steps"
                # the move: relative to the previous contour's current point (its last explicit point;
                # if a closing line was removed it may also have been an explicit operand ending at the start)
                if prevA is None:
                    cands = [((0.0, 0.0), (0.0, 0.0))]
                else:
                    cands = [(x, y) for x in prevA for y in prevB]
                best = None
                for oa, ob in cands:
                    da = (pa[0][0] - oa[0], pa[0][1] - oa[1])
                    db = (pb[0][0] - ob[0], pb[0][1] - ob[1])
                    dd = _d(da, db)
                    best = dd if best is None else min(best, dd)
                if best > step_tol:
                    return False, "contour %d: move from the previous contour differs by %.4f > per-operand budget %.4f" % (i, best, step_tol), "steps"
                prevA, prevB = ca[3], cb[3]
        if worst > tol:
            return False, "max point difference %.4f > budget %.4f" % (worst, tol), "points"
        return True, "", "points"
    detail = ""
    for degen in (1e-6, min(tol, 2.0), min(2 * tol, 4.0)):
        A = [c for c in geom.canon(opsA, tol=degen) if c["segs"]]
        B = [c for c in geom.canon(opsB, tol=degen) if c["segs"]]
        ok, detail = geom.same_geometry(A, B, tol=tol)
        if ok:
            return True, "", "canon"
        ok, _ = geom.same_geometry(geom.merge_collinear(A, eps=1e-3), geom.merge_collinear(B, eps=1e-3), tol=tol)
        if ok:
            return True, "", "canon-merged"
    return False, "structure differs and canonical geometry differs: %s" % detail, "canon"


class Budgets:
    """Budgets for one (case, location)."""

    def __init__(self, ctx, sit, optimize):
        self.ctx = ctx
        self.sit = sit
        self.optimize = optimize
        self._g = {}

    def glyph(self, name, depth=0):
        """-> (point budget, per-operand budget or None, N)"""
        if name in self._g:
            return self._g[name]
        ctx = self.ctx
        if ctx.kind == "glyf":
            k = 1.0 if self.optimize else 0.5
            b, n = varbudget.count_budget(self.sit, ctx._glyph_vars(name), 0.5, k)
            if ctx.gvar is not None and any(tv.coordinates[-4] not in (None, (0, 0)) and tv.coordinates[-4][0] for tv in (ctx.gvar.variations.get(name) or []) if len(tv.coordinates) >= 4):
                # the left side-bearing phantom point moves: a shaper shifts the outline by the phantom point's interpolated
                # position, which goes through the same chain of separately rounded variations as the point itself
                b *= 2
            if depth < 8:
                comp = ctx.components(name)
                if comp:
                    b += max(self.glyph(c, depth + 1)[0] * sc for c, sc in comp)
            r = (b + FLOAT_EPS, None, n)
        elif ctx.kind == "CFF2":
            info = ctx.cff2["glyphs"].get(name)
            if info is None:
                r = (None, None, 0)
            elif not info["nblend"]:
                r = (FLOAT_EPS, FLOAT_EPS, 0)
            else:
                per_op, n = varbudget.count_budget(self.sit, info["per_op"], 0.5, 0.5)
                # N counts regions, not the operand's own non-zero deltas: every region of the
                # glyph's VarData that contributes is counted for every operand
                cum_q, _ = varbudget.count_budget(self.sit, info["cumul"], 0.0, 0.0)
                nb = info["nblend"]
                r = ((0.5 + 0.5 * n) * nb + cum_q + FLOAT_EPS, per_op + FLOAT_EPS, n)
        else:
            r = (FLOAT_EPS, None, 0)
        self._g[name] = r
        return r

    def store_item(self, table, varidx):
        st = self.ctx.stores.get(table)
        if st is None:
            return 0.0, 0
        b, n = varbudget.count_budget(self.sit, st.item_variations(varidx), 0.5, 0.5)
        return b, n

    def store_all(self, table):
        st = self.ctx.stores.get(table)
        if st is None:
            return 0.0, 0
        return varbudget.count_budget(self.sit, st.all_variations(), 0.5, 0.5)

    def advance(self, name, table="HVAR"):
        """budget of the advance of a glyph (without HarfBuzz's integer rounding)"""
        ctx = self.ctx
        b = 0.0
        if table in ctx.stores:
            t = ctx.font[table].table
            m = getattr(t, "AdvWidthMap" if table == "HVAR" else "AdvHeightMap", None)
            varidx = m.mapping.get(name) if m else ctx.gid[name]
            b = self.store_item(table, varidx)[0]
        if ctx.kind == "glyf":
            k = 1.0 if self.optimize else 0.5
            b = max(b, varbudget.count_budget(self.sit, ctx._glyph_vars(name), 0.5, k)[0])
        return b


def _norm_of(hbf, loc):
    hbf.set_location(loc or None)
    return hbf.normalized()


def _limits_arg(lim):
    out = {}
    for t, s in lim.items():
        out[t] = tuple(s) if isinstance(s, (list, tuple)) else s
    return out


def _nudged(ctx, norm, k=3):
    """normalised coordinate vectors around `norm` (all axes together, each of the first axes alone,
    +-k/16384), clamped to the coordinates a user value can reach: an axis whose default is its
    minimum has no negative side"""
    lo = [-1.0 if mn < df else 0.0 for _, mn, df, mx in ctx.axes]
    hi = [1.0 if mx > df else 0.0 for _, mn, df, mx in ctx.axes]
    d = k * varbudget.F2DOT14
    out = []
    for sgn in (-1, 1):
        out.append([min(hi[i], max(lo[i], c + sgn * d)) for i, c in enumerate(norm)])
    for i in range(min(len(norm), 6)):
        for sgn in (-1, 1):
            v = list(norm)
            v[i] = min(hi[i], max(lo[i], v[i] + sgn * d))
            out.append(v)
    return [v for v in out if v != list(norm)]


# ---------------------------------------------------------------------------
# one case = (font, limits, options) ; sub-cases = locations


def instantiate(ctx, lim, opts):
    from fontTools.ttLib import TTFont
    from fontTools.varLib import instancer

    vf = TTFont(io.BytesIO(ctx.data))
    res = instancer.instantiateVariableFont(
        vf,
        _limits_arg(lim),
        inplace=bool(opts.get("inplace")),
        optimize=bool(opts.get("optimize", True)),
        static=bool(opts.get("static")),
    )
    if opts.get("inplace"):
        res = vf
    buf = io.BytesIO()
    res.save(buf)
    return buf.getvalue()


def run_case(case, acc, only_loc=None):
    from fontTools.ttLib import TTFont
    from vf.hbref import HBFont
    from vf import sfntref

    fid = case["fid"]
    ctx = get_ctx(fid)
    if isinstance(ctx, Excluded):
        acc.exclude(str(ctx))
        return
    lim = case["limits"]
    opts = case.get("opts", {})
    base = dict(fid=fid, limits=lim, opts=opts)
    triples, pinned = new_triples(ctx, lim, static=bool(opts.get("static")))
    full_pin = len(pinned) == len(ctx.tags)
    try:
        with time_limit(300):
            idata = instantiate(ctx, lim, opts)
    except CaseTimeout:
        acc.inconclusive += 1
        return
    except NotImplementedError as e:
        acc.exclude("instancer documents NotImplementedError: %s" % str(e)[:60])
        return
    except Exception as e:
        acc.fail_exc("instantiate-raises", e, base)
        return
    try:
        inst = TTFont(io.BytesIO(idata))
        iorder = inst.getGlyphOrder()
        itables = set(inst.keys())
        hbi = HBFont(idata)
    except Exception as e:
        acc.fail_exc("instance-unreadable", e, base)
        return
    probs = sfntref.validate_container(idata)
    if probs:
        acc.fail("container", "invalid-sfnt", "; ".join(probs)[:300], base)
    if iorder != ctx.order:
        acc.fail("structure", "glyph-order-changed", "%r vs %r" % (ctx.order[:6], iorder[:6]), base)
        return
    # ---- structure: fvar of the instance, variation tables after a full pin
    limited = set(lim) | (set(pinned))
    if full_pin:
        left = [t for t in VAR_TABLES if t in itables]
        if left:
            acc.fail("full-pin", "variation-table-left", "tables %s remain after pinning every axis" % left, base)
        if "CFF2" in itables:
            td = inst["CFF2"].cff.topDictIndex[0]
            if getattr(td, "VarStore", None) is not None:
                acc.fail("full-pin", "cff2-varstore-left", "CFF2 VarStore remains after pinning every axis", base)
        for t in ("GSUB", "GPOS"):
            if t in itables and getattr(inst[t].table, "FeatureVariations", None):
                acc.fail("full-pin", "feature-variations-left", "%s FeatureVariations remain" % t, base)
        if "GDEF" in itables and getattr(inst["GDEF"].table, "VarStore", None):
            acc.fail("full-pin", "gdef-varstore-left", "GDEF VarStore remains", base)
    else:
        iaxes = {t: (a, d, b) for t, a, d, b in hbi.axes()}
        for t in ctx.tags:
            want = triples[t]
            if t in pinned:
                if t in iaxes and not ctx.avar2:
                    acc.fail("axes", "pinned-axis-left", "axis %s pinned at %r still in fvar %r" % (t, want[1], iaxes[t]), base)
                continue
            got = iaxes.get(t)
            if got is None or any(abs(x - y) > 2.0 / 65536 + 2.4e-7 * abs(y) for x, y in zip(got, want)):  # 16.16 in fvar, float32 in HarfBuzz
                acc.fail("axes", "fvar-triple", "axis %s: requested %r, instance fvar %r" % (t, want, got), base)
    # ---- locations
    kinds = []
    for t in ctx.tags:
        s = lim.get(t, "leave")
        kinds.append("leave" if s == "leave" else "drop" if s is None else "pin" if isinstance(s, (int, float)) else "range" if len(s) == 2 else "range3")
    restricted = False
    moved = False
    for t, mn, df, mx in ctx.axes:
        a, d, b = triples[t]
        if d != df:
            moved = True
        if (a > mn or b < mx) and (a, d, b) != (mn, df, mx):
            restricted = True
    Dfull = {t: triples[t][1] for t in ctx.tags}
    Dnorm_v = _norm_of(ctx.hbo, Dfull)
    eps = {}
    for t in ctx.tags:
        e = 4.0 * varbudget.F2DOT14 * max(1.0, ctx.avar_slope.get(t, 1.0))
        if ctx.avar2:
            e = 24.0 * varbudget.F2DOT14 * max(1.0, ctx.avar_slope.get(t, 1.0))
        eps[t] = e
    locs = case["locs"] if only_loc is None else [only_loc]
    for loc in locs:
        sub = dict(base, loc=loc)
        try:
            with time_limit(300):
                info = check_location(ctx, acc, sub, loc, triples, pinned, limited, Dnorm_v, eps, hbi, inst, opts, full_pin)
        except CaseTimeout:
            acc.inconclusive += 1
            continue
        at_default = not loc
        nontrivial = (restricted or moved) and (not at_default or moved)
        labels = ["font:" + ctx.kind, "opt:optimize=%s" % bool(opts.get("optimize", True)), "opt:inplace=%s" % bool(opts.get("inplace"))]
        labels += ["axis:" + k for k in sorted(set(kinds))]
        labels.append("limits:full-pin" if full_pin else "limits:partial")
        if opts.get("static"):
            labels.append("opt:static")
        if moved:
            labels.append("limits:default-moved")
        if restricted:
            labels.append("limits:proper-subrange")
        labels.append("loc:new-default" if at_default else "loc:other")
        for t in ("avar", "HVAR", "VVAR", "MVAR", "cvar", "STAT"):
            if t in ctx.tables:
                labels.append("has:" + t)
        if ctx.avar2:
            labels.append("has:avar2")
        if ctx.var_gpos:
            labels.append("has:variable-GDEF/GPOS")
        if ctx.has_featvars:
            labels.append("has:FeatureVariations")
        labels += ctx.notes
        acc.case((fid, lim, opts, loc), nontrivial=nontrivial, labels=labels, sample=dict(sub, **info) if nontrivial and info.get("glyphs") else None)


def check_location(ctx, acc, sub, loc, triples, pinned, limited, Dnorm_v, eps, hbi, inst, opts, full_pin):
    hbo = ctx.hbo
    Lfull = {t: triples[t][1] for t in ctx.tags}
    Lfull.update(loc)
    Lpart = {t: v for t, v in Lfull.items() if t not in pinned}
    if ctx.avar2 and not full_pin:
        # non-self-contained pinned axes stay as hidden axes with min=default=max: leave them alone
        pass
    Lnorm_v = _norm_of(hbo, Lfull)
    hbi.set_location(Lpart if not full_pin else None)
    sit = varbudget.Situation(ctx.tags, dict(zip(ctx.tags, Lnorm_v)), dict(zip(ctx.tags, Dnorm_v)), limited, pinned, eps)
    B = Budgets(ctx, sit, bool(opts.get("optimize", True)))
    info = dict(glyphs=0, maxN=0)
    nudges = None

    def unstable(fn):
        """does fn() on the ORIGINAL change under a 3/16384 nudge of its normalised coordinates?"""
        nonlocal nudges
        if nudges is None:
            nudges = _nudged(ctx, Lnorm_v)
        ref = fn()
        res = False
        for v in nudges:
            hbo.set_normalized(v)
            if fn() != ref:
                res = True
                break
        hbo.set_location(Lfull)
        return res

    def featvar_sig(vec):
        """per table: index of the first FeatureVariations record whose conditions hold at the normalised vector"""
        at = dict(zip(ctx.tags, vec))
        sig = []
        for t in sorted(ctx.featvar_records):
            hit = None
            for ri, conds in enumerate(ctx.featvar_records[t]):
                if all(c is not None and c[1] <= at.get(c[0], 0.0) <= c[2] for c in conds):
                    hit = ri
                    break
            sig.append(hit)
        return sig

    def on_featvar_boundary():
        """a 3/16384 nudge of the ORIGINAL's normalised coordinates selects another FeatureVariations record"""
        nonlocal nudges
        if not ctx.featvar_records:
            return False
        if nudges is None:
            nudges = _nudged(ctx, Lnorm_v)
        ref = featvar_sig(Lnorm_v)
        return any(featvar_sig(v) != ref for v in nudges)

    # ---- (1) outlines, (2) advances
    names = ctx.order
    if len(names) > 200:
        rnd = random.Random(subseed(1, "glyphs", ctx.fid))
        names = sorted(rnd.sample(names, 200), key=ctx.gid.get)
    worst = 0.0
    # The model of vf.varbudget counts, from the ORIGINAL's data, how many separately rounded variations of the instance can
    # be active at the location; the rebasing solver may emit more overlapping tents than that model foresees (a restricted
    # axis with a moved default inside a tent). The budget is never smaller than what the design states: half a unit for
    # the default outline plus half a unit times |scalar| for every tuple variation of the INSTANCED glyph that is active
    # at the location (read from the instance's own gvar), plus half a unit when the left phantom point moves.
    inst_norm = dict(zip([a.axisTag for a in inst["fvar"].axes], hbi.normalized())) if (ctx.kind == "glyf" and "fvar" in inst and "gvar" in inst) else None
    _alt = {}

    def inst_budget(gname, depth=0):
        if gname in _alt:
            return _alt[gname]
        b = 0.5
        tvs = inst["gvar"].variations.get(gname) or [] if (inst_norm is not None) else []
        for tv in tvs:
            sc = abs(varbudget.region_scalar({t: tuple(v) for t, v in tv.axes.items()}, inst_norm))
            if sc:
                b += 0.5 * min(1.0, sc) + 1e-6
        moves = any(len(tv.coordinates) >= 4 and tv.coordinates[-4] not in (None, (0, 0)) and tv.coordinates[-4][0] for tv in ((ctx.gvar.variations.get(gname) or []) if ctx.gvar is not None else []))
        if moves:
            b *= 2  # the phantom point has the same chain of roundings
        if depth < 8:
            comp = ctx.components(gname)
            if comp:
                b += max(inst_budget(c, depth + 1) * sc_ for c, sc_ in comp)
        _alt[gname] = b
        return b

    for name in names:
        gid = ctx.gid[name]
        if ctx.kind != "no-outlines":
            tol, step_tol, n = B.glyph(name)
            if tol is not None and math.isfinite(tol) and ctx.kind == "glyf":
                tol = max(tol, inst_budget(name) + FLOAT_EPS)
            if tol is None:
                acc.exclude("cff2-glyph-with-unresolved-subroutine")
            elif not math.isfinite(tol):
                acc.label("outline:on-step-tent-skipped")
            else:
                oa, ob = hbo.draw(gid), hbi.draw(gid)
                ok, detail, how = compare_outline(oa, ob, tol, step_tol)
                info["glyphs"] += 1
                info["maxN"] = max(info["maxN"], n)
                acc.label("outline:compared")
                if how != "points":
                    acc.label("outline:via-" + how)
                if not ok:
                    acc.fail("outline", how, "%s glyph %r at %r (orig at %r), N=%d: %s" % (ctx.fid, name, Lpart, Lfull, n, detail), dict(sub, glyph=name))
        # advances
        for table, getter, mtx in (("HVAR", "h_advance", "hmtx"), ("VVAR", "v_advance", "vmtx")):
            if mtx == "vmtx" and not ctx.vmtx:
                continue
            if name in ctx.bad_mymetrics:
                acc.exclude("advance of a USE_MY_METRICS composite whose hmtx entry differs from its component's (inconsistent font data)")
                continue
            a_o, a_i = getattr(hbo, getter)(gid), getattr(hbi, getter)(gid)
            bud = B.advance(name, table)
            if not math.isfinite(bud):
                continue
            tol = bud + HB_INT + FLOAT_EPS
            acc.label("advance:compared")
            if abs(a_o - a_i) <= tol:
                continue
            verdict = None
            if ctx.kind == "glyf":
                # the original has up to three notions of this advance: HVAR/VVAR, HarfBuzz' phantom points
                # (honours USE_MY_METRICS), the glyph's own phantom-point deltas; a partial instance takes
                # hmtx from the phantom points at the new default and keeps HVAR's variation from there
                Dloc = {t: triples[t][1] for t in ctx.tags}
                vert = table == "VVAR"
                hbp = ctx.hb_phantom()
                hbp.set_location(Lfull)
                pm_l = getattr(hbp, getter)(gid)
                hbp.set_location(Dloc)
                pm_d = getattr(hbp, getter)(gid)
                hbo.set_location(Dloc)
                h_d = getattr(hbo, getter)(gid)
                hbo.set_location(Lfull)
                if vert:
                    pm_l, pm_d, h_d, a_o_, a_i_ = -pm_l, -pm_d, -h_d, -a_o, -a_i
                else:
                    a_o_, a_i_ = a_o, a_i
                po_l = ctx.own_phantom(name, sit.L, vert)
                po_d = ctx.own_phantom(name, sit.D, vert)
                cands = [
                    ("phantom-points(HarfBuzz)", pm_l, tol),
                    ("own-phantom-points", po_l, tol),
                    ("phantom(newDefault)+HVAR-variation", pm_d + a_o_ - h_d, 2 * tol),
                    ("own-phantom(newDefault)+HVAR-variation", po_d + a_o_ - h_d, 2 * tol),
                ]
                for lab, v, t in cands:
                    if v is not None and abs(v - a_i_) <= t:
                        verdict = "advance:accepted-as-" + lab
                        break
                if verdict is None and any(v is not None and v < -t for _l, v, t in cands + [("own-phantom(newDefault)", po_d, tol)]):
                    # the variation data drive this advance below zero somewhere on the way (hmtx cannot hold it, shapers
                    # clamp it): the font has no meaningful advance there, nothing to preserve
                    verdict = "advance:negative-in-the-original-design-space(not compared)"
                detail = "HVAR/VVAR %s; %s" % (a_o_, ", ".join("%s %s" % (l, v if v is None else round(v, 2)) for l, v, _ in cands))
            else:
                detail = "original %s" % a_o
            if verdict:
                acc.label(verdict)
            else:
                acc.fail("advance", getter, "%s glyph %r at %r: instance %s, %s, budget %.3f" % (ctx.fid, name, Lpart, a_i, detail, tol), dict(sub, glyph=name))
    # ---- (3) font-wide metrics
    if ctx.mvar_unsorted:
        acc.exclude("MVAR value records not sorted by tag (OpenType requires it; HarfBuzz' binary search misses tags)")
    if ctx.mvar_tags:
        if "static" not in hbi.__dict__:
            cur = hbi.loc
            hbi.set_location(None)
            hbi.static = {
                t: (getattr(inst["OS/2"], TYPO_FIELDS[t]) if "OS/2" in inst else None) if t in ctx.mvar_os2 else _static_metric(hbi, t)
                for t, _, _ in ctx.mvar_tags
            }
            hbi.set_location(cur)
        for t, varidx, pos_o in ctx.mvar_tags:
            bud, n = B.store_item("MVAR", varidx)
            if not math.isfinite(bud):
                continue
            v_o = pos_o + hbo.font.get_metric_variation(_tagint(t))
            pos_i = hbi.static.get(t)
            if pos_i is None:
                acc.fail("metrics", "metric-vanished", "%s metric %s: HarfBuzz has no value in the instance" % (ctx.fid, t), dict(sub, metric=t))
                continue
            v_i = pos_i + hbi.font.get_metric_variation(_tagint(t))
            acc.label("metric:compared")
            if t in ctx.mvar_os2:
                acc.label("metric:static-read-from-OS/2-table")
            if abs(v_o - v_i) > bud + FLOAT_EPS:
                acc.fail("metrics", t, "%s metric %s at %r: original %.4f, instance %.4f (static %s), budget %.3f (N=%d)" % (ctx.fid, t, Lpart, v_o, v_i, pos_i, bud, n), dict(sub, metric=t))
    # ---- (4) shaping
    rnd = random.Random(subseed(7, "shape", ctx.fid, fingerprint(sub["limits"]), fingerprint(loc)))
    runs = []
    if ctx.unicodes:
        for txt in shapecmp.random_texts(ctx.unicodes, rnd, 6, maxlen=6):
            runs.append(("text", txt))
    if "GSUB" in ctx.tables or "GPOS" in ctx.tables:
        for seq in shapecmp.layout_probe_sequences(ctx.font, rnd, 8, maxlen=5):
            runs.append(("names", seq))
    if EXCLUDE_F1 and ctx.featvar_f1(pinned, sit.L):
        acc.exclude("C08-F1: FeatureVariations record that becomes unconditional by pinning, other records survive (shaping clause skipped)")
        runs = []
    gbud, _ = B.store_all("GDEF") if ctx.var_gpos else (0.0, 0)
    K = ctx.n_gpos_lookups
    for kind, run in runs:
        def shape(hbf):
            if kind == "text":
                return shapecmp.shape_text(hbf, ctx.order, run)
            return shapecmp.shape_names(hbf, ctx.order, run)

        ra, rb = shape(hbo), shape(hbi)
        acc.label("shape:compared")
        if shapecmp.fired(ra) or any(r[2] != hbo.h_advance(ctx.gid[r[0]]) for r in ra if r[0] in ctx.gid):
            acc.label("shape:gpos-adjusted")
        if kind == "names" and [r[0] for r in ra] != list(run):
            acc.label("shape:gsub-changed")
        if [r[0] for r in ra] != [r[0] for r in rb]:
            if unstable(lambda: [r[0] for r in shape(hbo)]):
                acc.label("shape:boundary-unstable")
                continue
            acc.fail("shaping", "glyph-sequence", "%s run %r at %r: original %s, instance %s" % (ctx.fid, run, Lpart, [r[0] for r in ra][:10], [r[0] for r in rb][:10]), dict(sub, run=run))
            continue
        if not math.isfinite(gbud):
            continue
        # nominal advances are clause (2)'s subject (incl. the HVAR / phantom-point rule): here the
        # positions are compared net of each font's own nominal advance, i.e. the GPOS adjustments
        nom_o = [hbo.h_advance(ctx.gid[r[0]]) for r in ra]
        nom_i = [hbi.h_advance(ctx.gid[r[0]]) for r in rb]
        dadv = [abs(x - y) for x, y in zip(nom_o, nom_i)]
        val = K * (gbud + HB_INT) if ctx.var_gpos else 0.0
        fallback = 0.0
        if "GPOS" not in ctx.tables and ctx.kind != "no-outlines":
            # HarfBuzz positions marks from glyph extents (integers) when there is no GPOS
            fb = [B.glyph(r[0])[0] for r in ra]
            if any(x is None or not math.isfinite(x) for x in fb):
                continue
            fallback = sum(x + 1.0 for x in fb)
        bad = None
        for i, (a, b) in enumerate(zip(ra, rb)):
            if a[1] != b[1]:
                bad = "cluster of glyph %d (%s): %d vs %d" % (i, a[0], a[1], b[1])
                break
            t_adv = val + fallback + FLOAT_EPS
            t_off = 2 * val + fallback + FLOAT_EPS
            if a[4] or a[5] or b[4] or b[5]:
                # an attached glyph's offset contains the advances of the glyphs back to its base
                t_off += sum(dadv) - dadv[i] + val * (len(ra) - 1)
            # a glyph whose shaped advance is zero in both fonts although its nominal advance is not (a GDEF mark: the shaper
            # zeroes it) has no adjustment to speak of: its "adjustment" would be minus its own variable advance (clause 2)
            zeroed = a[2] == 0 and b[2] == 0
            pairs = (
                (0 if zeroed else a[2] - nom_o[i], 0 if zeroed else b[2] - nom_i[i], "x_advance adjustment", t_adv),
                (a[3], b[3], "y_advance", t_adv),
                (a[4], b[4], "x_offset", t_off),
                (a[5], b[5], "y_offset", t_off),
            )
            for x, y, lab, tol in pairs:
                if abs(x - y) > tol:
                    bad = "%s of glyph %d (%s): original %s, instance %s, budget %.3f" % (lab, i, a[0], x, y, tol)
                    break
            if bad:
                break
        if bad and on_featvar_boundary():
            # the location sits on the edge of a condition range: which side the renormalised, re-quantised edge of the
            # instance falls on is not determined (same rule as for glyph sequences above)
            acc.label("shape:boundary-unstable")
            continue
        if bad:
            acc.fail("shaping", "positions", "%s run %r at %r: %s" % (ctx.fid, run, Lpart, bad), dict(sub, run=run))
    return info


def cases_of(job):
    ctx = get_ctx(job["fid"])
    if isinstance(ctx, Excluded):
        return ctx, []
    out = []
    for k in range(job["k0"], job["k1"]):
        rnd = random.Random(subseed(job["seed"], "c08", job["fid"], k))
        lim, opts = gen_limits(ctx, rnd, k)
        if not lim and not opts.get("static"):
            continue
        triples, pinned = new_triples(ctx, lim, static=bool(opts.get("static")))
        locs = gen_locations(ctx, rnd, triples, pinned, job["nloc"])
        out.append(dict(fid=job["fid"], limits=lim, opts=opts, locs=locs))
    return ctx, out


def run_job(job):
    acc = Acc()
    ctx, cases = cases_of(job)
    if isinstance(ctx, Excluded):
        acc.exclude(str(ctx))
        return acc
    for case in cases:
        run_case(case, acc)
    return acc


def replay(case):
    acc = Acc()
    if "loc" in case:
        run_case(dict(case, locs=[case["loc"]]), acc, only_loc=case["loc"])
    else:
        run_case(case, acc)
    return acc.failures


MUST_HAVE = [
    "font:glyf", "font:CFF2", "axis:pin", "axis:range", "axis:range3", "axis:drop", "axis:leave", "limits:full-pin",
    "limits:partial", "limits:default-moved", "limits:proper-subrange", "loc:new-default", "loc:other", "has:avar",
    "has:HVAR", "has:MVAR", "has:variable-GDEF/GPOS", "opt:optimize=True", "opt:optimize=False", "outline:compared",
    "advance:compared", "metric:compared", "shape:compared", "shape:gpos-adjusted", "shape:gsub-changed",
    "has:FeatureVariations", "has:avar2", "has:VVAR", "opt:static", "opt:inplace=True", "variant:noavar", "variant:nohvar",
    "variant:varmarks", "name-added", "variant:varfea",
]  # fmt: skip


def finish(total, tier, seed):
    missing = [l for l in MUST_HAVE if not total.labels.get(l)]
    if missing:
        raise HarnessError("generator classes with zero cases: %s" % missing)
