"""C18 — merging fonts preserves each input's characters."""

import io
import os
import random

from vf import corpus, geom, shapecmp
from vf.runner import Acc, CaseTimeout, fingerprint, scratch_dir, subseed, time_limit

ID = "C18"
LEVEL = "exploration"
RULE = (
    "ordered lists of 2-4 static fonts with equal units-per-em and the same outline flavour: (a) parts derived from one corpus "
    "font by seeded disjoint or overlapping partitions of its character set (each part produced with the subsetter, layout kept), "
    "(b) seeded tuples of different corpus fonts with equal upem, (c) FontBuilder-generated TrueType/CFF fonts with generated "
    "outlines, overlapping and disjoint cmaps, identical and differing duplicate glyphs, with/without kerning and ligatures "
    "compiled from generated feature text (optionally registered under the font's own script / language system, one of them as "
    "the required feature), code points incl. default ignorables, U+25CC, space and hyphen; (d) 'feaprog': 2-3 fonts over the "
    "C11 skeleton glyph set (same glyph names in every input, so every glyph of the later inputs is renamed), each with its own "
    "private-use character block, rectangle outlines unique per (input, glyph) and GSUB/GPOS/GDEF compiled from an independent "
    "program of the C11 feature grammar (all lookup types, lookup references, lookup flags, mark filtering sets, script/language "
    "statements); probes = glyph runs aimed at that input's rules, typed in its characters, under its language systems. Merger().merge(paths) -> save -> HarfBuzz: every character of the union has a nominal "
    "glyph whose outline and advance equal those in the FIRST input mapping it; glyph names unique; for pairwise disjoint "
    "character sets, seeded texts over one input's characters shape to the same sequence of (outline, advance, offsets) in the "
    "merged font as in that input alone. non-trivial = some glyph was renamed because of a name clash, or a code point is mapped "
    "by two inputs to differing glyphs, or >= 2 inputs carry layout tables; distinct by input tuple"
)
ASSUMPTIONS = [
    "documented restrictions respected by construction: equal units per em, same outline flavour, static fonts, duplicate-glyph disambiguation only when every input has GSUB",
    "texts are shaped with default features and explicit script 'latn'/'DFLT' chosen from the input; glyphs are identified by outline+advance, never by name",
    "generated fonts that register features under their own script tag keep to that script's letters, one font per script (script records of the inputs are united by tag, so a font relying on DFLT for a script another input names explicitly is not a compatible input)",
    "U+25CC and default-ignorable characters are held to the same rule as every character (first supporting input wins); the merger only refrains from creating a 'locl' disambiguation for them",
]


def _sfnt(fid):
    from fontTools.ttLib import TTFont

    kind, rest = fid.split(":", 1)
    if kind == "bin":
        data = corpus.file_bytes(fid)
        num = int(rest.split("#")[1]) if "#" in rest else -1
        if data[:4] in (b"wOFF", b"wOF2", b"ttcf"):
            f = TTFont(io.BytesIO(data), fontNumber=num)
            f.flavor = None
            b = io.BytesIO()
            f.save(b)
            data = b.getvalue()
        return data
    return corpus.sfnt_bytes(fid)


def _eligible(e):
    t = set(e["tables"])
    return (
        not e["variable"]
        and {"head", "hhea", "hmtx", "maxp", "cmap", "name", "OS/2", "post"}.issubset(t)
        and bool(t & {"glyf", "CFF "})
        and "CFF2" not in t
        and e["numGlyphs"] >= 6
        and not (t & {"CBDT", "sbix", "SVG ", "COLR", "MATH", "VARC", "Silf", "EBDT"})
    )


def _subset(data, unicodes):
    from fontTools import subset
    from fontTools.ttLib import TTFont

    f = TTFont(io.BytesIO(data))
    o = subset.Options()
    o.layout_features = ["*"]
    o.notdef_outline = True
    o.glyph_names = True
    o.name_IDs = ["*"]
    o.legacy_cmap = False
    o.symbol_cmap = False
    o.prune_unicode_ranges = False
    s = subset.Subsetter(o)
    s.populate(unicodes=unicodes)
    s.subset(f)
    b = io.BytesIO()
    f.save(b)
    return b.getvalue()


def _gen_font(spec):
    """spec: dict(cff=bool, glyphs=[(name, cp|None, advance, [rect...])], kern=[(a,b,v)], liga=[(a,b,lig)])"""
    from fontTools.fontBuilder import FontBuilder
    from fontTools.pens.t2CharStringPen import T2CharStringPen
    from fontTools.pens.ttGlyphPen import TTGlyphPen

    names = [".notdef"] + [g[0] for g in spec["glyphs"]]
    fb = FontBuilder(1000, isTTF=not spec["cff"])
    fb.setupGlyphOrder(names)
    fb.setupCharacterMap({g[1]: g[0] for g in spec["glyphs"] if g[1] is not None})
    adv = {".notdef": 500}
    shapes = {".notdef": []}
    for name, cp, a, rects in spec["glyphs"]:
        adv[name] = a
        shapes[name] = rects

    def draw(pen, rects):
        for x0, y0, x1, y1 in rects:
            pen.moveTo((x0, y0))
            pen.lineTo((x0, y1))
            pen.lineTo((x1, y1))
            pen.lineTo((x1, y0))
            pen.closePath()

    if spec["cff"]:
        cs = {}
        for n in names:
            p = T2CharStringPen(adv[n], None)
            draw(p, shapes[n])
            cs[n] = p.getCharString()
        fb.setupCFF("Gen-%s" % spec["tag"], {"FullName": "Gen %s" % spec["tag"]}, cs, {})
        lsb = {n: 0 for n in names}
    else:
        gl = {}
        for n in names:
            p = TTGlyphPen(None)
            draw(p, shapes[n])
            gl[n] = p.glyph()
        fb.setupGlyf(gl)
        lsb = {n: (min(r[0] for r in shapes[n]) if shapes[n] else 0) for n in names}
    fb.setupHorizontalMetrics({n: (adv[n], lsb[n]) for n in names})
    fb.setupHorizontalHeader(ascent=800, descent=-200)
    fb.setupNameTable({"familyName": "Gen" + spec["tag"], "styleName": "Regular"})
    fb.setupOS2()
    fb.setupPost()
    fea = []
    reg = spec.get("reg")
    used = set()

    def head(table):
        # feaLib accepts one required feature per language system (whichever table it lives in)
        if not reg:
            return ""
        req = reg["required"] and not used
        used.add(table)
        return "  script %s;\n  language %s%s;\n" % (reg["script"], reg["lang"], " required" if req else "")

    if spec.get("kern"):
        fea.append("feature kern {\n" + head("GPOS") + "\n".join("  pos %s %s %d;" % k for k in spec["kern"]) + "\n} kern;")
    if spec.get("liga"):
        fea.append("feature liga {\n" + head("GSUB") + "\n".join("  sub %s %s by %s;" % l for l in spec["liga"]) + "\n} liga;")
    if spec.get("single"):
        fea.append("feature ss01 {\n" + head("GSUB") + "\n".join("  sub %s by %s;" % l for l in spec["single"]) + "\n} ss01;")
    if fea:
        ls = "languagesystem DFLT dflt;\nlanguagesystem latn dflt;\n"
        if reg:
            ls = "languagesystem DFLT dflt;\n" + ("languagesystem %s dflt;\n" % reg["script"]) + ("" if reg["lang"] == "dflt" else "languagesystem %s %s;\n" % (reg["script"], reg["lang"]))
        fb.addOpenTypeFeatures(ls + "\n".join(fea))
    b = io.BytesIO()
    fb.font.save(b)
    return b.getvalue()


def _gen_specs(rnd, n):
    """n generated font specs sharing a code-point universe so that overlaps can occur"""
    cff = rnd.random() < 0.5
    # letters of three scripts, plus characters the cmap merger singles out (default ignorables, U+25CC) and
    # characters fonts of any script share (space, hyphen)
    blocks = {"latn": list(range(0x61, 0x7B)), "cyrl": list(range(0x430, 0x440)), "grek": list(range(0x3B1, 0x3C0))}
    special = [0x20, 0x2D, 0xAD, 0x200B, 0x200D, 0x2060, 0xFE0F, 0xFEFF, 0x25CC]
    cps = blocks["latn"] + blocks["cyrl"] + special
    specs = []
    disjoint = rnd.random() < 0.5
    by_script = disjoint and rnd.random() < 0.6  # each font keeps to one script and registers its features there
    pool = cps[:]
    rnd.shuffle(pool)
    scripts = list(blocks)
    rnd.shuffle(scripts)
    if by_script:
        # one font per script: a font that supports Cyrillic letters through the DFLT script only would, once merged with a
        # font that brings a 'cyrl' script record, be shaped under that record (script lists are united by tag)
        n = min(n, len(scripts))
    for i in range(n):
        k = rnd.randrange(3, 9)
        script = None
        if by_script and i < len(scripts):
            script = scripts[i]
            mine = rnd.sample(blocks[script], min(k, len(blocks[script])))
        elif disjoint:
            mine, pool = pool[:k], pool[k:]
        else:
            mine = rnd.sample(cps, k)
        glyphs = []
        for cp in mine:
            # same glyph NAME across fonts on purpose (name clash); shape identical with probability 1/2
            name = "u%04X" % cp if rnd.random() < 0.8 else "g%d_%d" % (i, cp)
            same = rnd.random() < 0.5
            r = random.Random(cp if same else cp * 31 + i)
            w = r.randrange(2, 10) * 50
            rects = [[r.randrange(0, 3) * 50, 0, w, r.randrange(2, 14) * 50]]
            if r.random() < 0.4:
                rects.append([w + 50, 100, w + 150, 300])
            glyphs.append([name, cp, w + r.randrange(1, 4) * 50, rects])
        # an unencoded ligature glyph
        names = [g[0] for g in glyphs]
        kern, liga = [], []
        if rnd.random() < 0.7 and len(names) >= 2:
            for _ in range(rnd.randrange(1, 4)):
                a, b = rnd.sample(names, 2)
                kern.append((a, b, rnd.randrange(-8, 8) * 10 or -30))
            kern = list({(a, b): (a, b, v) for a, b, v in kern}.values())
        if (rnd.random() < 0.6 or not disjoint) and len(names) >= 2:
            a, b = rnd.sample(names, 2)
            lig = "%s_%s" % (a, b)
            glyphs.append([lig, None, 700, [[0, 0, 600, 650], [100, 100, 200, 200]]])
            liga.append((a, b, lig))
        single = []
        if rnd.random() < 0.5 and len(names) >= 2:
            a, b = rnd.sample(names, 2)
            single.append((a, b))
        # how the features are registered: default language systems, or under the font's own script, optionally as the
        # REQUIRED feature of a language system (LangSys.ReqFeatureIndex)
        reg = None
        if script is not None:
            reg = dict(script=script, lang=rnd.choice(["dflt", "dflt", {"latn": "TRK ", "cyrl": "SRB ", "grek": "ELL "}[script]]), required=rnd.random() < 0.6)
        specs.append(dict(cff=cff, tag="F%d" % i, glyphs=glyphs, kern=kern, liga=liga, single=single, reg=reg))
    return specs, disjoint


FEA_BLOCK = 0xE000  # input i maps glyph g of the C11 skeleton to U+E000 + 0x100 * i + gid (private use: no normalisation)


def _fea_input(pseed, idx):
    """Input font i of a 'feaprog' case: the C11 skeleton glyph set with rectangle outlines and advances that are unique
    per (input, glyph), a Unicode cmap over a private-use block of its own, and GSUB/GPOS/GDEF compiled by feaLib from a
    program of the C11 grammar (every lookup type, lookup references, lookup flags, mark filtering sets, scripts and
    languages). Returns (bytes, program)."""
    from fontTools.feaLib.builder import addOpenTypeFeaturesFromString
    from fontTools.pens.ttGlyphPen import TTGlyphPen
    from fontTools.ttLib import TTFont

    from vf import gen_fea

    program = gen_fea.gen_program(pseed)
    text = gen_fea.print_program(program)
    font = TTFont(io.BytesIO(gen_fea.skeleton_bytes()), recalcTimestamp=False)
    glyf = font["glyf"]
    hmtx = font["hmtx"]
    for g in gen_fea.GLYPHS:
        gi = gen_fea.GID[g]
        pen = TTGlyphPen(None)
        w, h = 10 * (gi + 1), 10 * (idx + 1)
        pen.moveTo((0, 0))
        pen.lineTo((0, h))
        pen.lineTo((w, h))
        pen.lineTo((w, 0))
        pen.closePath()
        glyf[g] = pen.glyph()
        adv = gen_fea.ADV[g]
        hmtx[g] = (adv + idx if adv else 0, 0)
    m = {FEA_BLOCK + 0x100 * idx + gen_fea.GID[g]: g for g in gen_fea.GLYPHS if g != ".notdef"}
    for t in font["cmap"].tables:
        t.cmap = dict(m)
    font["name"].setName("Fea%d" % idx, 1, 3, 1, 0x409)
    font["name"].setName("Fea%d Regular" % idx, 4, 3, 1, 0x409)
    addOpenTypeFeaturesFromString(font, text)
    b = io.BytesIO()
    font.save(b)
    return b.getvalue(), program


def build_inputs(case):
    """-> list of bytes, flags"""
    rnd = random.Random(case["seed"])
    kind = case["kind"]
    if kind == "feaprog":
        res = [_fea_input(subseed(case["seed"], "prog", i), i) for i in range(case["n"])]
        return [r[0] for r in res], dict(disjoint=True, programs=[r[1] for r in res])
    if kind == "partition":
        data = _sfnt(case["fid"])
        from vf.hbref import HBFont

        chars = list(HBFont(data).unicodes())
        rnd.shuffle(chars)
        chars = chars[: rnd.randrange(6, 60)]
        n = case["n"]
        parts = [[] for _ in range(n)]
        for c in chars:
            parts[rnd.randrange(n)].append(c)
        if case["overlap"]:
            for p in parts:
                p.extend(rnd.sample(chars, min(len(chars), rnd.randrange(1, 4))))
        parts = [sorted(set(p)) for p in parts if p]
        if len(parts) < 2:
            return None, None
        return [_subset(data, p) for p in parts], dict(disjoint=not case["overlap"])
    if kind == "corpus":
        return [_sfnt(f) for f in case["fids"]], dict(disjoint=False)
    specs, disjoint = _gen_specs(rnd, case["n"])
    return [_gen_font(s) for s in specs], dict(disjoint=disjoint, regs=[s.get("reg") for s in specs])


_DI = [(0xAD, 0xAD), (0x34F, 0x34F), (0x61C, 0x61C), (0x115F, 0x1160), (0x17B4, 0x17B5), (0x180B, 0x180F), (0x200B, 0x200F), (0x202A, 0x202E), (0x2060, 0x206F), (0x3164, 0x3164), (0xFE00, 0xFE0F), (0xFEFF, 0xFEFF), (0xFFA0, 0xFFA0), (0xFFF0, 0xFFF8), (0x1BCA0, 0x1BCA3), (0x1D173, 0x1D17A), (0xE0000, 0xE0FFF)]


def _default_ignorable(cp):
    return any(a <= cp <= b for a, b in _DI)


def _glyph_key(hbf, gid):
    c = geom.canon(hbf.draw(gid), tol=0.01)
    c = [x for x in c if x["segs"]]
    return c


def _same_glyph(hba, ga, hbb, gb):
    return shapecmp.diff_glyph(hba, ga, hbb, gb, tol=1e-6)


def run_case(case, acc):
    from fontTools.merge import Merger
    from fontTools.ttLib import TTFont
    from vf.hbref import HBFont

    try:
        with time_limit(600):
            inputs, flags = build_inputs(case)
    except CaseTimeout:
        acc.inconclusive += 1
        return
    except Exception as e:
        acc.exclude("input-build-failed:%s" % type(e).__name__)
        return
    if not inputs:
        acc.exclude("degenerate-partition")
        return
    fonts = [TTFont(io.BytesIO(d)) for d in inputs]
    hbs = [HBFont(d) for d in inputs]
    # the merger documents that it only merges format 4 / format 12 Unicode cmap subtables
    ok_props = {(4, 3, 1), (4, 0, 3), (4, 0, 4), (4, 0, 6), (12, 3, 10), (12, 0, 4), (12, 0, 6)}
    for f in fonts:
        if not any((st.format, st.platformID, st.platEncID) in ok_props for st in f["cmap"].tables):
            acc.exclude("input-without-format-4-or-12-unicode-cmap")
            return
    charsets = [set(h.unicodes()) for h in hbs]
    for h, cs in zip(hbs, charsets):
        n = h.glyph_count()
        if any((h.nominal(cp) or 0) >= n for cp in cs):
            # an input whose character map points beyond its own glyph count (AOTS cmap4_font4.otf: 900 of 1001 entries)
            acc.exclude("input-cmap-points-beyond-its-glyph-count(malformed)")
            return
    all_have_gsub = all("GSUB" in f for f in fonts)
    # documented restriction: duplicate glyph disambiguation needs GSUB in the fonts
    dup = any(charsets[i] & charsets[j] for i in range(len(inputs)) for j in range(i))
    if dup and not all_have_gsub:
        # still valid when the duplicate code points map to identical glyphs? The restriction is stated on
        # disambiguation taking place, which the merger decides by glyph identity; keep to the safe side
        acc.exclude("overlap-without-gsub")
        return
    with scratch_dir("c18") as d:
        paths = []
        for i, data in enumerate(inputs):
            p = os.path.join(d, "in%d.%s" % (i, "otf" if "CFF " in fonts[i] else "ttf"))
            with open(p, "wb") as fh:
                fh.write(data)
            paths.append(p)
        try:
            with time_limit(900):
                merged = Merger().merge(paths)
                buf = io.BytesIO()
                merged.save(buf)
                mdata = buf.getvalue()
        except CaseTimeout:
            acc.inconclusive += 1
            return
        except NotImplementedError as e:
            acc.exclude("merge-not-implemented")
            return
        except Exception as e:
            acc.fail_exc("merge-raises", e, case)
            return
    mfont = TTFont(io.BytesIO(mdata))
    order = mfont.getGlyphOrder()
    if len(set(order)) != len(order):
        dups = sorted(n for n in set(order) if order.count(n) > 1)
        acc.fail("names", "glyph-names-not-unique", "%r" % dups[:6], case)
    hm = HBFont(mdata)
    renamed = any("." in n and n.rsplit(".", 1)[1].isdigit() for n in order)
    conflicting = False
    # --- every character keeps the glyph of the first input that maps it -------------------------
    for cp in sorted(set().union(*charsets)):
        first = next(i for i, cs in enumerate(charsets) if cp in cs)
        g_in = hbs[first].nominal(cp)
        g_m = hm.nominal(cp)
        if not g_m:
            acc.fail("cmap", "character-lost", "U+%04X mapped by input %d but not by the merged font" % (cp, first), case)
            break
        dres = _same_glyph(hbs[first], g_in, hm, g_m)
        if dres:
            acc.fail("glyph", "character-glyph-differs", "U+%04X: input %d vs merged: %s" % (cp, first, dres), case)
            break
        for j in range(first + 1, len(inputs)):
            if cp in charsets[j] and _same_glyph(hbs[first], g_in, hbs[j], hbs[j].nominal(cp)):
                conflicting = True
    # --- disjoint inputs: shaping of each input's texts is unchanged -----------------------------------
    layout_inputs = sum(1 for f in fonts if "GSUB" in f or "GPOS" in f)
    fired = 0
    if flags.get("programs"):
        fired = _probe_programs(acc, case, flags["programs"], hbs, hm, fonts)
    elif flags["disjoint"] and not dup:
        rnd = random.Random(case["seed"] ^ 0x5EED)
        for i, h in enumerate(hbs):
            # the shaper's Unicode normalisation may compose base+mark (or Hangul jamo) sequences into a precomposed
            # character that only ANOTHER input supports; that is the shaper using the larger merged repertoire, not a
            # change to this input's behaviour: probe texts avoid combining marks and conjoining jamo
            import unicodedata

            # ... and default-ignorable characters: HarfBuzz replaces them by an invisible space glyph when the font has
            # U+0020 and deletes them otherwise, so their treatment follows the merged repertoire as well
            chars = sorted(c for c in charsets[i] if not unicodedata.category(chr(c)).startswith("M") and not (0x1100 <= c <= 0x11FF) and not _default_ignorable(c))
            reg = (flags.get("regs") or [None] * len(hbs))[i]
            settings = [(None, None, None)]
            if reg:
                # the language system the input registered its features under (possibly as the required feature),
                # with the optional feature also switched on explicitly
                lang = None if reg["lang"] == "dflt" else reg["lang"].strip()
                settings = [(reg["script"], lang, None), (reg["script"], lang, {"ss01": True}), (None, None, None)]
            texts = shapecmp.random_texts(chars, rnd, case.get("ntexts", 10), maxlen=6)
            for ti, t in enumerate(texts):
                sc, lg, feats = settings[ti % len(settings)]
                ra = h.shape_text(t, script=sc, language=lg, features=feats, direction="ltr")
                rb = hm.shape_text(t, script=sc, language=lg, features=feats, direction="ltr")
                bad = None
                if len(ra) != len(rb):
                    bad = "glyph count %d vs %d" % (len(ra), len(rb))
                else:
                    cut = 6 if "GPOS" in fonts[i] else 4  # offsets only when they are the input's own GPOS data (see _probe_programs)
                    for k, (a, b) in enumerate(zip(ra, rb)):
                        if a[1:cut] != b[1:cut]:
                            bad = "glyph %d: cluster/advance/offset %r vs %r" % (k, a[1:cut], b[1:cut])
                            break
                        dres = _same_glyph(h, a[0], hm, b[0])
                        if dres:
                            bad = "glyph %d differs: %s" % (k, dres)
                            break
                if bad:
                    acc.fail("shaping", "disjoint-input-shapes-differently", "input %d text %r: %s" % (i, t, bad), case)
                    break
    labels = ["kind:%s" % case["kind"], "disjoint" if flags["disjoint"] and not dup else "overlapping", "n:%d" % len(inputs), "cff" if "CFF " in fonts[0] else "glyf"]
    if renamed:
        labels.append("renamed-glyph")
    if conflicting:
        labels.append("conflicting-duplicate")
    if layout_inputs >= 2:
        labels.append("layout-in->=2-inputs")
    for reg in flags.get("regs") or []:
        if reg:
            labels.append("script-specific-features" + (":required" if reg["required"] else ""))
    if any(cp in cs for cs in charsets for cp in (0xAD, 0x200B, 0x200D, 0x2060, 0xFE0F, 0xFEFF, 0x25CC)):
        labels.append("default-ignorable-or-dotted-circle" + (":shared" if any(cp in charsets[a] and cp in charsets[b] for cp in (0xAD, 0x200B, 0x200D, 0x2060, 0xFE0F, 0xFEFF, 0x25CC) for a in range(len(charsets)) for b in range(a)) else ""))
    if flags.get("programs"):
        labels.append("feaprog:rule-fired" if fired else "feaprog:no-rule-fired")
    acc.case(case, nontrivial=(renamed or conflicting or layout_inputs >= 2) and (fired > 0 or not flags.get("programs")), labels=labels, sample=case if renamed else None)


def _langsys_map(font):
    out = {}
    for T in ("GSUB", "GPOS"):
        if T in font and font[T].table.ScriptList is not None:
            m = {}
            for sr in font[T].table.ScriptList.ScriptRecord:
                m[str(sr.ScriptTag)] = set(str(l.LangSysTag) for l in sr.Script.LangSysRecord)
            out[T] = m
    return out


def safe_settings(fonts, i):
    """(script, language) pairs under which HarfBuzz selects, in the merged font, the union of the language systems it
    selects in input i alone. Script lists of the inputs are united by tag, so a probe must name a script that input i
    itself declares in each of its layout tables (otherwise input i alone falls back to DFLT while the merged font
    finds another input's record of that script), and a language that input i declares there or that no other input
    declares under that script."""
    maps = [_langsys_map(f) for f in fonts]
    mine = maps[i]
    tables = list(mine)
    if not tables:
        return []
    scripts = set.intersection(*[set(mine[T]) for T in tables])
    out = []
    for S in sorted(scripts):
        langs = set.union(*[mine[T][S] for T in tables]) | {"dflt"}
        for L in sorted(langs):
            ok = True
            for T in tables:
                if L == "dflt" or L in mine[T][S]:
                    continue
                if any(L in maps[j].get(T, {}).get(S, ()) for j in range(len(fonts)) if j != i):
                    ok = False
            if ok:
                out.append((S, L))
    return out


def _probe_programs(acc, case, programs, hbs, hm, fonts):
    """feaprog: glyph runs aimed at the rules of input i's own program (C11's run generator), typed as input i's
    characters, shaped under the language systems and features of that program, alone and in the merged font."""
    from props import c11
    from vf import gen_fea
    from vf.ref_layout import Layout

    fired = 0
    all_tags = sorted({t["tag"] for p in programs for t in p["top"] if t["k"] == "feature"})
    rnd = random.Random(case["seed"] ^ 0xFEA)
    for i, program in enumerate(programs):
        layout = Layout(program)
        feats = [t for t in program["top"] if t["k"] == "feature"]
        if not feats:
            continue
        vocab = c11.vocabulary(program)
        if not vocab:
            continue
        nruns = case.get("nruns", 10)
        safe = safe_settings(fonts, i)
        if not safe:
            acc.label("feaprog:input-without-safe-language-system")
            continue
        for k in range(nruns):
            feat = feats[k % len(feats)]
            script, lang = c11.gen_langsys(rnd, program, feat)
            if (script, lang) not in safe:
                same = [x for x in safe if x[0] == script]
                script, lang = rnd.choice(same or safe)
            run = c11.gen_run(rnd, layout, feat, vocab, biased=(k < nruns - 2))
            if not run:
                continue
            value = rnd.choice([1, 1, 2])
            features = {t: False for t in c11.DEFAULT_OFF + all_tags}
            features[feat["tag"]] = value
            if k % 3 == 2:
                features = {t: True for t in all_tags}  # everything on
            text = "".join(chr(FEA_BLOCK + 0x100 * i + gen_fea.GID[g]) for g in run)
            hlang = None if lang == "dflt" else lang.strip()
            ra = hbs[i].shape_text(text, features=features, script=script, language=hlang, direction="ltr")
            rb = hm.shape_text(text, features=features, script=script, language=hlang, direction="ltr")
            plain = [(hbs[i].nominal(ord(ch)), j, hbs[i].h_advance(hbs[i].nominal(ord(ch))), 0, 0, 0) for j, ch in enumerate(text)]
            if ra != plain:
                fired += 1
            bad = None
            if len(ra) != len(rb):
                bad = "glyph count %d vs %d" % (len(ra), len(rb))
            else:
                # an input without GPOS gets HarfBuzz's fallback mark positioning, which the merged font (GPOS from another
                # input) does not: offsets are compared only when they come from the input's own GPOS
                # (the same holds for the marks of an input whose GPOS has no 'mark' feature)
                has_gpos = "GPOS" in fonts[i]
                has_mark_feature = has_gpos and any(fr.FeatureTag == "mark" for fr in fonts[i]["GPOS"].table.FeatureList.FeatureRecord)
                marks = set()
                if "GDEF" in fonts[i] and fonts[i]["GDEF"].table.GlyphClassDef is not None:
                    marks = {n for n, c in fonts[i]["GDEF"].table.GlyphClassDef.classDefs.items() if c == 3}
                for j, (a, b) in enumerate(zip(ra, rb)):
                    is_mark = fonts[i].getGlyphName(a[0]) in marks
                    cut = 6 if (has_gpos and (has_mark_feature or not is_mark)) else 4
                    if a[1:cut] != b[1:cut]:
                        bad = "glyph %d: cluster/advance/offset %r vs %r" % (j, a[1:cut], b[1:cut])
                        break
                    dres = _same_glyph(hbs[i], a[0], hm, b[0])
                    if dres:
                        bad = "glyph %d differs: %s" % (j, dres)
                        break
            if bad:
                acc.fail("shaping", "feaprog-input-shapes-differently", "input %d run %r feature %s=%s script %s lang %s: %s" % (i, run, feat["tag"], value, script, lang, bad), case)
                return fired
    return fired


def jobs(tier, seed):
    thorough = tier == "thorough"
    rnd = random.Random(subseed(seed, "c18"))
    ents = corpus.fonts(_eligible)
    J = []
    npart = 1200 if thorough else 120
    for i in range(npart):
        e = rnd.choice(ents)
        J.append(dict(name="partition-%d" % i, kind="partition", fid=e["id"], n=rnd.choice([2, 2, 3, 4]), overlap=rnd.random() < 0.4, seed=subseed(seed, "p", i)))
    # tuples of different corpus fonts: equal upem and flavour
    groups = {}
    opt = {"GSUB", "GPOS", "GDEF", "DSIG", "BASE"}
    for e in ents:
        # "compatible" fonts: same units per em, same flavour and the same set of non-layout tables
        groups.setdefault((e.get("upem"), "CFF " in e["tables"], tuple(sorted(set(e["tables"]) - opt))), []).append(e["id"])
    groups = [g for g in groups.values() if len(g) >= 2]
    ncorp = 400 if thorough else 40
    for i in range(ncorp):
        g = rnd.choice(groups)
        k = min(len(g), rnd.choice([2, 2, 3]))
        J.append(dict(name="corpus-%d" % i, kind="corpus", fids=rnd.sample(g, k), seed=subseed(seed, "c", i)))
    ngen = 4800 if thorough else 360
    for i in range(ngen):
        J.append(dict(name="generated-%d" % i, kind="generated", n=rnd.choice([2, 2, 3, 4]), seed=subseed(seed, "g", i)))
    nfea = 3000 if thorough else 160
    for i in range(nfea):
        J.append(dict(name="feaprog-%d" % i, kind="feaprog", n=rnd.choice([2, 2, 3]), seed=subseed(seed, "f", i)))
    return J


def run_job(job):
    acc = Acc()
    case = {k: v for k, v in job.items() if k != "name"}
    try:
        with time_limit(1500):
            run_case(case, acc)
    except CaseTimeout:
        acc.inconclusive += 1
    return acc


def replay(case):
    acc = Acc()
    run_case(case, acc)
    return acc.failures
