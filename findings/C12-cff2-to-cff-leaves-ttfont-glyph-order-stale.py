"""convertCFF2ToCFF(font) renames the glyphs of the new 'CFF ' table to cid00001, cid00002, ... (it makes the font
CID-keyed) but leaves the TTFont's glyph order and every loaded table on the old names. For a font opened the default way
(TTFont(path): recalcBBoxes=True) with glyphs ['.notdef', 'B'] the converted font can neither be drawn by name nor saved:
font.getGlyphSet()['B'] raises KeyError('B') and font.save() raises KeyError('B') (head/hhea recalculation looks the glyph
order's names up in the CFF table). The command line hides this by opening the font with recalcBBoxes=False;
varLib.instancer.downgradeCFF2ToCFF works around it with two save/reload cycles ("convertCFF2ToCFF changes glyph names, so
following save would fail"). Expected: after the conversion the glyph 'B' of font.getGlyphOrder() draws the same outline as
before and the font can be saved."""


def _build(charstrings, widths, private, lsubrs=()):
    """bytes of a small OpenType/CFF font; charstrings: name -> Type 2 program, lsubrs: local subroutine programs"""
    import io

    from fontTools.cffLib import SubrsIndex
    from fontTools.fontBuilder import FontBuilder
    from fontTools.misc.psCharStrings import T2CharString

    names = list(charstrings)
    fb = FontBuilder(1000, isTTF=False)
    fb.setupGlyphOrder(names)
    fb.setupCharacterMap({0x41 + i: n for i, n in enumerate(names) if i})
    fb.setupCFF("Witness", {"FullName": "Witness"}, {n: T2CharString(program=list(p)) for n, p in charstrings.items()}, dict(private))
    if lsubrs:
        subrs = SubrsIndex()
        for p in lsubrs:
            subrs.append(T2CharString(program=list(p)))
        fb.font["CFF "].cff.topDictIndex[0].Private.Subrs = subrs
    fb.setupHorizontalMetrics({n: (widths[n], 0) for n in names})
    fb.setupHorizontalHeader(ascent=800, descent=-200)
    fb.setupNameTable({"familyName": "Witness", "styleName": "Regular"})
    fb.setupOS2()
    fb.setupPost()
    buf = io.BytesIO()
    fb.font.save(buf)
    return buf.getvalue()


def reproduce():
    import io

    from fontTools.cffLib.CFF2ToCFF import convertCFF2ToCFF
    from fontTools.cffLib.CFFToCFF2 import convertCFFToCFF2
    from fontTools.pens.recordingPen import RecordingPen
    from fontTools.ttLib import TTFont

    data = _build(
        {".notdef": [0, 0, "rmoveto", "endchar"], "B": [10, 20, "rmoveto", 30, "hlineto", 40, "vlineto", "endchar"]},
        {".notdef": 500, "B": 600},
        dict(defaultWidthX=500, nominalWidthX=0),
    )
    font = TTFont(io.BytesIO(data))
    before = RecordingPen()
    font.getGlyphSet()["B"].draw(before)
    convertCFFToCFF2(font)
    buf = io.BytesIO()
    font.save(buf)

    font = TTFont(io.BytesIO(buf.getvalue()))  # default options
    convertCFF2ToCFF(font)
    out = []
    name = font.getGlyphOrder()[1]
    try:
        after = RecordingPen()
        font.getGlyphSet()[name].draw(after)
        if after.value != before.value:
            out.append("outline of %r changed: %r -> %r" % (name, before.value, after.value))
    except KeyError as e:
        out.append("font.getGlyphSet()[%r] raises KeyError(%s): glyph order is %r but the CFF charset is %r" % (name, e, font.getGlyphOrder(), font["CFF "].cff.topDictIndex[0].charset))
    try:
        font.save(io.BytesIO())
    except KeyError as e:
        out.append("font.save() raises KeyError(%s)" % e)
    return "; ".join(out) or None
