#!/bin/bash
# tools/seedbatch.sh C04 C10 ... : confirms /tmp/seedout/<ID>/{1,2} with tools/seedcheck.py, names them <ID>-s<k>
cd /verif
for id in "$@"; do for k in 1 2 3; do
  d=/tmp/seedout/$id/$k; [ -f $d/patch.diff ] || continue
  python3 tools/seedcheck.py $id $d /tmp/seed-$id $id-s$k > .scratch/seed-$id-$k.log 2>&1
  python3 - <<PY
import json
m=json.load(open('/verif/seeded/$id-s$k/meta.json'))['confirmed']
print('$id-s$k', 'clean',m.get('demo_clean_exit'),'patched',m.get('demo_patched_exit'),'tests',m.get('tests_pass'), {c:(v['exit'],v['secs']) for c,v in m.get('checks',{}).items()})
PY
done; done
