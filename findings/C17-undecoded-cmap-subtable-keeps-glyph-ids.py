"""reorderGlyphs() leaves cmap subtables of the formats the library does not decode (8 and 10 are kept as raw data,
cmap_format_unknown) untouched: the glyph IDs stored in them keep their old values, so after a reordering those
subtables map their characters to other glyphs. Tests/ttLib/tables/data/aots/cmap10_font1.otf (format 10, platform 3
encoding 10... read by HarfBuzz): rotating the glyph order changes what U+109423 maps to."""
import io
import os


def reproduce():
    import uharfbuzz as hb
    from fontTools.ttLib import TTFont
    from fontTools.ttLib.reorderGlyphs import reorderGlyphs

    path = os.path.join(os.environ.get("VERIF_REPO", "/repo"), "Tests", "ttLib", "tables", "data", "aots", "cmap10_font1.otf")
    data = open(path, "rb").read()
    font = TTFont(io.BytesIO(data), lazy=False)
    order = font.getGlyphOrder()
    new_order = [order[0]] + order[2:] + [order[1]]
    reorderGlyphs(font, new_order)
    buf = io.BytesIO()
    font.save(buf)

    def nominal(d, cp):
        f = hb.Font(hb.Face(hb.Blob(d)))
        return f.get_nominal_glyph(cp)

    bad = []
    for cp in (0x109423, 0x109424, 0x109425):
        a, b = nominal(data, cp), nominal(buf.getvalue(), cp)
        if a is None or b is None:
            continue
        if order[a] != new_order[b]:
            bad.append("U+%06X -> %s before, %s after rotating the glyph order" % (cp, order[a], new_order[b]))
    return "; ".join(bad) or None
