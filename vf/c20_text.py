"""C20 clause 3 — text inputs are data: canary injection into TTX, fea, designspace, GLIF/UFO, plist.

Every case runs the library on an input file living in <job dir>/work/in with the audit observer
armed; <job dir>/outside holds bait files with known bytes and is never an allowed location.
The current directory of the worker is <job dir>/work/cwd for the duration of the job, so that
'../../outside/x' resolves to the bait directory both relative to the input file and to the cwd.
"""

import contextlib
import hashlib
import io
import os
import re
import shutil
import sys

from vf import faults as F
from vf.runner import REPO_LIB, TESTS, CaseTimeout, HarnessError, scratch_dir, short

MARK = F.MARK
BAIT = b"BAIT FILE OUTSIDE THE REQUESTED LOCATION - MUST NOT CHANGE\n"


class Env:
    """Directories of one job."""

    def __init__(self, d):
        self.d = d
        self.work = os.path.join(d, "work")
        self.inp = os.path.join(d, "work", "in")
        self.cwd = os.path.join(d, "work", "cwd")
        self.out = os.path.join(d, "work", "out")
        self.outside = os.path.join(d, "outside")
        for p in (self.inp, self.cwd, self.out, self.outside):
            os.makedirs(p, exist_ok=True)
        self.hit = os.path.join(self.work, MARK + "_hit")
        self.bait = {}
        for name in ("existing.glif", "existing.ttf", "existing.txt"):
            p = os.path.join(self.outside, name)
            with open(p, "wb") as f:
                f.write(BAIT)
            self.bait[p] = BAIT
        self.obs = F.observer(REPO_LIB)

    # canaries ---------------------------------------------------------
    def exec_canaries(self):
        h = self.hit
        return [
            ("os.system", "__import__('os').system('touch${IFS}%s')" % h),
            ("open-w", "open('%s','w')" % h),
            ("dunder", "(().__class__.__bases__[0].__subclasses__(),'%s')" % MARK),
            ("ifexp", "(1)if(open('%s','w'))else(0)" % h),
            # break out of the quotes that some call sites wrap around the value before evaluating it
            ("quote3s", "'''+str(open('%s','w'))+'''" % h),
            ("quote1d", '"+str(open(\'%s\',\'w\'))+"' % h),
            ("quote3d", '"""+str(open(\'%s\',\'w\'))+"""' % h),
        ]

    def path_canaries(self, ext=""):
        return [
            ("trav-rel", "../../outside/%s_rel%s" % (MARK, ext)),
            ("trav-abs", os.path.join(self.outside, "%s_abs%s" % (MARK, ext))),
        ]

    def clean(self, keep_in=True):
        """Remove products of the previous case (cheap: a handful of files)."""
        for p in (self.out, self.cwd) + (() if keep_in else (self.inp,)):
            for name in os.listdir(p):
                q = os.path.join(p, name)
                if os.path.isdir(q) and not os.path.islink(q):
                    shutil.rmtree(q, ignore_errors=True)
                else:
                    with contextlib.suppress(OSError):
                        os.remove(q)
        with contextlib.suppress(OSError):
            os.remove(self.hit)

    def side_effects(self):
        """Filesystem evidence after a case: list of (kind, detail)."""
        ev = []
        if os.path.exists(self.hit):
            ev.append(("canary-file-created", self.hit))
        if not os.path.isdir(self.outside):
            ev.append(("directory-outside-requested-location-removed", "outside/"))
            os.makedirs(self.outside, exist_ok=True)
        try:
            names = set(os.listdir(self.outside))
        except OSError:
            names = set()
        want = set(os.path.basename(p) for p in self.bait)
        for n in sorted(names - want):
            ev.append(("file-created-outside-requested-location", n))
            q = os.path.join(self.outside, n)
            if os.path.isdir(q):
                shutil.rmtree(q, ignore_errors=True)
            else:
                with contextlib.suppress(OSError):
                    os.remove(q)
        for p, b in self.bait.items():
            try:
                with open(p, "rb") as f:
                    cur = f.read()
            except OSError:
                cur = None
            if cur != b:
                ev.append(("existing-file-outside-modified", os.path.basename(p)))
                with open(p, "wb") as f:
                    f.write(b)
        # anything with the marker in its name anywhere else under the job dir but outside work/
        for n in os.listdir(self.d):
            if n not in ("work", "outside"):
                ev.append(("file-created-outside-requested-location", n))
        return ev


@contextlib.contextmanager
def job_env(tag="c20t"):
    with scratch_dir(tag) as d:
        env = Env(d)
        old = os.getcwd()
        os.chdir(env.cwd)
        try:
            yield env
        finally:
            os.chdir(old)
            env.obs.armed = False


class Outcome:
    def __init__(self):
        self.exc = None
        self.result = None
        self.events = []
        self.sites = set()
        self.timeout = False
        self.nonordinary = None


def guarded(env, allowed_roots, fn, cli=False, limit=180):
    """Run fn() with the observer armed. Exceptions are data here (any Exception is an ordinary
    error); SystemExit is ordinary only for command-line entry points (cli=True)."""
    o = Outcome()
    obs = env.obs
    obs.arm(allowed_roots)
    try:
        with F.cpu_limit(limit, CaseTimeout):
            o.result = fn()
    except CaseTimeout:
        o.timeout = True
    except (KeyboardInterrupt, HarnessError):
        obs.disarm()
        raise
    except Exception as e:
        o.exc = e
    except BaseException as e:  # SystemExit, GeneratorExit, ...
        o.exc = e
        if not (cli and isinstance(e, SystemExit)):
            o.nonordinary = e
    finally:
        o.events = obs.disarm()
    o.sites = set(obs.case_sites)
    return o


def exc_sig(e):
    if e is None:
        return "ok"
    return "%s:%s" % (type(e).__name__, short(str(e), 120))


def report(acc, clause, case, env, o):
    """Turn observer events and filesystem evidence into failures. Returns number of failures."""
    n = 0
    side = env.side_effects()
    extra = ("; filesystem evidence: %r" % side[:3]) if side else ""
    for kind, where, detail in o.events:
        if where.startswith("fontTools/misc/filesystem/_osfs.py"):
            # one root cause: OSFS resolves '..' components without confining them to its root
            kind, detail, where = "path-escapes-filesystem-root", "%s via %s: %s" % (kind, where.split(":")[-1], detail), "fontTools/misc/filesystem/_osfs.py:OSFS._abs"
        acc.fail(clause, kind, detail + extra, case, where=where)
        n += 1
    if not o.events:
        for kind, detail in side:
            acc.fail(clause, kind, detail, case, where="")
            n += 1
    if o.nonordinary is not None:
        acc.fail(clause, "non-ordinary-exception:%s" % type(o.nonordinary).__name__, short(str(o.nonordinary), 200), case)
        n += 1
    if o.timeout:
        acc.inconclusive += 1
    return n


# ---------------------------------------------------------------------------
# static list of safeEval call sites in the library (the sites that must be reached)

_SITES = None


def safeeval_call_sites():
    """{(relpath, lineno)} of every 'safeEval(' call in Lib/fontTools (text search, as the property's
    anchor says: safeEval is the single funnel for attribute values)."""
    global _SITES
    if _SITES is None:
        sites = set()
        root = os.path.join(REPO_LIB, "fontTools")
        for dp, dn, fn in os.walk(root):
            for f in fn:
                if not f.endswith(".py"):
                    continue
                p = os.path.join(dp, f)
                relp = os.path.relpath(p, os.path.realpath(REPO_LIB))
                with open(p, encoding="utf-8") as fh:
                    for i, line in enumerate(fh, 1):
                        if re.search(r"(?<![A-Za-z_.])safeEval\(", line) and not line.lstrip().startswith(("#", "def ")):
                            sites.add((relp, i))
        _SITES = sites
    return _SITES


def map_to_static(hit):
    """Map frame line numbers recorded by the observer to static call-site lines (a multi-line
    call reports the line of the call expression; allow a 3-line window)."""
    static = safeeval_call_sites()
    out = set()
    for relp, ln in hit:
        relp = os.path.relpath(os.path.join(os.path.realpath(REPO_LIB), relp), os.path.realpath(REPO_LIB))
        for d in (0, -1, -2, -3, 1, 2):
            if (relp, ln + d) in static:
                out.add((relp, ln + d))
                break
    return out


# ---------------------------------------------------------------------------
# TTX

_NUMERICISH = re.compile(rb"^[-+0-9.eExXa-fA-F\s,]*$")


def ttx_site_key(site, depth=1):
    kind, path, attr, s, e = site
    table = path[1] if len(path) > 1 else "<root>"
    if depth == 1:
        return (kind, table, path[-1], attr)
    return (kind, table) + tuple(path[2:]) + (attr,)


def ttx_files():
    import glob

    fs = [p for p in glob.glob(os.path.join(TESTS, "**", "*.ttx"), recursive=True) if os.path.isfile(p)]
    return sorted(fs, key=lambda p: (os.path.getsize(p), p))


_SRC_CACHE = {}


def ttx_source(name):
    """Bytes of a TTX document. name: corpus relpath | 'dump:<relpath of corpus font>' (the font dumped with
    saveXML: input preparation) | 'synth:<test module>:<CONSTANT>' (XML fragments that the repository's own
    table tests keep as Python string lists, wrapped into a one-table document)."""
    if name in _SRC_CACHE:
        return _SRC_CACHE[name]
    if name.startswith("dump:"):
        from fontTools.ttLib import TTFont

        f = TTFont(os.path.join(TESTS, name[5:]), lazy=False)
        buf = io.BytesIO()
        f.saveXML(buf)
        src = buf.getvalue()
    elif name.startswith("synth:"):
        _, mod, const = name.split(":")
        src = dict(synth_docs(mod))[const]
    else:
        with open(os.path.join(TESTS, name), "rb") as f:
            src = f.read()
    if len(_SRC_CACHE) > 40:
        _SRC_CACHE.clear()
    _SRC_CACHE[name] = src
    return src


EXTRA_DOCS = {
    # tables for which the corpus has neither a TTX nor a small binary font (hand-written, minimal)
    "VDMX": '<VDMX><version value="1"/><ratRanges><ratRange bCharSet="1" xRatio="1" yStartRatio="1" yEndRatio="1" groupIndex="0"/></ratRanges>'
    '<groups><group index="0"><record yPelHeight="8" yMax="8" yMin="-2"/></group></groups></VDMX>',
    "FFTM": '<FFTM><version value="1"/><FFTimeStamp value="Thu Jan  1 00:00:00 2015"/><sourceCreated value="Thu Jan  1 00:00:00 2015"/><sourceModified value="Thu Jan  1 00:00:00 2015"/></FFTM>',
    "LTSH": '<LTSH><version value="0"/><yPel name=".notdef" value="1"/></LTSH>',
    "TSI5": '<TSI5><glyphgroup name=".notdef" value="1"/></TSI5>',
    "SVG": '<SVG><svgDoc endGlyphID="1" startGlyphID="1" compressed="0">&lt;svg xmlns="http://www.w3.org/2000/svg"/&gt;</svgDoc></SVG>',
    "sbix": '<sbix><version value="1"/><flags value="00000000 00000001"/><strike><ppem value="24"/><resolution value="72"/>'
    '<glyph graphicType="png " name=".notdef" originOffsetX="0" originOffsetY="0"><hexdata>00</hexdata></glyph><glyph name="A"><ref glyphname=".notdef"/></glyph></strike></sbix>',
    "EBSC": '<EBSC><header version="2.0" numSizes="1"/><bitmapScaleTable index="0"><sbitLineMetrics direction="hori"><ascender value="1"/></sbitLineMetrics>'
    '<sbitLineMetrics direction="vert"><ascender value="1"/></sbitLineMetrics><ppemX value="8"/><ppemY value="8"/><substitutePpemX value="9"/><substitutePpemY value="9"/></bitmapScaleTable></EBSC>',
    "CPAL": '<CPAL><version value="1"/><numPaletteEntries value="1"/><palette index="0" label="256" type="1"><color index="0" value="#000000FF"/></palette>'
    '<paletteEntryLabels><label index="0" value="257"/></paletteEntryLabels></CPAL>',
    "DSIG": '<DSIG><tableHeader flag="0x1" numSigs="1" version="1"/><SignatureRecord format="1">\n-----BEGIN PKCS7-----\n0000\n-----END PKCS7-----\n</SignatureRecord></DSIG>',
}


def synth_docs(mod):
    """[(constant name, document bytes)] from Tests/ttLib/tables/<mod>.py"""
    import ast

    if mod == "extra":
        return [(k, ('<?xml version="1.0" encoding="UTF-8"?>\n<ttFont sfntVersion="\\x00\\x01\\x00\\x00">\n<GlyphOrder><GlyphID id="0" name=".notdef"/><GlyphID id="1" name="A"/></GlyphOrder>\n%s\n</ttFont>\n' % v).encode()) for k, v in sorted(EXTRA_DOCS.items())]

    from fontTools.ttLib import identifierToTag, tagToXML

    p = os.path.join(TESTS, "ttLib", "tables", mod + ".py")
    ident = mod[: -len("_test")]
    if ident.endswith("__") and not ident.endswith("___"):
        ident = ident[:-1]  # E_B_S_C__test -> E_B_S_C_
    try:
        tag = tagToXML(identifierToTag(ident))
    except Exception:
        return []
    with open(p, encoding="utf-8") as f:
        try:
            tree = ast.parse(f.read())
        except SyntaxError:
            return []
    out = []
    for node in tree.body:
        if isinstance(node, ast.Assign) and len(node.targets) == 1 and isinstance(node.targets[0], ast.Name) and "XML" in node.targets[0].id.upper():
            try:
                val = ast.literal_eval(node.value)
            except Exception:
                continue
            if isinstance(val, (list, tuple)) and all(isinstance(x, str) for x in val):
                body = "\n".join(val)
            elif isinstance(val, str):
                body = val
            else:
                continue
            if "<ttFont" in body:
                doc = body
            else:
                doc = '<?xml version="1.0" encoding="UTF-8"?>\n<ttFont sfntVersion="\\x00\\x01\\x00\\x00">\n<%s>\n%s\n</%s>\n</ttFont>\n' % (tag, body, tag)
            out.append((node.targets[0].id, doc.encode("utf-8")))
    return out


def ttx_sources(extra=True):
    """Names of all TTX sources, corpus files first (smallest first), then dumps, then synthesized."""
    names = [os.path.relpath(p, TESTS) for p in ttx_files()]
    if extra:
        import glob

        bins = []
        for ext in ("ttf", "otf"):
            bins += glob.glob(os.path.join(TESTS, "**", "*." + ext), recursive=True)
        bins = sorted(b for b in bins if "/aots/" not in b and os.path.getsize(b) < 40000)
        names += ["dump:" + os.path.relpath(b, TESTS) for b in bins]
        for p in sorted(glob.glob(os.path.join(TESTS, "ttLib", "tables", "*_test.py"))):
            mod = os.path.basename(p)[:-3]
            names += ["synth:%s:%s" % (mod, c) for c, _ in synth_docs(mod)]
        names += ["synth:extra:%s" % c for c, _ in synth_docs("extra")]
    return names


def index_ttx_sites(depth=1, max_file=1500000):
    """Each distinct site key is owned by the first source in which it occurs (corpus files smallest
    first, then dumps of corpus fonts, then synthesized one-table documents).
    -> {source name: [ (key, ordinal of the site in that document's scan) ]}"""
    owner = {}
    per = {}
    for name in ttx_sources():
        try:
            src = ttx_source(name)
            if len(src) > max_file:
                continue
            sites = F.scan_xml(src)
        except Exception:
            continue
        for i, site in enumerate(sites):
            if site[0] == "text" and b"<" in src[site[3] : site[4]]:
                continue
            k = ttx_site_key(site, depth)
            if k not in owner:
                owner[k] = name
                per.setdefault(name, []).append((k, i))
    return per


def run_ttx(env, src_bytes, name="case.ttx", stage2=False):
    """Write the document and import it; then try to save. Returns a callable for guarded()."""
    path = os.path.join(env.inp, name)
    with open(path, "wb") as f:
        f.write(src_bytes)

    def fn():
        from fontTools.ttLib import TTFont

        font = TTFont()
        font.importXML(path)
        res = {"import": "ok"}
        try:
            out = os.path.join(env.out, "saved.ttf")
            font.save(out)
            with open(out, "rb") as f:
                res["save"] = hashlib.sha1(f.read()).hexdigest()[:12]
        except Exception as e:
            res["save"] = exc_sig(e)
        if stage2:
            try:
                os.makedirs(os.path.join(env.out, "dump"), exist_ok=True)
                font.saveXML(os.path.join(env.out, "dump", "d.ttx"), splitGlyphs=True, bitmapGlyphDataFormat="extfile")
                res["dump"] = "ok"
            except Exception as e:
                res["dump"] = exc_sig(e)
        return res

    return fn


def ttx_case(acc, env, relfile, ordinal, canary, baseline_sig, case, src=None, sites=None):
    """One TTX canary case. canary: (label, value). Returns (outcome label, sig)."""
    if src is None:
        src = ttx_source(relfile)
    if sites is None:
        sites = F.scan_xml(src)
    kind, path, attr, s, e = sites[ordinal]
    mutated = F.substitute(src, s, e, canary[1])
    env.clean()
    stage2 = canary[0].startswith("trav")
    o = guarded(env, [env.work], run_ttx(env, mutated, stage2=stage2))
    nf = report(acc, "text:ttx", case, env, o)
    sig = (exc_sig(o.exc), tuple(sorted((o.result or {}).items())))
    reached = bool(o.sites) or (baseline_sig is not None and sig != baseline_sig)
    if nf:
        out = "violation"
    elif o.sites:
        out = "reached:safeEval-site"
    elif reached:
        out = "reached:behaviour-changed"
    else:
        out = "unreached"
    return out, sig, o


def ttx_baseline(env, src):
    env.clean()
    o = guarded(env, [env.work], run_ttx(env, src))
    env.side_effects()
    return (exc_sig(o.exc), tuple(sorted((o.result or {}).items())))


def glyph_rename_doc(src, newname):
    """Consistently rename one glyph of a TTX document (first glyph after .notdef that is referenced
    at least twice): every attribute value equal to the old name is replaced."""
    m = re.findall(rb'<GlyphID id="\d+" name="([^"]+)"', src)
    for old in m[1:]:
        pat = re.compile(rb'="' + re.escape(old) + rb'"')
        if len(pat.findall(src)) >= 2:
            return pat.sub(b'="' + F.xml_escape_attr(newname).encode() + b'"', src), old.decode("utf-8", "replace")
    return None, None


# ---------------------------------------------------------------------------
# feature files

FEA_GLYPHS = (
    ".notdef space slash fraction semicolon period comma ampersand quotedblleft quotedblright quoteleft quoteright "
    "zero one two three four five six seven eight nine zero.oldstyle one.oldstyle two.oldstyle three.oldstyle "
    "four.oldstyle five.oldstyle six.oldstyle seven.oldstyle eight.oldstyle nine.oldstyle onequarter onehalf "
    "threequarters onesuperior twosuperior threesuperior ordfeminine ordmasculine "
    "A B C D E F G H I J K L M N O P Q R S T U V W X Y Z a b c d e f g h i j k l m n o p q r s t u v w x y z "
    "A.sc B.sc C.sc D.sc E.sc F.sc G.sc H.sc I.sc J.sc K.sc L.sc M.sc N.sc O.sc P.sc Q.sc R.sc S.sc T.sc U.sc V.sc "
    "W.sc X.sc Y.sc Z.sc A.alt1 A.alt2 A.alt3 B.alt1 B.alt2 B.alt3 C.alt1 C.alt2 C.alt3 a.alt1 a.alt2 a.alt3 a.end "
    "b.alt c.mid d.alt d.mid e.begin e.mid e.end m.begin n.end s.end z.end Eng Eng.alt1 Eng.alt2 Eng.alt3 "
    "f_l c_h c_k c_s c_t f_f f_f_i f_f_l f_i o_f_f_i s_t f_i.begin a_n_d T_h T_h.swash germandbls ydieresis yacute "
    "breve grave acute dieresis macron circumflex cedilla umlaut ogonek caron damma hamza sukun kasratan "
    "lam_meem_jeem noon.final noon.initial by feature lookup sub table uni0327 uni0328 e.fina idotbelow idotless "
    "iogonek acutecomb brevecomb ogonekcomb dotbelowcomb"
).split()


def fea_sites(text):
    """[(kind, start, end)] : include arguments, string literals, numbers following a keyword, names."""
    sites = []
    for m in re.finditer(r"include\s*\(\s*([^)]*?)\s*\)", text):
        sites.append(("include-arg", m.start(1), m.end(1)))
    for m in re.finditer(r'"([^"\n]*)"', text):
        sites.append(("string", m.start(1), m.end(1)))
    seen = set()
    for m in re.finditer(r"\b([A-Za-z_]+)\s+(-?\d+(?:\.\d+)?)\b", text):
        if m.group(1) not in seen:
            seen.add(m.group(1))
            sites.append(("number-after-" + m.group(1), m.start(2), m.end(2)))
    for m in re.finditer(r"\b(feature|lookup|anon|anonymous|table)\s+([A-Za-z0-9_./]+)", text):
        if (m.group(1), "n") not in seen:
            seen.add((m.group(1), "n"))
            sites.append(("name-after-" + m.group(1), m.start(2), m.end(2)))
    return sites


def run_fea(env, text, build=True):
    path = os.path.join(env.inp, "case.fea")
    with open(path, "w", encoding="utf-8") as f:
        f.write(text)

    def fn():
        from fontTools.feaLib.parser import Parser
        from fontTools.ttLib import TTFont

        res = {}
        doc = Parser(path, glyphNames=(), followIncludes=True).parse()
        res["parse"] = "ok"
        try:
            res["asFea"] = hashlib.sha1(doc.asFea().encode("utf-8", "replace")).hexdigest()[:10]
        except Exception as e:
            res["asFea"] = exc_sig(e)
        if build:
            try:
                from fontTools.feaLib.builder import addOpenTypeFeatures

                font = TTFont()
                font.setGlyphOrder(FEA_GLYPHS + ["cid%05d" % c for c in range(800, 1002)])
                addOpenTypeFeatures(font, path)
                res["build"] = "ok:" + ",".join(sorted(k for k in font.keys() if k != "GlyphOrder"))
            except Exception as e:
                res["build"] = exc_sig(e)
        return res

    return fn


# ---------------------------------------------------------------------------
# designspace + varLib

DS_TEMPLATE = """<?xml version='1.0' encoding='UTF-8'?>
<designspace format="5.0">
    <axes>
        <axis tag="wght" name="Weight" minimum="300" maximum="700" default="300"/>
    </axes>
    <sources>
        <source filename="masters/TestFamily-Master0.ttf" name="Light">
            <location><dimension name="Weight" xvalue="300"/></location>
        </source>
        <source filename="masters/TestFamily-Master2.ttf" name="Bold">
            <location><dimension name="Weight" xvalue="700"/></location>
        </source>
    </sources>
    <variable-fonts>
        <variable-font name="%(name)s"%(filename)s>
            <axis-subsets>
                <axis-subset name="Weight"/>
            </axis-subsets>
        </variable-font>
    </variable-fonts>
</designspace>"""


def prepare_masters(env):
    """Compile the two TestFamily masters into <in>/masters (input preparation, observer not armed)."""
    from fontTools.ttLib import TTFont

    md = os.path.join(env.inp, "masters")
    os.makedirs(md, exist_ok=True)
    for n in ("TestFamily-Master0", "TestFamily-Master2"):
        dst = os.path.join(md, n + ".ttf")
        if not os.path.exists(dst):
            f = TTFont()
            f.importXML(os.path.join(TESTS, "varLib", "data", "master_ttx_interpolatable_ttf", n + ".ttx"))
            f.save(dst)
    return md


def snapshot(root):
    out = {}
    for dp, dn, fn in os.walk(root):
        for f in fn:
            p = os.path.join(dp, f)
            try:
                st = os.stat(p)
                out[p] = (st.st_size, st.st_mtime_ns)
            except OSError:
                pass
    return out


def run_varlib_main(env, ds_text, mode):
    """mode: 'output-dir' (requested location = work/out) or 'default' (= directory of the designspace)."""
    path = os.path.join(env.inp, "case.designspace")
    with open(path, "w", encoding="utf-8") as f:
        f.write(ds_text)

    def fn():
        from fontTools import varLib

        args = [path, "-q"]
        if mode == "output-dir":
            args += ["--output-dir", env.out]
        varLib.main(args)
        return {"main": "ok"}

    return fn


# ---------------------------------------------------------------------------
# UFO / GLIF / plist

GLIF_SRC = """<?xml version="1.0" encoding="UTF-8"?>
<glyph name="a" format="2">
  <advance width="500" height="0"/>
  <unicode hex="0061"/>
  <image fileName="img.png" xScale="1" color="1,0,0,1"/>
  <guideline x="10" y="20" angle="45" name="g" color="0,0,0,1" identifier="gid1"/>
  <anchor x="1" y="2" name="top" color="0,0,0,1" identifier="aid1"/>
  <outline>
    <contour identifier="cid1">
      <point x="0" y="0" type="line" smooth="no" name="p" identifier="pid1"/>
      <point x="100" y="0" type="line"/>
      <point x="100" y="100" type="line"/>
    </contour>
    <component base="b" xScale="1" xyScale="0" yxScale="0" yScale="1" xOffset="5" yOffset="6" identifier="coid1"/>
  </outline>
  <lib>
    <dict>
      <key>com.example.key</key>
      <string>value</string>
      <key>com.example.int</key>
      <integer>3</integer>
      <key>com.example.real</key>
      <real>1.5</real>
      <key>com.example.date</key>
      <date>2020-01-01T00:00:00Z</date>
      <key>com.example.data</key>
      <data>AAEC</data>
      <key>com.example.array</key>
      <array><string>x</string><true/></array>
    </dict>
  </lib>
  <note>a note</note>
</glyph>
"""


class GlyphObj:
    pass


def make_ufo(env, name="in.ufo", contents=None, layercontents=None, extra_glif=None):
    """A minimal UFO3 written directly (not through ufoLib)."""
    root = os.path.join(env.inp, name)
    if os.path.isdir(root):
        shutil.rmtree(root)
    g = os.path.join(root, "glyphs")
    os.makedirs(g)
    with open(os.path.join(root, "metainfo.plist"), "w") as f:
        f.write(_plist("<dict><key>creator</key><string>vf</string><key>formatVersion</key><integer>3</integer></dict>"))
    lc = layercontents or [("public.default", "glyphs")]
    with open(os.path.join(root, "layercontents.plist"), "w") as f:
        f.write(_plist("<array>%s</array>" % "".join("<array><string>%s</string><string>%s</string></array>" % (F.xml_escape_attr(a), F.xml_escape_attr(b)) for a, b in lc)))
    cont = contents or {"a": "a.glif", "b": "b.glif"}
    with open(os.path.join(g, "contents.plist"), "w") as f:
        f.write(_plist("<dict>%s</dict>" % "".join("<key>%s</key><string>%s</string>" % (F.xml_escape_attr(k), F.xml_escape_attr(v)) for k, v in cont.items())))
    with open(os.path.join(g, "a.glif"), "w") as f:
        f.write(extra_glif or GLIF_SRC)
    with open(os.path.join(g, "b.glif"), "w") as f:
        f.write('<?xml version="1.0" encoding="UTF-8"?>\n<glyph name="b" format="2"><advance width="10"/></glyph>\n')
    with open(os.path.join(root, "fontinfo.plist"), "w") as f:
        f.write(_plist("<dict><key>familyName</key><string>Fam</string><key>unitsPerEm</key><integer>1000</integer></dict>"))
    with open(os.path.join(root, "lib.plist"), "w") as f:
        f.write(_plist("<dict><key>public.glyphOrder</key><array><string>a</string><string>b</string></array></dict>"))
    return root


def _plist(body):
    return '<?xml version="1.0" encoding="UTF-8"?>\n<!DOCTYPE plist PUBLIC "-//Apple//DTD PLIST 1.0//EN" "http://www.apple.com/DTDs/PropertyList-1.0.dtd">\n<plist version="1.0">\n%s\n</plist>\n' % body


def force_bundled_fs():
    """Make ufoLib use the repository's own fontTools.misc.filesystem implementation (the default for
    users without the optional third-party 'fs' package) rather than site-packages 'fs'."""
    if "fontTools.misc.filesystem" in sys.modules:
        m = sys.modules["fontTools.misc.filesystem"]
        return "bundled" if not getattr(m, "_haveFS", True) else "third-party-fs"
    saved = {k: v for k, v in sys.modules.items() if k == "fs" or k.startswith("fs.")}
    for k in saved:
        del sys.modules[k]
    sys.modules["fs"] = None  # import fs -> ImportError
    try:
        import fontTools.misc.filesystem as m
        import fontTools.ufoLib  # noqa: F401
        import fontTools.ufoLib.glifLib  # noqa: F401
    finally:
        del sys.modules["fs"]
        sys.modules.update(saved)
    return "bundled" if not m._haveFS else "third-party-fs"
