import sys, time, json
sys.path.insert(0, '/verif')
from vf import runner
runner.bootstrap()
from props import c08
tier = sys.argv[1]; seed = int(sys.argv[2]); pat = sys.argv[3] if len(sys.argv) > 3 else ''
tot = runner.Acc()
for j in c08.jobs(tier, seed):
    if pat and pat not in j['name']: continue
    t0 = time.time()
    acc = c08.run_job(j)
    print('%-80s %5.1fs evals=%d fails=%d excl=%s' % (j['name'], time.time()-t0, acc.evals, sum(acc._bucket_counts.values()), dict(acc.excluded)))
    for f in acc.failures[:6]:
        print('   ', f['clause'], f['kind'], f['where'], f['detail'][:400])
    tot.merge(acc)
print(json.dumps(dict(sorted(tot.labels.items())), indent=0))
print(dict(tot._bucket_counts))
