"""C13 — curve conversion stays within tolerance and keeps masters compatible.

Sub-checks (job kinds):
  curve   cu2qu.curve_to_quadratic on one generated cubic
  curves  cu2qu.curves_to_quadratic on 2-5 perturbations of one cubic, per-curve tolerances
  qu2cu   qu2cu.quadratic_to_curves on generated chains of quadratic splines
  glyphs  cu2qu.ufo.fonts_to_quadratic on generated masters (minimal UFO-like objects)
  pens    Cu2QuPen / Cu2QuPointPen / Cu2QuMultiPen / Qu2CuPen on generated glyphs

Oracle: own Bezier arithmetic in vf/bezier_ref.py.  End points are compared
exactly.  The error bound is decided in stages: (1) a cheap *upper* estimate of
the distance (for cu2qu the parametric distance piece-by-piece, otherwise a
sampled Hausdorff distance whose point-to-curve distances are upper bounds);
if that is within tolerance the case passes; (2) otherwise a certified *lower*
bound of the geometric two-sided Hausdorff distance (branch and bound
point-to-curve distance at the worst sample points).  A violation is recorded
only if that lower bound exceeds tol*(1+1e-6) + margin, margin = 1e-9 * the
coordinate scale + the branch-and-bound gap.
"""

import math
import random

from vf.runner import Acc, Allowed, HarnessError, fingerprint, innermost_frame, subseed
from vf import bezier_ref as br

ID = "C13"
LEVEL = "exploration"
RULE = (
    "cubics drawn from 14 shape families (generic, smooth, coincident handles, cusp, loop, collinear, closed, "
    "zero-length, parallel handles, tiny/huge handles, elevated quadratic, thin, near-line) at scales 1..30000, "
    "integer / half-unit / float coordinates, tolerances log-uniform in [1e-3, R/10]; lists of 2-5 perturbed "
    "copies with per-curve tolerances; chains of quadratic splines (cu2qu output, rounded, arcs, random, corners, "
    "duplicates) for qu2cu; generated multi-master glyph sets for fonts_to_quadratic and the cu2qu/qu2cu pens. "
    "Oracle: exact end points, equal point counts across a list, own Bezier evaluation with a two-stage distance "
    "(upper estimate first, certified lower bound of the geometric Hausdorff distance before any violation). "
    "A case is non-trivial when the result has >= 2 quadratic segments (cu2qu), when >= 2 quadratics were merged "
    "into one cubic (qu2cu), or when a glyph set had a curve converted; distinct by input"
)
ASSUMPTIONS = [
    "coordinates are finite and |coordinate| <= 65536; tolerances in [1e-3, R/10] with R the curve's scale (DESIGN domain)",
    "'within tolerance' is the two-sided Hausdorff distance between the input curve and the returned curve(s) "
    "(what the statement promises); the parametric distance the implementation bounds is only used as a filter",
    "slack: tol*(1+1e-6) + 1e-9*scale for floating-point rounding inside the library",
    "fonts_to_quadratic needs only the glyph/font protocol it uses (lib, info.unitsPerEm, keys, drawPoints, "
    "clearContours, getPen, __len__); minimal objects implementing it stand in for UFO fonts",
    "glyph-level generators emit plain curveTo segments with exactly two off-curves, no zero-length lines and "
    "no collapsed closing segment (pen-protocol corner cases belong to C14)",
]
WALL_BUDGET = {"quick": 900, "thorough": 3 * 3600}

REL_SLACK = 1e-6
ABS_SLACK = 1e-9
# Finding C13-F1 on the unchanged tree: _glyphs_to_quadratic(all_quadratic=False) returns "modified" for a glyph
# whose cubic segments were all kept (`new_segments != segments` compares list with tuple, always True).
# That class is counted in excluded_by_construction instead of being reported on every run; set to False
# (or add a known_findings.json entry for clause fonts_to_quadratic / kind modified-flag) to see it again.
EXCLUDE_KEPT_CUBIC_FLAG = True

# ---------------------------------------------------------------------------
# small helpers


def P(z):
    return [z.real, z.imag]


def C(p):
    return complex(p[0], p[1])


def _quant(z, mode):
    if mode == "int":
        return complex(float(round(z.real)), float(round(z.imag)))
    if mode == "half":
        return complex(round(z.real * 2) / 2.0, round(z.imag * 2) / 2.0)
    return z


def _num(x, mode):
    """JSON value for a coordinate: ints stay ints in int mode (the API accepts both)."""
    if mode == "int":
        return int(x)
    return x


def _pts_json(zs, mode):
    return [[_num(z.real, mode), _num(z.imag, mode)] for z in zs]


def _finite(zs):
    return all(math.isfinite(z.real) and math.isfinite(z.imag) for z in zs)


def _threshold(tol, scale):
    return tol * (1.0 + REL_SLACK) + ABS_SLACK * scale


# ---------------------------------------------------------------------------
# generators (all randomness from the rnd passed in)

FAMILIES = [
    "generic",
    "smooth",
    "coincident",
    "cusp",
    "loop",
    "collinear",
    "closed",
    "zero",
    "parallel",
    "tiny-handles",
    "huge-handles",
    "quadratic",
    "thin",
    "near-line",
]
_FAMILY_WEIGHTS = [10, 16, 8, 7, 7, 7, 6, 3, 6, 5, 5, 5, 5, 6]


def gen_scale(rnd):
    r = rnd.random()
    if r < 0.15:
        return rnd.choice([1.0, 10.0, 1000.0, 2048.0, 16384.0, 30000.0])
    return math.exp(rnd.uniform(0.0, math.log(30000.0)))


def gen_tol(rnd, R):
    r = rnd.random()
    if r < 0.15:
        t = rnd.choice([1.0, 0.5, 0.05, 0.001 * R, 0.001, R / 10.0])
    elif r < 0.25:
        t = math.exp(rnd.uniform(math.log(1e-3), math.log(R / 10.0)))
    else:
        lo = max(1e-3, R * 10.0 ** (-rnd.choice([2, 3, 3, 4, 4, 5, 6])))
        hi = R / 10.0
        if lo > hi:
            lo = hi
        t = math.exp(rnd.uniform(math.log(lo), math.log(hi)))
    return min(max(t, 1e-3), R / 10.0)


def _rv(rnd, R):
    return complex(rnd.uniform(-R, R), rnd.uniform(-R, R))


def _unit(rnd):
    a = rnd.uniform(0, 2 * math.pi)
    return complex(math.cos(a), math.sin(a))


def gen_cubic(rnd, family=None, R=None, mode=None):
    """-> (family, mode, R, [4 complex])"""
    if family is None:
        family = rnd.choices(FAMILIES, _FAMILY_WEIGHTS)[0]
    if R is None:
        R = gen_scale(rnd)
    if mode is None:
        mode = rnd.choice(["int", "int", "float", "float", "half"])
    q = lambda z: _quant(z, mode)
    off = _rv(rnd, R) if rnd.random() < 0.5 else 0j
    f = family
    if f == "generic":
        pts = [_rv(rnd, R) for _ in range(4)]
    elif f == "smooth":
        p0, p3 = _rv(rnd, R), _rv(rnd, R)
        ch = p3 - p0
        a, b = rnd.uniform(0.05, 0.8), rnd.uniform(0.05, 0.8)
        t1, t2 = rnd.uniform(-1.3, 1.3), rnd.uniform(-1.3, 1.3)
        if rnd.random() < 0.6:
            t2 = -abs(t2) if t1 > 0 else abs(t2)  # C-shape
        pts = [p0, p0 + ch * a * complex(math.cos(t1), math.sin(t1)), p3 - ch * b * complex(math.cos(t2), math.sin(t2)), p3]
    elif f == "coincident":
        p = [q(_rv(rnd, R)) for _ in range(4)]
        pat = rnd.choice(["p1=p0", "p2=p3", "p1=p2", "both", "p0=p1=p2", "p1=p2=p3", "p1=p3", "p2=p0", "p1=p3,p2=p0"])
        if pat == "p1=p0":
            p[1] = p[0]
        elif pat == "p2=p3":
            p[2] = p[3]
        elif pat == "p1=p2":
            p[2] = p[1]
        elif pat == "both":
            p[1], p[2] = p[0], p[3]
        elif pat == "p0=p1=p2":
            p[1] = p[2] = p[0]
        elif pat == "p1=p2=p3":
            p[1] = p[2] = p[3]
        elif pat == "p1=p3":
            p[1] = p[3]
        elif pat == "p2=p0":
            p[2] = p[0]
        else:
            p[1], p[2] = p[3], p[0]
        pts = p
    elif f == "cusp":
        p0 = q(_rv(rnd, R))
        e0, e2 = q(_rv(rnd, R * 0.7)), q(_rv(rnd, R * 0.7))
        if rnd.random() < 0.5:
            e1 = -(e0 + e2) / 2.0  # derivative vanishes at t = 1/2
        else:
            tau = rnd.uniform(0.1, 0.9)
            e1 = -((1 - tau) ** 2 * e0 + tau**2 * e2) / (2 * tau * (1 - tau))
        pts = [p0, p0 + e0, p0 + e0 + e1, p0 + e0 + e1 + e2]
    elif f == "loop":
        u = _unit(rnd)
        d = rnd.choice([0.0, 0.01, 0.1, 0.3]) * R
        L = rnd.uniform(0.3, 1.0) * R + d
        h = rnd.uniform(0.05, 1.0) * R
        p0 = _rv(rnd, R * 0.3)
        pts = [p0, p0 + u * complex(L, h), p0 + u * complex(d - L, h * rnd.uniform(0.5, 1.5)), p0 + u * d]
    elif f == "collinear":
        a = q(_rv(rnd, R * 0.5))
        dvec = q(_rv(rnd, R * 0.02)) if mode != "float" else _rv(rnd, R * 0.02)
        if dvec == 0:
            dvec = 1 + 0j
        pat = rnd.choice(["mono", "overshoot", "back", "handles-out", "equal-mid", "rand"])
        if pat == "mono":
            s = sorted(rnd.randint(0, 24) for _ in range(4))
        elif pat == "overshoot":
            s = [0, rnd.randint(13, 30), rnd.randint(-18, -1), 12]
        elif pat == "back":
            s = [0, rnd.randint(-20, -1), rnd.randint(1, 11), 12]
        elif pat == "handles-out":
            s = [0, rnd.randint(-20, -1), rnd.randint(13, 30), 12]
        elif pat == "equal-mid":
            m = rnd.randint(-5, 20)
            s = [0, m, m, 12]
        else:
            s = [rnd.randint(-25, 25) for _ in range(4)]
        pts = [a + dvec * k for k in s]
    elif f == "closed":
        p0 = q(_rv(rnd, R))
        pts = [p0, _rv(rnd, R), _rv(rnd, R), p0]
    elif f == "zero":
        p0 = q(_rv(rnd, R))
        pat = rnd.choice(["all", "handles-tiny", "ends-equal-one-handle"])
        if pat == "all":
            pts = [p0, p0, p0, p0]
        elif pat == "handles-tiny":
            e = _unit(rnd) * R * 10.0 ** rnd.uniform(-9, -3)
            pts = [p0, p0 + e, p0 + e * 1j, p0]
        else:
            pts = [p0, p0, _rv(rnd, R), p0]
    elif f == "parallel":
        p0, p3 = _rv(rnd, R), _rv(rnd, R)
        v = _rv(rnd, R * 0.6)
        c = rnd.choice([1.0, -1.0, 0.5, -0.5, 2.0, -2.0, rnd.uniform(-2, 2)])
        if mode != "float":
            p0, p3, v = q(p0), q(p3), q(v)
            c = rnd.choice([1.0, -1.0, 2.0, -2.0])
        pts = [p0, p0 + v, p3 + v * c, p3]
    elif f == "tiny-handles":
        p0, p3 = q(_rv(rnd, R)), q(_rv(rnd, R))
        if mode == "float":
            e = R * 10.0 ** rnd.uniform(-12, -3)
            pts = [p0, p0 + _unit(rnd) * e, p3 + _unit(rnd) * e * rnd.choice([1.0, 1e-3, 1e3]), p3]
        else:
            st = rnd.choice([1, 1j, -1, -1j, 1 + 1j, 0])
            pts = [p0, p0 + st, p3 + rnd.choice([1, 1j, -1, -1j, 0]), p3]
    elif f == "huge-handles":
        p0 = _rv(rnd, R * 0.05)
        p3 = p0 + _rv(rnd, R * 0.05)
        pts = [p0, p0 + _rv(rnd, R), p3 + _rv(rnd, R), p3]
    elif f == "quadratic":
        q0, q1, q2 = q(_rv(rnd, R)), q(_rv(rnd, R)), q(_rv(rnd, R))
        if mode != "float":
            # keep the elevated handles exactly representable
            q1 = q0 + complex(round((q1 - q0).real / 3) * 3, round((q1 - q0).imag / 3) * 3)
            q2 = q1 + complex(round((q2 - q1).real / 3) * 3, round((q2 - q1).imag / 3) * 3)
        pts = [q0, q0 + (q1 - q0) * 2 / 3, q2 + (q1 - q2) * 2 / 3, q2]
        if rnd.random() < 0.4:  # nearly a quadratic
            pts[1] += _rv(rnd, R * 10.0 ** rnd.uniform(-8, -2))
    elif f == "thin":
        u = _unit(rnd)
        k = 10.0 ** rnd.uniform(-6, -2)
        base = [_rv(rnd, R) for _ in range(4)]
        pts = [u * complex(z.real, z.imag * k) for z in base]
    elif f == "near-line":
        a = _rv(rnd, R * 0.5)
        dvec = _rv(rnd, R * 0.03)
        s = sorted(rnd.uniform(0, 16) for _ in range(4))
        if rnd.random() < 0.3:
            s[1], s[2] = s[2], s[1]
        e = 10.0 ** rnd.uniform(-7, 0)
        pts = [a + dvec * k + _rv(rnd, e) for k in s]
    else:
        raise HarnessError("unknown family %r" % f)
    pts = [q(z + off) for z in pts]
    # keep inside the documented domain
    m = max(max(abs(z.real), abs(z.imag)) for z in pts)
    if m > 65536:
        k = 65536 / m
        pts = [q(z * k) for z in pts]
    return f, mode, R, pts


def gen_curve_case(rnd):
    fam, mode, R, pts = gen_cubic(rnd)
    return dict(k="curve", fam=fam, mode=mode, R=R, pts=_pts_json(pts, mode), tol=gen_tol(rnd, R), allq=rnd.random() < 0.6)


def gen_curves_case(rnd):
    fam, mode, R, pts = gen_cubic(rnd)
    n = rnd.randint(2, 5)
    pert = rnd.choice([0.0, 1e-6, 1e-3, 0.02, 0.02, 0.1, 0.1, 0.5])
    curves = []
    special = rnd.random()
    for i in range(n):
        if i == 0:
            c = list(pts)
        else:
            c = [_quant(z + _rv(rnd, pert * R), mode) for z in pts]
        curves.append(c)
    kind = "perturbed"
    if special < 0.08:
        j = rnd.randrange(n)
        curves[j] = [curves[j][0]] * 4  # a master where the segment collapses to a point
        kind = "one-collapsed"
    elif special < 0.16:
        j = rnd.randrange(n)
        curves[j] = [curves[j][0], curves[j][0], curves[j][3], curves[j][3]]  # retracted handles
        kind = "one-retracted"
    elif special < 0.24:
        j = rnd.randrange(n)
        k = rnd.choice([0.5, 1.3, 2.0])
        curves[j] = [_quant(z * k, mode) for z in curves[j]]  # light / bold
        kind = "one-scaled"
    elif special < 0.30:
        j = rnd.randrange(1, n)
        _, _, _, other = gen_cubic(rnd, R=R, mode=mode)
        curves[j] = other  # unrelated shape in one master
        kind = "one-unrelated"
    base_tol = gen_tol(rnd, R)
    if rnd.random() < 0.3:
        tols = [base_tol] * n
    else:
        tols = [min(max(base_tol * math.exp(rnd.uniform(-1.4, 1.4)), 1e-3), max(R / 10.0, 1e-3)) for _ in range(n)]
        if rnd.random() < 0.3:
            tols[rnd.randrange(n)] *= rnd.choice([0.05, 20.0])
    return dict(
        k="curves", fam=fam, mode=mode, R=R, kind=kind, curves=[_pts_json(c, mode) for c in curves], tols=tols, allq=rnd.random() < 0.65
    )


QFAMILIES = ["cu2qu", "cu2qu-rounded", "arc", "random", "corner", "dup", "collinear", "single", "wiggle"]


def _spline_from_cubic(rnd, R, mode, rounded):
    """A spline produced by our own uniform-split approximation of a smooth cubic
    (does not call the library: the generator must not depend on the code under test)."""
    _, _, _, c = gen_cubic(rnd, family=rnd.choice(["smooth", "smooth", "generic", "loop"]), R=R, mode="float")
    n = rnd.randint(2, 7)
    offs = []
    for k in range(n):
        t0, t1 = k / n, (k + 1) / n
        # sub-cubic control points by blossoming
        s0 = _blossom(c, t0, t0, t0)
        s1 = _blossom(c, t0, t0, t1)
        s2 = _blossom(c, t0, t1, t1)
        s3 = _blossom(c, t1, t1, t1)
        a1 = s0 + (s1 - s0) * 1.5
        a2 = s3 + (s2 - s3) * 1.5
        tt = k / (n - 1) if n > 1 else 0.5
        offs.append(a1 + (a2 - a1) * tt)
    pts = [c[0]] + offs + [c[3]]
    if rounded:
        pts = [_quant(z, mode if mode != "float" else "int") for z in pts]
    return pts


def _blossom(c, a, b, d):
    l = [br.lerp(c[i], c[i + 1], a) for i in range(3)]
    m = [br.lerp(l[i], l[i + 1], b) for i in range(2)]
    return br.lerp(m[0], m[1], d)


def gen_quads(rnd):
    """-> (family, mode, R, list of splines (lists of complex) connecting end-to-start)"""
    fam = rnd.choice(QFAMILIES)
    R = gen_scale(rnd)
    mode = rnd.choice(["int", "int", "float", "half"])
    q = lambda z: _quant(z, mode)
    splines = []
    if fam in ("cu2qu", "cu2qu-rounded"):
        for _ in range(rnd.randint(1, 3)):
            sp = _spline_from_cubic(rnd, R, mode, fam == "cu2qu-rounded")
            if splines:
                d = splines[-1][-1] - sp[0]
                sp = [z + d for z in sp]
                sp[0] = splines[-1][-1]
                if fam == "cu2qu-rounded":
                    sp = [sp[0]] + [_quant(z, mode if mode != "float" else "int") for z in sp[1:]]
            splines.append(sp)
    elif fam == "arc":
        c0 = _rv(rnd, R * 0.3)
        rad = rnd.uniform(0.05, 0.7) * R
        a0 = rnd.uniform(0, 2 * math.pi)
        tot = rnd.uniform(0.3, 2 * math.pi)
        n = rnd.randint(2, 10)
        da = tot / n
        ecc = rnd.choice([1.0, 1.0, 0.6, 0.3])
        pt = lambda a: c0 + complex(rad * math.cos(a), rad * ecc * math.sin(a))
        offs = []
        for k in range(n):
            am = a0 + (k + 0.5) * da
            offs.append(c0 + complex(rad / math.cos(da / 2) * math.cos(am), rad * ecc / math.cos(da / 2) * math.sin(am)))
        sp = [pt(a0)] + offs + [pt(a0 + tot)]
        sp = [q(z) for z in sp]
        # cut into 1..3 splines at off-curve boundaries by making some on-curves explicit
        splines = _cut(rnd, sp)
    elif fam == "random":
        for _ in range(rnd.randint(1, 3)):
            n = rnd.randint(1, 6)
            start = splines[-1][-1] if splines else q(_rv(rnd, R))
            splines.append([start] + [q(_rv(rnd, R)) for _ in range(n + 1)])
    elif fam == "wiggle":
        # smooth-ish polyline of off-curves with small turning angles
        p = _rv(rnd, R * 0.5)
        d = _unit(rnd) * R * rnd.uniform(0.02, 0.2)
        sp = [p]
        for _ in range(rnd.randint(3, 10)):
            p = p + d
            sp.append(p)
            d = d * complex(math.cos(rnd.uniform(-0.6, 0.6)), math.sin(rnd.uniform(-0.6, 0.6))) * rnd.uniform(0.7, 1.4)
        sp = [q(z) for z in sp]
        splines = _cut(rnd, sp)
    elif fam == "corner":
        start = q(_rv(rnd, R))
        for _ in range(rnd.randint(2, 4)):
            n = rnd.randint(1, 3)
            sp = [start] + [q(_rv(rnd, R)) for _ in range(n + 1)]
            splines.append(sp)
            start = sp[-1]
    elif fam == "dup":
        start = q(_rv(rnd, R))
        for _ in range(rnd.randint(1, 3)):
            n = rnd.randint(1, 4)
            sp = [start] + [q(_rv(rnd, R)) for _ in range(n + 1)]
            pat = rnd.choice(["off=on0", "off=on1", "off=off", "all", "closed", "off-mid"])
            if pat == "off=on0":
                sp[1] = sp[0]
            elif pat == "off=on1":
                sp[-2] = sp[-1]
            elif pat == "off=off" and len(sp) >= 4:
                sp[2] = sp[1]
            elif pat == "all":
                sp = [sp[0]] * len(sp)
            elif pat == "closed":
                sp[-1] = sp[0]
            elif pat == "off-mid" and len(sp) == 3:
                sp[1] = (sp[0] + sp[2]) / 2 if mode == "float" else q((sp[0] + sp[2]) / 2)
            splines.append(sp)
            start = sp[-1]
    elif fam == "collinear":
        a = q(_rv(rnd, R * 0.5))
        dv = q(_rv(rnd, R * 0.02))
        if dv == 0:
            dv = 1 + 0j
        n = rnd.randint(1, 6)
        ks = [rnd.randint(-20, 20) for _ in range(n + 2)]
        if rnd.random() < 0.5:
            ks = sorted(ks)
        splines = _cut(rnd, [a + dv * k for k in ks])
    elif fam == "single":
        splines = [[q(_rv(rnd, R)) for _ in range(3)]]
    else:
        raise HarnessError(fam)
    # domain clamp
    m = max(max(abs(z.real), abs(z.imag)) for sp in splines for z in sp)
    if m > 65536:
        k = 65536 / m
        splines = [[q(z * k) for z in sp] for sp in splines]
        for i in range(1, len(splines)):
            splines[i][0] = splines[i - 1][-1]
    return fam, mode, R, splines


def _cut(rnd, sp):
    """Cut one spline (on, offs..., on) into 1-3 connected splines at implied on-curve points
    (made explicit, computed as exact midpoints)."""
    offs = sp[1:-1]
    if len(offs) < 2 or rnd.random() < 0.4:
        return [sp]
    ncut = rnd.randint(1, min(2, len(offs) - 1))
    cuts = sorted(rnd.sample(range(1, len(offs)), ncut))
    out = []
    start = sp[0]
    prev = 0
    for cidx in cuts:
        mid = (offs[cidx - 1] + offs[cidx]) * 0.5
        out.append([start] + offs[prev:cidx] + [mid])
        start = mid
        prev = cidx
    out.append([start] + offs[prev:] + [sp[-1]])
    return out


def gen_qu2cu_case(rnd):
    fam, mode, R, splines = gen_quads(rnd)
    r = rnd.random()
    if r < 0.3:
        tol = rnd.choice([0.5, 1.0, 0.1, 0.001 * R])
        tol = min(max(tol, 1e-3), R / 10.0)
    else:
        tol = gen_tol(rnd, R)
    return dict(
        k="qu2cu",
        fam=fam,
        mode=mode,
        R=R,
        quads=[_pts_json(sp, mode) for sp in splines],
        tol=tol,
        allc=rnd.random() < 0.45,
        fmt=rnd.choice(["tuple", "tuple", "complex"]),
    )


# ---- glyph level -----------------------------------------------------------


def gen_contour(rnd, R, mode, kinds, nseg=None):
    """Segment-level contour: dict(closed, start, segs=[(type, [pts...])]) with complex points."""
    q = lambda z: _quant(z, mode)
    closed = rnd.random() < 0.75
    n = nseg or rnd.randint(2 if closed else 1, 5)
    cen = _rv(rnd, R * 0.4)
    rad = rnd.uniform(0.15, 0.5) * R
    a0 = rnd.uniform(0, 2 * math.pi)
    sweep = 2 * math.pi if closed else rnd.uniform(1.0, 5.0)
    k = n if closed else n
    ons = []
    for i in range(k + (0 if closed else 1)):
        a = a0 + sweep * i / k
        ons.append(q(cen + rad * rnd.uniform(0.7, 1.3) * complex(math.cos(a), math.sin(a))))
    # distinct consecutive on-curves
    for i in range(1, len(ons)):
        if ons[i] == ons[i - 1]:
            ons[i] = ons[i] + 1
    if closed and ons[-1] == ons[0]:
        ons[-1] = ons[-1] + 1j
    segs = []
    for i in range(n):
        p0 = ons[i]
        p3 = ons[(i + 1) % len(ons)] if closed else ons[i + 1]
        t = rnd.choice(kinds)
        ch = p3 - p0
        if t == "line":
            segs.append(("line", [p3]))
        elif t == "curve":
            style = rnd.random()
            if style < 0.7:
                a, b = rnd.uniform(0.1, 0.7), rnd.uniform(0.1, 0.7)
                w1, w2 = rnd.uniform(-1.0, 1.0), rnd.uniform(-1.0, 1.0)
                c1 = p0 + ch * a * complex(math.cos(w1), math.sin(w1))
                c2 = p3 - ch * b * complex(math.cos(w2), math.sin(w2))
            elif style < 0.85:
                c1, c2 = p0 + _rv(rnd, rad), p3 + _rv(rnd, rad)
            elif style < 0.93:
                c1, c2 = p0, p3  # straight cubic
            else:
                c1, c2 = p0, p3 - ch * 0.3
            segs.append(("curve", [q(c1), q(c2), p3]))
        else:
            m = rnd.randint(1, 3)
            offs = []
            for j in range(m):
                f = (j + 0.5) / m
                offs.append(q(p0 + ch * f + ch * 1j * rnd.uniform(-0.5, 0.5)))
            segs.append(("qcurve", offs + [p3]))
    return dict(closed=closed, start=ons[0], segs=segs)


def perturb_contour(rnd, con, R, mode, amount):
    q = lambda z: _quant(z, mode)
    mv = lambda z: q(z + _rv(rnd, amount * R))
    start = mv(con["start"])
    segs = []
    prev = start
    n = len(con["segs"])
    for i, (t, pts) in enumerate(con["segs"]):
        new = [mv(z) for z in pts]
        if con["closed"] and i == n - 1:
            new[-1] = start
        if new[-1] == prev:
            new[-1] = new[-1] + 1
            if con["closed"] and i == n - 1:
                # cannot move the start: move the previous on-curve instead
                new[-1] = start
                if segs:
                    t0, p0 = segs[-1]
                    p0[-1] = p0[-1] + 1j
        segs.append((t, new))
        prev = new[-1]
    return dict(closed=con["closed"], start=start, segs=segs)


def contour_json(con, mode):
    return dict(closed=con["closed"], start=_pts_json([con["start"]], mode)[0], segs=[[t, _pts_json(p, mode)] for t, p in con["segs"]])


def gen_glyphs_case(rnd):
    R = rnd.choice([1000.0, 1000.0, 2048.0, 16.0, 250.0, 16384.0])
    mode = rnd.choice(["int", "int", "float", "half"])
    nfonts = rnd.randint(1, 4)
    nglyphs = rnd.randint(1, 4)
    pert = rnd.choice([0.0, 0.01, 0.05, 0.15])
    fonts = [dict(upem=int(R) if rnd.random() < 0.8 else rnd.choice([1000, 2048]), glyphs={}) for _ in range(nfonts)]
    for gi in range(nglyphs):
        name = "g%d" % gi
        style = rnd.random()
        if style < 0.12:
            kinds = ["line"]
        elif style < 0.22:
            kinds = ["line", "qcurve"]
        elif style < 0.6:
            kinds = ["line", "curve", "curve"]
        else:
            kinds = ["line", "curve", "curve", "qcurve"]
        base = [gen_contour(rnd, R, mode, kinds) for _ in range(rnd.randint(0 if rnd.random() < 0.1 else 1, 3))]
        for fi, font in enumerate(fonts):
            r = rnd.random()
            if nfonts > 1 and r < 0.06:
                continue  # glyph missing from this font
            if nfonts > 1 and r < 0.12:
                font["glyphs"][name] = []  # empty glyph in this master: ignored by the converter
                continue
            cons = base if fi == 0 else [perturb_contour(rnd, c, R, mode, pert) for c in base]
            font["glyphs"][name] = [contour_json(c, mode) for c in cons]
    r = rnd.random()
    args = dict(reverse=rnd.random() < 0.3, allq=rnd.random() < 0.65, remember=rnd.random() < 0.4)
    if r < 0.35:
        args["max_err"] = gen_tol(rnd, R)
    elif r < 0.6:
        args["max_err"] = [gen_tol(rnd, R) for _ in range(nfonts)]
    elif r < 0.85:
        args["max_err_em"] = rnd.choice([0.001, 0.002, 0.0005, 0.01])
    else:
        args["max_err_em"] = [rnd.choice([0.001, 0.003, 0.0003]) for _ in range(nfonts)]
    return dict(k="glyphs", mode=mode, R=R, fonts=fonts, args=args)


def gen_tt_contour(rnd, R, mode):
    """TrueType-like closed contour of single-off-curve quadratics whose on-curve points are exact
    midpoints of the neighbouring off-curves (implied points written out), midpoints in one coordinate
    only, or shifted: exercises Qu2CuPen's re-insertion of implied on-curve points."""
    k = rnd.randint(3, 7)
    cen = _rv(rnd, R * 0.3)
    rad = rnd.uniform(0.2, 0.5) * R
    a0 = rnd.uniform(0, 2 * math.pi)
    offs = []
    for i in range(k):
        a = a0 + 2 * math.pi * i / k
        z = cen + rad * rnd.uniform(0.8, 1.2) * complex(math.cos(a), math.sin(a))
        if mode == "float":
            offs.append(z)
        else:
            offs.append(complex(2.0 * round(z.real / 2), 2.0 * round(z.imag / 2)))  # even: midpoints stay on the grid
    ons = []
    for i in range(k):
        m = (offs[i - 1] + offs[i]) * 0.5
        d = rnd.choice([-1, 1]) * max(2.0, round(R * rnd.choice([0.02, 0.1])))
        v = rnd.choice(["exact", "exact", "x-only", "y-only", "shifted"])
        if v == "x-only":
            m = m + d * 1j
        elif v == "y-only":
            m = m + d
        elif v == "shifted":
            m = m + complex(d, -d)
        ons.append(m)
    segs = [("qcurve", [offs[i], ons[(i + 1) % k]]) for i in range(k)]
    return dict(closed=True, start=ons[0], segs=segs)


def gen_pens_case(rnd):
    R = rnd.choice([1000.0, 1000.0, 2048.0, 64.0, 16384.0])
    mode = rnd.choice(["int", "int", "float", "half"])
    which = rnd.choice(["cu2qu", "cu2qu-point", "cu2qu-multi", "qu2cu", "qu2cu"])
    if which.startswith("cu2qu"):
        kinds = rnd.choice([["line", "curve", "curve"], ["curve"], ["line", "curve", "qcurve"]])
    else:
        kinds = rnd.choice([["qcurve"], ["line", "qcurve", "qcurve"], ["line", "qcurve", "curve"]])
    base = [gen_contour(rnd, R, mode, kinds) for _ in range(rnd.randint(1, 3))]
    masters = [base]
    if which == "cu2qu-multi":
        for _ in range(rnd.randint(1, 3)):
            masters.append([perturb_contour(rnd, c, R, mode, rnd.choice([0.0, 0.02, 0.1])) for c in base])
    if which == "qu2cu" and rnd.random() < 0.35:
        masters[0] = list(masters[0]) + [gen_tt_contour(rnd, R, mode)]
    if which == "qu2cu" and rnd.random() < 0.12:
        # TrueType contour without on-curve points
        n = rnd.randint(3, 6)
        cen = _rv(rnd, R * 0.3)
        offs = [_quant(cen + R * 0.3 * complex(math.cos(2 * math.pi * i / n), math.sin(2 * math.pi * i / n)), mode) for i in range(n)]
        masters[0] = list(masters[0]) + [dict(closed=True, start=None, segs=[("qcurve", offs + [None])])]
    return dict(
        k="pens",
        which=which,
        mode=mode,
        R=R,
        masters=[[_contour_json_opt(c, mode) for c in m] for m in masters],
        tol=gen_tol(rnd, R),
        reverse=rnd.random() < 0.25,
        flag=rnd.random() < 0.5,  # all_quadratic / all_cubic
    )


def _contour_json_opt(con, mode):
    if con["start"] is None:
        t, pts = con["segs"][0]
        return dict(closed=True, start=None, segs=[[t, _pts_json(pts[:-1], mode) + [None]]])
    return contour_json(con, mode)


# ---------------------------------------------------------------------------
# distance decisions


class Verdict:
    __slots__ = ("ok", "stage", "value", "detail")

    def __init__(self, ok, stage, value, detail=""):
        self.ok, self.stage, self.value, self.detail = ok, stage, value, detail


def geometric_verdict(piecesA, piecesB, tol, scale):
    """Two-sided Hausdorff decision between two sets of pieces."""
    thr = _threshold(tol, scale)
    d, cands = br.approx_hausdorff(piecesA, piecesB, m=32 if len(piecesA) + len(piecesB) <= 40 else 16, top=6)
    if not (d == d):
        return Verdict(False, "nan", d, "non-finite distance")
    if d <= thr:
        return Verdict(True, "approx", d)
    # lb is a certified lower bound already (the branch-and-bound gap delta only limits how tight it is)
    delta = max(ABS_SLACK * scale, tol * 1e-5)
    lb, w = br.hausdorff_lower_bound(piecesA, piecesB, cands, delta)
    if lb > thr:
        return Verdict(False, "certified", lb, "certified Hausdorff lower bound %.9g > tol %.9g (sampled estimate %.9g) at %r" % (lb, tol, d, w))
    return Verdict(True, "certified-inside", lb)


def cubic_vs_spline(cubic, spline, tol, scale):
    """cu2qu result (quadratic spline incl. end points) against its cubic."""
    thr = _threshold(tol, scale)
    d, k, s = br.cu2qu_param_dist(cubic, spline)
    if not (d == d):
        return Verdict(False, "nan", d, "non-finite distance")
    if d <= thr:
        return Verdict(True, "param", d)
    v = geometric_verdict([tuple(cubic)], br.explicit_quads(spline), tol, scale)
    if not v.ok:
        v.detail = "parametric distance %.9g at piece %d s=%.4f; %s" % (d, k, s, v.detail)
    else:
        v.stage = "param-exceeded:" + v.stage
    return v


def _nbucket(n):
    return "1" if n == 1 else "2" if n == 2 else "3-5" if n <= 5 else "6-20" if n <= 20 else "21-100"


def check_cu2qu_result(acc, clause, case, cubic, result, tol, allq, labels):
    """Shared by curve / curves / glyph level. cubic: 4 complex; result: list of (x, y).
    Returns number of quadratic segments (0 when the cubic was kept) or None on failure."""
    scale = br.scale_of(cubic)
    try:
        res = [complex(float(p[0]), float(p[1])) for p in result]
    except Exception as e:
        acc.fail(clause, "result-type", "result is not a sequence of 2D points: %r (%s)" % (result, e), case)
        return None
    if len(res) < 3:
        acc.fail(clause, "result-length", "result has %d points: %r" % (len(res), result), case)
        return None
    if not _finite(res):
        acc.fail(clause, "non-finite-result", "%r" % (result,), case)
        return None
    if res[0] != cubic[0] or res[-1] != cubic[3]:
        acc.fail(clause, "end-points", "cubic ends %r %r, result ends %r %r" % (P(cubic[0]), P(cubic[3]), P(res[0]), P(res[-1])), case)
        return None
    if not allq:
        if len(res) not in (3, 4):
            acc.fail(clause, "all_quadratic=False-length", "expected a quadratic (3 points) or cubic (4 points), got %d points" % len(res), case)
            return None
        if len(res) == 4:
            labels.append("result:cubic-kept")
            if res != list(cubic):
                v = geometric_verdict([tuple(cubic)], [tuple(res)], tol, scale)
                labels.append("cubic-kept-but-changed")
                if not v.ok:
                    acc.fail(clause, "tolerance", "returned cubic %r differs from input: %s" % (result, v.detail), case)
                    return None
            return 0
    v = cubic_vs_spline(cubic, res, tol, scale)
    labels.append("stage:" + v.stage)
    if not v.ok:
        acc.fail(clause, "tolerance", "tol=%r n=%d: %s" % (tol, len(res) - 2, v.detail), case)
        return None
    if tol > 0:
        r = v.value / tol
        labels.append("err/tol:" + (">0.99" if r > 0.99 else ">0.9" if r > 0.9 else ">0.5" if r > 0.5 else "<=0.5"))
    return len(res) - 2


# ---------------------------------------------------------------------------
# sub-check 1: curve_to_quadratic


def check_curve(case, acc, record=True):
    from fontTools.cu2qu import curve_to_quadratic
    from fontTools.cu2qu.errors import ApproxNotFoundError

    pts = [tuple(p) for p in case["pts"]]
    cubic = [C(p) for p in pts]
    tol, allq = case["tol"], case["allq"]
    labels = ["curve", "fam:" + case.get("fam", "?"), "mode:" + case.get("mode", "?"), "allq=%s" % allq]
    nontrivial = False
    try:
        if allq and case.get("default_arg"):
            result = curve_to_quadratic(pts, tol)
        else:
            result = curve_to_quadratic(pts, tol, allq)
    except ApproxNotFoundError:
        labels.append("result:ApproxNotFoundError")
        result = None
    except Exception as e:
        acc.fail("curve_to_quadratic", "exception:" + type(e).__name__, "%s: %s" % (type(e).__name__, e), case, innermost_frame(e))
        labels.append("result:exception")
        result = None
    if result is not None:
        n = check_cu2qu_result(acc, "curve_to_quadratic", case, cubic, result, tol, allq, labels)
        if n is not None:
            if n:
                labels.append("n:" + _nbucket(n))
            nontrivial = n >= 2
    if record:
        acc.case(case, nontrivial=nontrivial, labels=labels, sample=case if nontrivial else None)


# ---------------------------------------------------------------------------
# sub-check 2: curves_to_quadratic


def check_curves(case, acc, record=True):
    from fontTools.cu2qu import curve_to_quadratic, curves_to_quadratic
    from fontTools.cu2qu.errors import ApproxNotFoundError

    curves = [[tuple(p) for p in c] for c in case["curves"]]
    tols, allq = list(case["tols"]), case["allq"]
    labels = ["curves", "curves:len=%d" % len(curves), "curves:kind:" + case.get("kind", "?"), "curves:allq=%s" % allq]
    nontrivial = False
    try:
        results = curves_to_quadratic(curves, tols, allq)
    except ApproxNotFoundError:
        labels.append("curves:ApproxNotFoundError")
        results = None
    except Exception as e:
        acc.fail("curves_to_quadratic", "exception:" + type(e).__name__, "%s: %s" % (type(e).__name__, e), case, innermost_frame(e))
        results = None
    if results is not None:
        ok = True
        if len(results) != len(curves):
            acc.fail("curves_to_quadratic", "result-count", "%d curves in, %d results out" % (len(curves), len(results)), case)
            ok = False
        if ok:
            lens = [len(r) for r in results]
            if len(set(lens)) != 1:
                acc.fail("curves_to_quadratic", "incompatible-lengths", "results have %r points for tolerances %r" % (lens, tols), case)
                ok = False
        if ok:
            ns = []
            for i, (c, r) in enumerate(zip(curves, results)):
                n = check_cu2qu_result(acc, "curves_to_quadratic", dict(case, at=i), [C(p) for p in c], r, tols[i], allq, labels if i == 0 else [])
                ns.append(n)
            if all(n is not None for n in ns):
                n = ns[0]
                if n:
                    labels.append("curves:n:" + _nbucket(n))
                nontrivial = n >= 2 or (not allq and n == 0)
                # how much the shared search mattered (labels only)
                solo = []
                for c, t in zip(curves, tols):
                    try:
                        solo.append(len(curve_to_quadratic(c, t, True)) - 2)
                    except Exception:
                        solo.append(None)
                if len(set(solo)) > 1:
                    labels.append("curves:solo-n-differs")
    if record:
        acc.case(case, nontrivial=nontrivial, labels=labels, sample=case if nontrivial else None)


# ---------------------------------------------------------------------------
# sub-check 3: quadratic_to_curves


def check_qu2cu_output(acc, clause, case, splines, out, tol, allc, labels):
    """splines: list of lists of complex; out: list of lists of complex.
    Returns number of merged (>= 2 quadratics) cubics, or None on failure."""
    allpts = [z for sp in splines for z in sp]
    scale = br.scale_of(allpts)
    m0 = ABS_SLACK * scale
    segs = []
    for sp in splines:
        segs.extend(br.explicit_quads(sp))
    knots = [segs[0][0]] + [s[2] for s in segs]
    S = len(segs)
    if not out:
        acc.fail(clause, "empty-result", "no curves returned for %d quadratic segments" % S, case)
        return None
    for c in out:
        if len(c) not in (3, 4):
            acc.fail(clause, "curve-length", "returned curve with %d points" % len(c), case)
            return None
        if allc and len(c) != 4:
            acc.fail(clause, "all_cubic-returned-quadratic", "%r" % ([P(z) for z in c],), case)
            return None
        if not _finite(c):
            acc.fail(clause, "non-finite-result", "%r" % ([P(z) for z in c],), case)
            return None
    if out[0][0] != splines[0][0] or out[-1][-1] != splines[-1][-1]:
        acc.fail(
            clause,
            "end-points",
            "spline runs %r -> %r, result runs %r -> %r" % (P(splines[0][0]), P(splines[-1][-1]), P(out[0][0]), P(out[-1][-1])),
            case,
        )
        return None
    for i in range(len(out) - 1):
        if out[i][-1] != out[i + 1][0]:
            acc.fail(clause, "discontinuous", "curve %d ends at %r, curve %d starts at %r" % (i, P(out[i][-1]), i + 1, P(out[i + 1][0])), case)
            return None
    # map every returned curve to the run of original quadratics it replaces
    K = len(out)
    verdicts = {}

    def err_ok(k, a, b):
        key = (k, a, b)
        if key not in verdicts:
            c = out[k]
            if b == a + 1 and len(c) == 3 and all(abs(c[i] - segs[a][i]) <= m0 for i in range(3)):
                verdicts[key] = Verdict(True, "copied", 0.0)
            else:
                verdicts[key] = geometric_verdict([tuple(c)], segs[a:b], tol, scale)
        return verdicts[key]

    def cands(k, a):
        end = out[k][-1]
        return [b for b in range(a + 1, S + 1) if abs(knots[b] - end) <= m0]

    memo = {}

    def solve(k, a, need_ok):
        """chain of end indices for curves k.. starting at knot a, or None"""
        key = (k, a, need_ok)
        if key in memo:
            return memo[key]
        res = None
        if k == K:
            res = [] if a == S else None
        else:
            for b in cands(k, a):
                if K - k - 1 > S - b:
                    continue
                if need_ok and not err_ok(k, a, b).ok:
                    continue
                rest = solve(k + 1, b, need_ok)
                if rest is not None:
                    res = [b] + rest
                    break
        memo[key] = res
        return res

    if abs(knots[0] - out[0][0]) > m0:
        acc.fail(clause, "coverage", "first curve does not start on the spline start", case)
        return None
    chain = solve(0, 0, True)
    if chain is None:
        loose = solve(0, 0, False)
        if loose is None:
            acc.fail(
                clause,
                "coverage",
                "returned curves do not run through on-curve points of the spline in order: ends %r, knots %r"
                % ([P(c[-1]) for c in out], [P(z) for z in knots]),
                case,
            )
            return None
        a = 0
        for k, b in enumerate(loose):
            v = err_ok(k, a, b)
            if not v.ok:
                acc.fail(clause, "tolerance", "curve %d (%d points) replacing quadratics %d..%d, tol=%r: %s" % (k, len(out[k]), a, b - 1, tol, v.detail), case)
                return None
            a = b
        raise HarnessError("qu2cu mapping search inconsistent")
    merged = 0
    a = 0
    for k, b in enumerate(chain):
        v = verdicts.get((k, a, b))
        if b - a >= 2:
            merged += 1
            labels.append("qu2cu:merge-size:" + ("2" if b - a == 2 else "3-4" if b - a <= 4 else ">=5"))
            if v is not None:
                labels.append("qu2cu:stage:" + v.stage)
                if tol > 0 and v.stage == "approx":
                    r = v.value / tol
                    labels.append("qu2cu:err/tol:" + (">0.9" if r > 0.9 else ">0.5" if r > 0.5 else "<=0.5"))
        a = b
    if any(len(cands(k, a_)) > 1 for k, a_ in zip(range(K), [0] + chain[:-1])):
        labels.append("qu2cu:ambiguous-mapping")
    return merged


def check_qu2cu(case, acc, record=True):
    from fontTools.qu2cu import quadratic_to_curves

    splines = [[C(p) for p in sp] for sp in case["quads"]]
    tol, allc = case["tol"], case["allc"]
    labels = ["qu2cu", "qu2cu:fam:" + case.get("fam", "?"), "qu2cu:allc=%s" % allc, "qu2cu:fmt:" + case.get("fmt", "tuple")]
    nontrivial = False
    if case.get("fmt") == "complex":
        arg = [list(sp) for sp in splines]
    else:
        arg = [[tuple(p) for p in sp] for sp in case["quads"]]
    out = None
    try:
        res = quadratic_to_curves(arg, tol, allc)
        if case.get("fmt") == "complex":
            out = [[complex(z) for z in c] for c in res]
        else:
            out = [[complex(float(p[0]), float(p[1])) for p in c] for c in res]
    except Exception as e:
        acc.fail("quadratic_to_curves", "exception:" + type(e).__name__, "%s: %s" % (type(e).__name__, e), case, innermost_frame(e))
    if out is not None:
        merged = check_qu2cu_output(acc, "quadratic_to_curves", case, splines, out, tol, allc, labels)
        if merged is not None:
            nontrivial = merged >= 1
            labels.append("qu2cu:merged>=2-quads" if merged else "qu2cu:nothing-merged")
            ncub = sum(1 for c in out if len(c) == 4)
            labels.append("qu2cu:out-cubics:%s" % ("0" if ncub == 0 else "1" if ncub == 1 else ">=2"))
    if record:
        acc.case(case, nontrivial=nontrivial, labels=labels, sample=case if nontrivial else None)


# ---------------------------------------------------------------------------
# glyph-level objects (minimal protocol used by cu2qu.ufo)


class _RecPointPen:
    def __init__(self, glyph):
        self.glyph = glyph
        self.cur = None

    def beginPath(self, identifier=None, **kwargs):
        self.cur = []

    def addPoint(self, pt, segmentType=None, smooth=False, name=None, identifier=None, **kwargs):
        self.cur.append((pt, segmentType))

    def endPath(self):
        self.glyph.contours.append(self.cur)
        self.cur = None

    def addComponent(self, *a, **k):
        pass


class Glyph:
    def __init__(self, name, contours=()):
        self.name = name
        self.contours = [list(c) for c in contours]

    def __len__(self):
        return len(self.contours)

    def clearContours(self):
        self.contours = []

    def drawPoints(self, pen):
        for c in self.contours:
            pen.beginPath()
            for pt, st in c:
                pen.addPoint(pt, segmentType=st, smooth=False)
            pen.endPath()

    def draw(self, pen):
        from fontTools.pens.pointPen import PointToSegmentPen

        self.drawPoints(PointToSegmentPen(pen))

    def getPointPen(self):
        return _RecPointPen(self)

    def getPen(self):
        from fontTools.pens.pointPen import SegmentToPointPen

        return SegmentToPointPen(_RecPointPen(self), guessSmooth=False)


class _Info:
    def __init__(self, upem):
        self.unitsPerEm = upem


class Font(dict):
    def __init__(self, upem):
        dict.__init__(self)
        self.lib = {}
        self.info = _Info(upem)


def contour_points(con):
    """segment-level JSON contour -> point-pen point list [(pt, type)]"""
    segs = con["segs"]
    if con["start"] is None:
        return [(tuple(p), None) for p in segs[0][1][:-1]]
    pts = []
    start = tuple(con["start"])
    if con["closed"]:
        # the start point carries the type of the closing (last) segment
        last_t, last_p = segs[-1]
        pts.append((start, last_t))
        for t, p in segs[:-1]:
            for z in p[:-1]:
                pts.append((tuple(z), None))
            pts.append((tuple(p[-1]), t))
        for z in last_p[:-1]:
            pts.append((tuple(z), None))
    else:
        pts.append((start, "move"))
        for t, p in segs:
            for z in p[:-1]:
                pts.append((tuple(z), None))
            pts.append((tuple(p[-1]), t))
    return pts


def normalize(points):
    """point list -> dict(closed, start, segs=[(type, [pts])]) with the start at the first on-curve;
    contours without on-curve points -> start None."""
    if not points:
        return dict(closed=False, start=None, segs=[])
    if points[0][1] == "move":
        segs = []
        cur = []
        for pt, t in points[1:]:
            cur.append(pt)
            if t is not None:
                segs.append((t, cur))
                cur = []
        return dict(closed=False, start=points[0][0], segs=segs, trailing=cur)
    first = None
    for i, (pt, t) in enumerate(points):
        if t is not None:
            first = i
            break
    if first is None:
        return dict(closed=True, start=None, segs=[("qcurve", [pt for pt, _ in points] + [None])])
    rot = points[first + 1 :] + points[: first + 1]
    segs = []
    cur = []
    for pt, t in rot:
        cur.append(pt)
        if t is not None:
            segs.append((t, cur))
            cur = []
    return dict(closed=True, start=points[first][0], segs=segs)


def reverse_norm(con):
    """Expected result of reversing a normalized contour keeping the start point
    (closed) / swapping the ends (open)."""
    if con["start"] is None:
        return con
    ons = [con["start"]] + [s[1][-1] for s in con["segs"]]
    segs = []
    n = len(con["segs"])
    for i in range(n - 1, -1, -1):
        t, pts = con["segs"][i]
        segs.append((t, list(reversed(pts[:-1])) + [ons[i]]))
    if con["closed"]:
        return dict(closed=True, start=con["start"], segs=segs)
    return dict(closed=False, start=ons[-1], segs=segs)


def _eqpt(a, b):
    return a is not None and b is not None and a[0] == b[0] and a[1] == b[1]


def contour_pieces(con):
    """normalized contour -> list of Bezier pieces (complex tuples) for geometry"""
    out = []
    if con["start"] is None:
        offs = [C(p) for p in con["segs"][0][1][:-1]]
        n = len(offs)
        for i in range(n):
            a = (offs[i - 1] + offs[i]) * 0.5
            b = (offs[i] + offs[(i + 1) % n]) * 0.5
            out.append((a, offs[i], b))
        return out
    cur = C(con["start"])
    for t, pts in con["segs"]:
        z = [C(p) for p in pts]
        if t == "line":
            out.append((cur, z[0]))
        elif t == "curve":
            out.append((cur, z[0], z[1], z[2]))
        elif t == "qcurve":
            if len(z) == 1:
                out.append((cur, z[0]))
            else:
                out.extend(br.explicit_quads([cur] + z))
        cur = z[-1]
    if con["closed"] and cur != C(con["start"]):
        out.append((cur, C(con["start"])))
    return out


def compare_converted(acc, clause, case, before, after, tol, allq, labels, where):
    """before/after: normalized contours of one glyph in one master (after already un-reversed).
    Checks contour count, start/end points, segment correspondence, tolerance of converted curves.
    Returns number of converted curves or None."""
    if len(before) != len(after):
        acc.fail(clause, "contour-count", "%s: %d contours before, %d after" % (where, len(before), len(after)), case)
        return None
    converted = 0
    for ci, (b, a) in enumerate(zip(before, after)):
        w = "%s contour %d" % (where, ci)
        if b["closed"] != a["closed"]:
            acc.fail(clause, "open-closed-changed", w, case)
            return None
        if not _eqpt(b["start"], a["start"]) and not (b["start"] is None and a["start"] is None):
            acc.fail(clause, "start-point", "%s: start %r became %r" % (w, b["start"], a["start"]), case)
            return None
        bs, as_ = list(b["segs"]), list(a["segs"])
        if len(bs) != len(as_):
            acc.fail(clause, "segment-count", "%s: %d segments before, %d after (%r -> %r)" % (w, len(bs), len(as_), [s[0] for s in bs], [s[0] for s in as_]), case)
            return None
        cur = b["start"]
        for si, ((bt, bp), (at, ap)) in enumerate(zip(bs, as_)):
            if not _eqpt(bp[-1], ap[-1]):
                acc.fail(clause, "on-curve-point", "%s segment %d: end %r became %r" % (w, si, bp[-1], ap[-1]), case)
                return None
            if bt != "curve":
                if at != bt or [tuple(p) for p in ap] != [tuple(p) for p in bp]:
                    acc.fail(clause, "non-cubic-segment-changed", "%s segment %d: %s %r became %s %r" % (w, si, bt, bp, at, ap), case)
                    return None
            else:
                cubic = [C(cur)] + [C(p) for p in bp]
                if at == "curve":
                    if allq:
                        acc.fail(clause, "cubic-left-with-all_quadratic", "%s segment %d" % (w, si), case)
                        return None
                    if len(ap) != 3:
                        acc.fail(clause, "cubic-segment-point-count", "%s segment %d: 'curve' segment with %d points" % (w, si, len(ap)), case)
                        return None
                    res = [cur] + list(ap)
                    n = check_cu2qu_result(acc, clause, case, cubic, res, tol, False, [])
                elif at == "qcurve":
                    res = [cur] + list(ap)
                    if not allq and len(res) != 3:
                        acc.fail(clause, "all_quadratic=False-length", "%s segment %d: spline with %d points" % (w, si, len(res)), case)
                        return None
                    n = check_cu2qu_result(acc, clause, case, cubic, res, tol, True, [])
                    converted += 1
                else:
                    acc.fail(clause, "segment-type", "%s segment %d: curve became %s" % (w, si, at), case)
                    return None
                if n is None:
                    return None
            cur = bp[-1]
    return converted


def structure(cons):
    return [(c["closed"], [(t, len(p)) for t, p in c["segs"]]) for c in cons]


# ---------------------------------------------------------------------------
# sub-check 4a: fonts_to_quadratic


def check_glyphs(case, acc, record=True):
    from fontTools.cu2qu.ufo import fonts_to_quadratic, CURVE_TYPE_LIB_KEY
    from fontTools.cu2qu.errors import ApproxNotFoundError, Error as Cu2QuError

    args = case["args"]
    fonts = []
    for f in case["fonts"]:
        font = Font(f["upem"])
        for name in sorted(f["glyphs"]):
            font[name] = Glyph(name, [contour_points(c) for c in f["glyphs"][name]])
        fonts.append(font)
    before = [{name: [normalize(c) for c in g.contours] for name, g in font.items()} for font in fonts]
    kw = dict(reverse_direction=args["reverse"], all_quadratic=args["allq"], remember_curve_type=args["remember"])
    if "max_err" in args:
        kw["max_err"] = args["max_err"]
        tols = list(args["max_err"]) if isinstance(args["max_err"], list) else [args["max_err"]] * len(fonts)
    else:
        kw["max_err_em"] = args["max_err_em"]
        e = args["max_err_em"]
        tols = [f.info.unitsPerEm * (e[i] if isinstance(e, list) else e) for i, f in enumerate(fonts)]
    labels = ["glyphs", "glyphs:fonts=%d" % len(fonts), "glyphs:reverse=%s" % args["reverse"], "glyphs:allq=%s" % args["allq"]]
    labels.append("glyphs:tol-arg:" + ("max_err" if "max_err" in args else "max_err_em") + ("-list" if isinstance(args.get("max_err", args.get("max_err_em")), list) else ""))
    nontrivial = False
    clause = "fonts_to_quadratic"
    try:
        modified = fonts_to_quadratic(fonts, **kw)
    except ApproxNotFoundError:
        labels.append("glyphs:ApproxNotFoundError")
        modified = None
    except Exception as e:
        acc.fail(clause, "exception:" + type(e).__name__, "%s: %s" % (type(e).__name__, e), case, innermost_frame(e))
        modified = None
    if modified is not None:
        ok = True
        if not isinstance(modified, (set, frozenset)):
            acc.fail(clause, "return-type", "expected the set of modified glyph names, got %r" % (modified,), case)
            ok = False
        names = sorted(set().union(*[set(f) for f in fonts]))
        total_conv = 0
        for name in names if ok else []:
            present = [i for i, f in enumerate(fonts) if name in f]
            nonempty = [i for i in present if len(before[i][name]) > 0]
            after = {i: [normalize(c) for c in fonts[i][name].contours] for i in present}
            changed = any(_raw(after[i]) != _raw(before[i][name]) for i in present)
            flagged = name in modified
            if changed and not flagged:
                acc.fail(clause, "modified-flag", "glyph %r changed but is not in the returned set %r" % (name, sorted(modified)), case)
                ok = False
                break
            if flagged and not changed and not args["reverse"]:
                has_curve = any(t == "curve" for i in nonempty for c in before[i][name] for t, _ in c["segs"])
                if EXCLUDE_KEPT_CUBIC_FLAG and not args["allq"] and has_curve:
                    # finding C13-F1 (reported to the lead): with all_quadratic=False a glyph whose cubics were
                    # all kept is still reported as modified (cu2qu/ufo.py compares a list with a tuple)
                    acc.exclude("modified-flag for glyph with kept cubics under all_quadratic=False (finding C13-F1)")
                else:
                    acc.fail(clause, "modified-flag", "glyph %r reported modified but its outline is unchanged" % name, case)
                    ok = False
                    break
            for i in present:
                if i not in nonempty and len(after[i]) != 0:
                    acc.fail(clause, "empty-glyph-changed", "glyph %r font %d" % (name, i), case)
                    ok = False
            if not ok:
                break
            # compatibility across masters
            structs = [structure(after[i]) for i in nonempty]
            if any(s != structs[0] for s in structs[1:]):
                acc.fail(clause, "incompatible-masters", "glyph %r: structures differ across fonts: %r" % (name, structs), case)
                ok = False
                break
            for i in nonempty:
                exp = before[i][name]
                got = after[i]
                if args["reverse"]:
                    got = [reverse_norm(c) for c in got]
                n = compare_converted(acc, clause, case, exp, got, tols[i], args["allq"], labels, "glyph %r font %d" % (name, i))
                if n is None:
                    ok = False
                    break
                total_conv += n
            if not ok:
                break
            labels.append("glyphs:glyph-modified" if flagged else "glyphs:glyph-unmodified")
        if ok:
            nontrivial = total_conv > 0
            if total_conv:
                labels.append("glyphs:converted-curves")
            if args["remember"]:
                want = "quadratic" if args["allq"] else "mixed"
                if any(f.lib.get(CURVE_TYPE_LIB_KEY) != want for f in fonts):
                    acc.fail(clause, "curve-type-lib-key", "expected %r in every font lib" % want, case)
            # a second run has nothing left to convert when everything became quadratic
            if args["allq"] and not args["reverse"]:
                snap = [{n_: _raw([normalize(c) for c in g.contours]) for n_, g in f.items()} for f in fonts]
                try:
                    again = fonts_to_quadratic(fonts, **kw)
                except Exception as e:
                    acc.fail(clause, "second-run-exception:" + type(e).__name__, str(e), case, innermost_frame(e))
                    again = None
                if again is not None:
                    now = [{n_: _raw([normalize(c) for c in g.contours]) for n_, g in f.items()} for f in fonts]
                    if again and not args["remember"]:
                        acc.fail(clause, "modified-flag", "second run on all-quadratic fonts reports %r modified" % (sorted(again),), case)
                    elif now != snap:
                        acc.fail(clause, "second-run-changed-outlines", "", case)
                    labels.append("glyphs:second-run")
    if record:
        acc.case(case, nontrivial=nontrivial, labels=labels, sample=None)


def _raw(cons):
    return [(c["closed"], None if c["start"] is None else tuple(c["start"]), [(t, [None if p is None else tuple(p) for p in pts]) for t, pts in c["segs"]]) for c in cons]


# ---------------------------------------------------------------------------
# sub-check 4b: pens


def _draw_norm(pen, con):
    """Drive a segment pen with a normalized / JSON contour."""
    if con["start"] is None:
        t, pts = con["segs"][0]
        pen.qCurveTo(*[None if p is None else tuple(p) for p in pts])
        pen.closePath()
        return
    pen.moveTo(tuple(con["start"]))
    n = len(con["segs"])
    for i, (t, pts) in enumerate(con["segs"]):
        pts = [tuple(p) for p in pts]
        if t == "line":
            if con["closed"] and i == n - 1 and _eqpt(pts[-1], con["start"]):
                continue  # implied by closePath
            pen.lineTo(pts[0])
        elif t == "curve":
            pen.curveTo(*pts)
        else:
            pen.qCurveTo(*pts)
    if con["closed"]:
        pen.closePath()
    else:
        pen.endPath()


def check_pens(case, acc, record=True):
    from fontTools.cu2qu.errors import ApproxNotFoundError

    which = case["which"]
    tol, reverse, flag = case["tol"], case["reverse"], case["flag"]
    masters = case["masters"]
    labels = ["pens", "pens:" + which, "pens:reverse=%s" % reverse, "pens:flag=%s" % flag]
    nontrivial = False
    clause = "pens:" + which
    src = [[normalize(contour_points(c)) for c in m] for m in masters]
    outs = [Glyph("out%d" % i) for i in range(len(masters))]
    try:
        if which == "cu2qu":
            from fontTools.pens.cu2quPen import Cu2QuPen

            pen = Cu2QuPen(outs[0].getPen(), tol, reverse_direction=reverse, all_quadratic=flag)
            for c in src[0]:
                _draw_norm(pen, c)
        elif which == "cu2qu-point":
            from fontTools.pens.cu2quPen import Cu2QuPointPen

            pen = Cu2QuPointPen(outs[0].getPointPen(), tol, reverse_direction=reverse, all_quadratic=flag)
            Glyph("in", [contour_points(c) for c in masters[0]]).drawPoints(pen)
        elif which == "cu2qu-multi":
            from fontTools.pens.cu2quPen import Cu2QuMultiPen

            pen = Cu2QuMultiPen([o.getPen() for o in outs], tol, reverse_direction=reverse)
            for ci in range(len(src[0])):
                cons = [m[ci] for m in src]
                pen.moveTo([(tuple(c["start"]),) for c in cons])
                n = len(cons[0]["segs"])
                for si in range(n):
                    t = cons[0]["segs"][si][0]
                    ptsl = [tuple(tuple(p) for p in c["segs"][si][1]) for c in cons]
                    if t == "line":
                        if cons[0]["closed"] and si == n - 1:
                            continue
                        pen.lineTo(ptsl)
                    elif t == "curve":
                        pen.curveTo(ptsl)
                    else:
                        pen.qCurveTo(ptsl)
                if cons[0]["closed"]:
                    pen.closePath()
                else:
                    pen.endPath()
        else:
            from fontTools.pens.qu2cuPen import Qu2CuPen

            pen = Qu2CuPen(outs[0].getPen(), tol, all_cubic=flag, reverse_direction=reverse)
            for c in src[0]:
                _draw_norm(pen, c)
    except ApproxNotFoundError:
        labels.append("pens:ApproxNotFoundError")
        outs = None
    except NotImplementedError as e:
        if which == "qu2cu" and flag and any(c["start"] is None for c in src[0]):
            labels.append("pens:documented-NotImplementedError")
            outs = None
        else:
            acc.fail(clause, "exception:NotImplementedError", str(e), case, innermost_frame(e))
            outs = None
    except Exception as e:
        acc.fail(clause, "exception:" + type(e).__name__, "%s: %s" % (type(e).__name__, e), case, innermost_frame(e))
        outs = None
    if outs is not None:
        after = [[normalize(c) for c in o.contours] for o in outs]
        ok = True
        if which.startswith("cu2qu"):
            allq = flag if which != "cu2qu-multi" else True
            conv = 0
            structs = [structure(a) for a in after]
            if any(s != structs[0] for s in structs[1:]):
                acc.fail(clause, "incompatible-masters", "structures differ across masters: %r" % (structs,), case)
                ok = False
            for i in range(len(masters)) if ok else []:
                got = after[i]
                if reverse:
                    got = [reverse_norm(c) for c in got]
                n = compare_converted(acc, clause, case, src[i], got, tol, allq, labels, "master %d" % i)
                if n is None:
                    ok = False
                    break
                conv += n
            if ok:
                nontrivial = conv > 0
                if conv:
                    labels.append("pens:converted-curves")
        else:
            merged = check_qu2cu_pen(acc, clause, case, src[0], after[0], tol, flag, reverse, labels)
            if merged is not None:
                nontrivial = merged > 0
                if merged:
                    labels.append("pens:qu2cu-made-cubics")
    if record:
        acc.case(case, nontrivial=nontrivial, labels=labels, sample=None)


def check_qu2cu_pen(acc, clause, case, before, after, tol, allc, reverse, labels):
    if len(before) != len(after):
        acc.fail(clause, "contour-count", "%d contours before, %d after" % (len(before), len(after)), case)
        return None
    ncub = 0
    for ci, (b, a) in enumerate(zip(before, after)):
        w = "contour %d" % ci
        if b["start"] is None:
            if _raw([reverse_norm(a) if reverse else a]) != _raw([b]) and not reverse:
                acc.fail(clause, "offcurve-only-contour-changed", w, case)
                return None
            continue
        if b["closed"] != a["closed"]:
            acc.fail(clause, "open-closed-changed", w, case)
            return None
        exp_start = b["start"]
        exp_end = b["segs"][-1][1][-1] if b["segs"] else b["start"]
        if reverse and not b["closed"]:
            exp_start, exp_end = exp_end, exp_start
        got_end = a["segs"][-1][1][-1] if a["segs"] else a["start"]
        if not _eqpt(a["start"], exp_start):
            acc.fail(clause, "start-point", "%s: start %r became %r" % (w, exp_start, a["start"]), case)
            return None
        if not b["closed"] and not _eqpt(got_end, exp_end):
            acc.fail(clause, "end-point", "%s: end %r became %r" % (w, exp_end, got_end), case)
            return None
        if allc and any(t == "qcurve" for t, _ in a["segs"]):
            acc.fail(clause, "all_cubic-left-quadratic", w, case)
            return None
        ncub += sum(1 for t, _ in a["segs"] if t == "curve") - sum(1 for t, _ in b["segs"] if t == "curve")
        pa, pb = contour_pieces(b), contour_pieces(a)
        if not pa or not pb:
            continue
        allpts = [z for p in pa + pb for z in p]
        if not _finite(allpts):
            acc.fail(clause, "non-finite-result", w, case)
            return None
        v = geometric_verdict(pa, pb, tol, br.scale_of(allpts))
        labels.append("pens:qu2cu-stage:" + v.stage)
        if not v.ok:
            acc.fail(clause, "tolerance", "%s tol=%r: %s" % (w, tol, v.detail), case)
            return None
    return max(ncub, 0)


# ---------------------------------------------------------------------------
# dispatch


CHECKS = {"curve": check_curve, "curves": check_curves, "qu2cu": check_qu2cu, "glyphs": check_glyphs, "pens": check_pens}
GENS = {"curve": gen_curve_case, "curves": gen_curves_case, "qu2cu": gen_qu2cu_case, "glyphs": gen_glyphs_case, "pens": gen_pens_case}


def run_case(case, acc, record=True):
    CHECKS[case["k"]](case, acc, record)


# hand-written cases that must always be present (documented examples and classic degenerate shapes)
FIXED_CURVES = [
    [[0, 0], [0, 0], [0, 0], [0, 0]],
    [[0, 0], [0, 0], [100, 0], [100, 0]],
    [[0, 0], [100, 100], [0, 100], [100, 0]],
    [[0, 0], [100, 0], [0, 0], [100, 0]],
    [[0, 0], [100, 100], [-100, 100], [0, 0]],
    [[0, 0], [3, 3], [6, 3], [9, 0]],
    [[50, 50], [100, 100], [150, 100], [200, 50]],
    [[0, 0], [30000, 0], [30000, 30000], [0, 30000]],
    [[0, 0], [10, 0], [20, 0], [30, 0]],
    [[0, 0], [40, 0], [-10, 0], [30, 0]],
]


def jobs(tier, seed):
    thorough = tier == "thorough"
    J = []
    plan = [
        ("curve", 16, 7500, 48, 21000),
        ("curves", 10, 2500, 16, 12000),
        ("qu2cu", 12, 2500, 32, 12000),
        ("glyphs", 5, 400, 16, 2500),
        ("pens", 5, 600, 16, 4000),
    ]
    for kind, qj, qn, tj, tn in plan:
        nj, n = (tj, tn) if thorough else (qj, qn)
        for i in range(nj):
            J.append(dict(kind=kind, name="%s-%d" % (kind, i), n=n, seed=subseed(seed, kind, i), fixed=(i == 0)))
    return J


def run_job(job):
    acc = Acc()
    rnd = random.Random(job["seed"])
    kind = job["kind"]
    if kind not in GENS:
        raise HarnessError("unknown job kind %r" % kind)
    if job.get("fixed") and kind == "curve":
        for pts in FIXED_CURVES:
            for tol in (0.001, 0.05, 1.0, 10.0):
                for allq in (True, False):
                    case = dict(k="curve", fam="fixed", mode="int", R=100.0, pts=pts, tol=tol, allq=allq, default_arg=allq)
                    run_case(case, acc)
    gen = GENS[kind]
    for _ in range(job["n"]):
        case = gen(rnd)
        run_case(case, acc)
    return acc


def replay(case):
    acc = Acc()
    case = dict(case)
    case.pop("at", None)
    run_case(case, acc, record=False)
    return acc.failures


MUST_OCCUR = (
    ["fam:" + f for f in FAMILIES]
    + ["qu2cu:fam:" + f for f in QFAMILIES]
    + [
        "result:ApproxNotFoundError",
        "result:cubic-kept",
        "n:1",
        "n:2",
        "n:3-5",
        "n:6-20",
        "n:21-100",
        "allq=True",
        "allq=False",
        "err/tol:>0.9",
        "curves:solo-n-differs",
        "curves:n:3-5",
        "curves:allq=False",
        "qu2cu:merged>=2-quads",
        "qu2cu:nothing-merged",
        "qu2cu:allc=True",
        "qu2cu:allc=False",
        "qu2cu:fmt:complex",
        "glyphs:glyph-modified",
        "glyphs:glyph-unmodified",
        "glyphs:converted-curves",
        "glyphs:reverse=True",
        "glyphs:allq=False",
        "glyphs:second-run",
        "pens:cu2qu",
        "pens:cu2qu-point",
        "pens:cu2qu-multi",
        "pens:qu2cu",
        "pens:converted-curves",
        "pens:qu2cu-made-cubics",
    ]
)


def finish(total, tier, seed):
    missing = [l for l in MUST_OCCUR if total.labels.get(l, 0) == 0]
    if missing:
        raise HarnessError("generator classes with zero hits: %s" % ", ".join(missing))
