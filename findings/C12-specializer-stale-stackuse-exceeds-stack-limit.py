"""specializeCommands, step 5 (combine adjacent operators "minding not to go over max stack size"): the 'continue'
statements in the curve/curve branch skip the update 'stackUse = args1StackUse', so after a pair of curves that cannot be
merged (e.g. a general rrcurveto followed by a curve with horizontal tangents) the following merges are computed with the
stale, smaller stack use of the LATER command. With the CFF2 limit that fontTools itself passes (maxstack=513:
T2CharStringPen(CFF2=True), varLib.cff) a contour of 254 oblique lines, one general curve and one horizontal-tangent curve
is emitted as ONE rlinecurve with 254*2 + 6 = 514 operands, more than the 513 entries of the CFF2 operand stack.
With the CFF default (maxstack=48) the same pattern gives an operator with 48 operands although the code promises
"does not exceed (maxstack - 1), so that subroutinizer can insert subroutine calls at any point".
Expected: no emitted operator has more operands than maxstack - 1 (and never more than the format's stack limit)."""


def _max_operands(program):
    worst, n = (0, None), 0
    for t in program:
        if isinstance(t, str):
            worst = max(worst, (n, t))
            n = 0
        elif not isinstance(t, bytes):
            n += 1
    return worst


def reproduce():
    from fontTools.cffLib.specializer import specializeProgram
    from fontTools.pens.t2CharStringPen import T2CharStringPen

    out = []

    # CFF2, through the pen (public API): 254 lines (1, 2), curve (1,2)(3,4)(5,6), curve (7,0)(8,9)(10,0)
    pen = T2CharStringPen(None, None, CFF2=True)
    x, y = 0, 0
    pen.moveTo((x, y))
    for _ in range(254):
        x, y = x + 1, y + 2
        pen.lineTo((x, y))
    for deltas in ([(1, 2), (3, 4), (5, 6)], [(7, 0), (8, 9), (10, 0)]):
        pts = []
        for dx, dy in deltas:
            x, y = x + dx, y + dy
            pts.append((x, y))
        pen.curveTo(*pts)
    pen.closePath()
    program = pen.getCharString(optimize=True).program
    n, op = _max_operands(program)
    if n > 513:
        out.append("T2CharStringPen(CFF2=True): 254 lines + rrcurveto + hhcurveto are emitted as one %s with %d operands (CFF2 stack limit 513)" % (op, n))

    # CFF default: documented head-room maxstack - 1 = 47
    p = [0, 0, "rmoveto"] + [1, 2, 3, 4, 5, 6, "rrcurveto"] * 8 + [7, 0, 8, 9, 10, 0, "rrcurveto", "endchar"]
    n, op = _max_operands(specializeProgram(list(p)))
    if n > 47:
        out.append("specializeProgram(8 x rrcurveto + hhcurveto, maxstack=48) emits one %s with %d operands (documented bound maxstack - 1 = 47)" % (op, n))
    return "; ".join(out) or None
