"""C14 — pen adapters preserve geometry.

Generated VALID pen call sequences (segment protocol and point protocol, see
vf/gen_pens.py) are passed through every adapter named by the property; what
arrives downstream is recorded, components are decomposed by a reference
decomposer written here (sequential application of the affine maps), and the
result is canonicalised by vf/geom.py (contours of atomic L/Q/C segments, closed
contours compared up to rotation of the start point, fully degenerate segments
dropped) and compared with the canonical form of the input, transformed exactly
as the adapter documents. Nothing of fontTools is used to compute expectations.
"""

import copy
import math
import time
import traceback

from vf import geom
from vf import gen_pens as gp
from vf.runner import Acc, HarnessError, fingerprint, hyp_collect, innermost_frame, subseed

ID = "C14"
LEVEL = "exploration"
RULE = (
    "generated valid pen call sequences (most built by a seeded generator whose seed Hypothesis draws, a share by "
    "structured Hypothesis strategies with the same shape, plus 20 hand-written special cases): segment protocol (moveTo/lineTo/curveTo incl. super-beziers and "
    "short forms/qCurveTo with any number of off-curves/qCurveTo(*offs, None)/closePath/endPath/addComponent) and "
    "point protocol (beginPath/addPoint with smooth, name, identifier/endPath/addComponent, contours starting at any "
    "point), integer and float coordinates drawn from a small per-glyph pool so coincident points are frequent, a "
    "three-glyph glyph set with nested components; plus generated Transform triples for the algebra clause. Oracle: "
    "canonical geometry (vf/geom.py) of what each adapter emits == canonical geometry of the input mapped as the "
    "adapter documents (reference decomposition, affine map, reversal, otRound written here); a case is non-trivial "
    "when it has a curve segment or a special-case label (no on-curve contour, closing line equals start, duplicate "
    "point, single-point contour, component); distinct by call sequence"
)
ASSUMPTIONS = [
    "single-point contours carry no open/closed distinction (reversedContour documents that they cannot be closed)",
    "fully degenerate segments (all control points coincident) are not geometry (DESIGN 4a)",
    "TrueType and Type 2 outlines are always closed: builders are compared with the closed version of the input, minus single-point contours",
    "TTGlyphPen/TTGlyphPointPen and the exact T2CharStringPen leg get integer coordinates; cubic segments only as 3-point curveTo",
    "T2CharStringPen(optimize=True) may merge consecutive horizontal/vertical lines and turn a cubic whose handles coincide with its end points into a line (cffLib.specializer documents that it changes topology); both sides are normalised accordingly",
    "float matrices are well conditioned (|det| >= 0.05); singular matrices only with integer entries",
    "Transform algebra over non-singular matrices with entries <= 4, |det| >= 0.05, offsets <= 1000, tolerance 1e-9 (relative to the offset scale)",
]
WALL_BUDGET = {"quick": 1500, "thorough": 4 * 3600}

# ---------------------------------------------------------------------------
# reference models (independent of fontTools)


def ot_round(v):
    return int(math.floor(v + 0.5))


def aff(t, p):
    xx, xy, yx, yy, dx, dy = t
    x, y = p
    return (xx * x + yx * y + dx, xy * x + yy * y + dy)


def det(t):
    return t[0] * t[3] - t[1] * t[2]


def ref_decompose(ops, gops, chain=(), flips=None, depth=0):
    """Flatten components: the points of a base glyph are mapped by the component's
    transform and then by the enclosing ones, one after the other. If `flips` is a
    list, a parallel list of booleans (total determinant negative) is produced."""
    if depth > 8:
        raise HarnessError("component nesting too deep in generated case")
    out = []
    neg = False
    for t in chain:
        d = det(t)
        if d == 0:
            # the composed determinant is 0: not negative, nothing is reversed
            neg = False
            break
        if d < 0:
            neg = not neg
    for op, args in ops:
        if op == "addComponent":
            name, t = args[0], tuple(args[1])
            if name not in gops:
                raise geom.GeomError("component %r not in glyph set" % (name,))
            out.extend(ref_decompose(gops[name], gops, (t,) + tuple(chain), flips, depth + 1))
        else:
            pts = []
            for p in args:
                if p is None:
                    pts.append(None)
                else:
                    q = (p[0], p[1])
                    for t in chain:
                        q = aff(t, q)
                    pts.append(q)
            out.append((op, tuple(pts)))
            if flips is not None:
                flips.append(neg)
    return out


def split_contours(ops):
    out, cur = [], []
    for op in ops:
        cur.append(op)
        if op[0] in ("closePath", "endPath"):
            out.append(cur)
            cur = []
    if cur:
        out.append(cur)
    return out


def close_all(ops):
    return [("closePath", ()) if op == "endPath" else (op, args) for op, args in ops]


def has_super(ops):
    return any(op == "curveTo" and len(args) > 3 for op, args in ops)


def scale_of(ops, extra=()):
    m = 1.0
    for op, args in ops:
        if op == "addComponent":
            continue
        for p in args:
            if p is not None:
                m = max(m, abs(p[0]), abs(p[1]))
    for v in extra:
        m = max(m, abs(v))
    return m


def norm(contours):
    """Single-point contours carry no open/closed distinction."""
    return [dict(c, closed=False) if not c["segs"] else c for c in contours]


def drop_deg(contours, tol=0.0, drop_empty=False):
    out = []
    for c in contours:
        segs = [s for s in c["segs"] if not geom._degenerate(s, tol)]
        if drop_empty and not segs:
            continue
        out.append(dict(c, segs=segs))
    return out


def aff_contours(contours, t):
    out = []
    for c in contours:
        out.append(dict(c, start=aff(t, c["start"]), segs=[(s[0],) + tuple(aff(t, p) for p in s[1:]) for s in c["segs"]]))
    return out


def rev_contours(contours):
    out = []
    for c in contours:
        segs = [(s[0],) + tuple(reversed(s[1:])) for s in reversed(c["segs"])]
        start = c["start"]
        if segs and not c["closed"]:
            start = segs[0][1]
        out.append(dict(c, start=start, segs=segs))
    return out


def elevate(contours):
    out = []
    for c in contours:
        segs = []
        for s in c["segs"]:
            if s[0] == "Q":
                p0, q, p1 = s[1:]
                c1 = (p0[0] + (2.0 / 3.0) * (q[0] - p0[0]), p0[1] + (2.0 / 3.0) * (q[1] - p0[1]))
                c2 = (p1[0] + (2.0 / 3.0) * (q[0] - p1[0]), p1[1] + (2.0 / 3.0) * (q[1] - p1[1]))
                segs.append(("C", p0, c1, c2, p1))
            else:
                segs.append(s)
        out.append(dict(c, segs=segs))
    return out


def t2_normal_form(contours, tol=0.0):
    """What cffLib.specializer may do without preserveTopology: a cubic whose first
    handle coincides with its start and second handle with its end is a line; adjacent
    horizontal (vertical) lines are merged; zero-length lines vanish. Applied to both
    sides of the T2 comparison when optimize=True."""

    def eq(a, b):
        return abs(a - b) <= tol

    out = []
    for c in contours:
        segs = []
        for s in c["segs"]:
            if s[0] == "C" and eq(s[1][0], s[2][0]) and eq(s[1][1], s[2][1]) and eq(s[3][0], s[4][0]) and eq(s[3][1], s[4][1]):
                s = ("L", s[1], s[4])
            segs.append(s)
        changed = True
        while changed:
            changed = False
            segs = [s for s in segs if not geom._degenerate(s, tol)]
            n = len(segs)
            if n < 2:
                break
            rng = range(n) if c["closed"] else range(n - 1)
            for i in rng:
                a, b = segs[i], segs[(i + 1) % n]
                if a[0] == "L" and b[0] == "L":
                    ah, av = eq(a[1][1], a[2][1]), eq(a[1][0], a[2][0])
                    bh, bv = eq(b[1][1], b[2][1]), eq(b[1][0], b[2][0])
                    if (ah and bh) or (av and bv):
                        m = ("L", a[1], b[2])
                        if (i + 1) % n == 0:
                            segs = [m] + segs[1:-1]
                        else:
                            segs = segs[:i] + [m] + segs[i + 2 :]
                        changed = True
                        break
        if segs:
            out.append(dict(c, segs=segs, start=segs[0][1]))
    return out


# -- point protocol reference -------------------------------------------------


def ref_contour_to_ops(pts):
    """pts: [(pt, segType)] of one point-pen contour -> segment ops. A closed contour
    is started at its LAST on-curve point (any on-curve start describes the same
    closed outline)."""
    n = len(pts)
    if n == 0:
        return []
    if n == 1:
        return [("moveTo", (pts[0][0],)), ("endPath", ())]

    def seg(t, offs, p):
        if t == "line":
            if offs:
                raise HarnessError("generated 'line' point preceded by off-curves")
            return ("lineTo", (p,))
        if t == "curve":
            return ("curveTo", tuple(offs) + (p,))
        if t == "qcurve":
            return ("qCurveTo", tuple(offs) + (p,))
        raise geom.GeomError("bad segment type %r" % (t,))

    if pts[0][1] == "move":
        ops = [("moveTo", (pts[0][0],))]
        offs = []
        for p, t in pts[1:]:
            if t is None:
                offs.append(p)
            else:
                ops.append(seg(t, offs, p))
                offs = []
        ops.append(("endPath", ()))
        return ops
    on = [i for i, (p, t) in enumerate(pts) if t is not None]
    if not on:
        return [("qCurveTo", tuple(p for p, _ in pts) + (None,)), ("closePath", ())]
    s = on[-1]
    ops = [("moveTo", (pts[s][0],))]
    offs = []
    for k in range(1, n + 1):
        p, t = pts[(s + k) % n]
        if t is None:
            offs.append(p)
        else:
            if t == "move":
                raise geom.GeomError("'move' point inside a contour")
            ops.append(seg(t, offs, p))
            offs = []
    ops.append(("closePath", ()))
    return ops


def ref_items_to_ops(items):
    ops = []
    for it in items:
        if "comp" in it:
            ops.append(("addComponent", (it["comp"][0], tuple(it["comp"][1]))))
        else:
            ops.extend(ref_contour_to_ops([((p[0], p[1]), p[2]) for p in it["c"]]))
    return ops


def items_from_recording(value):
    """RecordingPointPen.value -> items (same layout as the generator's)."""
    items = []
    cur = None
    for op, args, kw in value:
        if op == "beginPath":
            if cur is not None:
                raise geom.GeomError("beginPath inside a path")
            cur = {"c": [], "id": kw.get("identifier")}
        elif op == "addPoint":
            if cur is None:
                raise geom.GeomError("addPoint outside a path")
            pt, t, smooth, name = args
            cur["c"].append([pt[0], pt[1], t, smooth, name, kw.get("identifier")])
        elif op == "endPath":
            if cur is None:
                raise geom.GeomError("endPath outside a path")
            items.append(cur)
            cur = None
        elif op == "addComponent":
            if cur is not None:
                raise geom.GeomError("component inside a path")
            items.append({"comp": [args[0], tuple(args[1]), kw.get("identifier")]})
        else:
            raise geom.GeomError("unexpected point-pen call %r" % (op,))
    if cur is not None:
        raise geom.GeomError("path not ended")
    return items


def expected_recording(items):
    v = []
    for it in items:
        if "comp" in it:
            name, t, ident = it["comp"]
            v.append(("addComponent", (name, tuple(t)), {"identifier": ident} if ident is not None else {}))
        else:
            v.append(("beginPath", (), {"identifier": it["id"]} if it.get("id") is not None else {}))
            for x, y, t, smooth, name, ident in it["c"]:
                v.append(("addPoint", ((x, y), t, smooth, name), {"identifier": ident} if ident is not None else {}))
            v.append(("endPath", (), {}))
    return v


def point_attrs(items):
    """Multiset-comparable list of the data a point pen adapter must carry along."""
    out = []
    for it in items:
        if "comp" in it:
            out.append(("comp", it["comp"][0], it["comp"][2]))
        else:
            out.append(("path", it.get("id"), sorted((repr((p[0], p[1])), p[3], repr(p[4]), repr(p[5])) for p in it["c"])))
    return out


# ---------------------------------------------------------------------------
# comparison helpers


class Ctx:
    """Per-case context: tolerances and expected canonical forms."""


def _fail(acc, clause, kind, detail, case):
    acc.fail(clause, kind, detail, case)


def compare(acc, clause, case, got, exp, tol, kind="geometry-differs", ordered=True):
    ok, d = geom.same_geometry(norm(exp), norm(got), tol, ordered=ordered)
    if not ok:
        _fail(acc, clause, kind, d, case)
    return ok


def guarded(acc, clause, case, fn):
    try:
        fn()
    except geom.GeomError as e:
        acc.fail(clause, "invalid-pen-output", str(e), case)
    except (HarnessError, KeyboardInterrupt, MemoryError):
        raise
    except RecursionError:
        raise
    except Exception as e:
        where = innermost_frame(e)
        if not where:
            raise HarnessError("harness bug in sub-check %s: %r\n%s" % (clause, e, "".join(traceback.format_exception(type(e), e, e.__traceback__))[-1500:]))
        acc.fail_exc(clause, e, case)


def _pens():
    from fontTools.pens import areaPen, boundsPen, filterPen, pointPen, recordingPen, reverseContourPen, roundingPen, svgPathPen, t2CharStringPen, transformPen, ttGlyphPen

    return areaPen, boundsPen, filterPen, pointPen, recordingPen, reverseContourPen, roundingPen, svgPathPen, t2CharStringPen, transformPen, ttGlyphPen


def is_noon(contour_ops):
    return contour_ops and contour_ops[0][0] == "qCurveTo" and contour_ops[0][1][-1] is None


def all_int(ops):
    for op, args in ops:
        if op == "addComponent":
            continue
        for p in args:
            if p is not None and not (isinstance(p[0], int) and isinstance(p[1], int)):
                return False
    return True


# ---------------------------------------------------------------------------
# segment-protocol case


def seg_labels(case, S, D):
    L = set()
    for c in split_contours(D):
        kinds = [op for op, _ in c]
        if is_noon(c):
            L.add("contour:no-on-curve")
            offs = c[0][1][:-1]
            if len(offs) >= 2 and offs[0] == offs[-1]:
                L.add("contour:no-on-curve:first-off==last-off")
            if len(offs) == 1:
                L.add("contour:no-on-curve:single-off")
            continue
        if len(c) == 2:
            L.add("contour:single-point")
            continue
        closed = kinds[-1] == "closePath"
        L.add("contour:closed" if closed else "contour:open")
        start = c[0][1][0]
        last_op, last_args = c[-2]
        if closed and last_args[-1] == start:
            L.add("closing:lineTo-equals-start" if last_op == "lineTo" else "closing:last-on-curve-equals-start")
        prev = start
        for op, args in c[1:-1]:
            if op == "lineTo":
                L.add("seg:line")
                if args[0] == prev:
                    L.add("dup:zero-length-line")
            elif op == "curveTo":
                L.add("seg:cubic" if len(args) == 3 else ("seg:super-bezier" if len(args) > 3 else "seg:curveTo-short"))
            elif op == "qCurveTo":
                L.add("seg:quadratic-%s" % ("1off" if len(args) == 2 else "0off" if len(args) == 1 else "multi-off"))
            pts = [prev] + list(args)
            if len(set(pts)) < len(pts):
                L.add("dup:coincident-points-in-segment")
            prev = args[-1]
    comps = [a for op, a in S if op == "addComponent"]
    if comps:
        L.add("components")
        if any(a[0] == "c" for a in comps):
            L.add("components:nested")
        if any(det(a[1]) < 0 for a in comps):
            L.add("components:flipped")
        if any(det(a[1]) == 0 for a in comps):
            L.add("components:singular")
    if not D:
        L.add("empty-glyph")
    return L


NONTRIVIAL = (
    "seg:cubic",
    "seg:super-bezier",
    "seg:curveTo-short",
    "seg:quadratic-1off",
    "seg:quadratic-multi-off",
    "contour:no-on-curve",
    "closing:lineTo-equals-start",
    "closing:last-on-curve-equals-start",
    "dup:zero-length-line",
    "dup:coincident-points-in-segment",
    "contour:single-point",
    "components",
)


def check_seg(case, acc, record=True):
    areaPen, boundsPen, filterPen, pointPen, recordingPen, reverseContourPen, roundingPen, svgPathPen, t2CharStringPen, transformPen, ttGlyphPen = _pens()
    from fontTools.misc.transform import Transform

    RecordingPen = recordingPen.RecordingPen
    mode = case["mode"]
    fl = case["flags"]
    S = gp.tup_ops(case["ops"])
    gops = {n: gp.tup_ops(o) for n, o in case["glyphs"].items()}
    G = {n: gp.SegGlyph(o) for n, o in case["glyphs"].items()}
    flips = []
    D = ref_decompose(S, gops, flips=flips)
    T = tuple(case["T"])
    sup = has_super(D)
    sc = scale_of(D)
    exact = mode == "int" and not sup
    tol = 0.0 if exact else 1e-9 * sc
    dtol = tol if mode == "int" else 0.0
    A = geom.canon(D, tol=dtol)
    A_all = geom.canon(D, drop_degenerate=False)
    labels = seg_labels(case, S, D)
    if record:
        lab = ["seg:%s" % mode] + sorted(labels)
        acc.case([case["ops"], case["glyphs"]], nontrivial=bool(labels.intersection(NONTRIVIAL)), labels=lab, sample=case if len(str(case)) < 1500 else None)

    def dec(ops):
        return ref_decompose(list(ops), gops)

    def canon_of(ops, **kw):
        return geom.canon(dec(ops), tol=dtol, **kw)

    # -- RecordingPen: record, replay -------------------------------------
    def recording():
        r1 = RecordingPen()
        gp.replay_ops(S, r1)
        if [(o, tuple(a)) for o, a in r1.value] != S:
            _fail(acc, "RecordingPen", "recording-differs-from-calls", "%r vs %r" % (r1.value[:6], S[:6]), case)
        r2 = RecordingPen()
        r1.replay(r2)
        r3 = RecordingPen()
        recordingPen.replayRecording(r1.value, r3)
        if r2.value != r1.value or r3.value != r1.value:
            _fail(acc, "RecordingPen", "replay-differs", "%r vs %r" % (r2.value[:6], r1.value[:6]), case)
        compare(acc, "RecordingPen", case, canon_of(r2.value), A, tol)

    guarded(acc, "RecordingPen", case, recording)

    # -- DecomposingRecordingPen vs own decomposition ---------------------
    def decomposing():
        p = recordingPen.DecomposingRecordingPen(G)
        gp.replay_ops(S, p)
        if any(o == "addComponent" for o, _ in p.value):
            _fail(acc, "DecomposingRecordingPen", "component-left", "", case)
        else:
            compare(acc, "DecomposingRecordingPen", case, geom.canon(p.value, tol=dtol), A, tol)
        # reverseFlipped: contours of components whose total determinant is negative are reversed
        p = recordingPen.DecomposingRecordingPen(G, reverseFlipped=True)
        gp.replay_ops(S, p)
        # direct contours of the glyph itself are never reversed: flips[] is False for them
        exp = []
        run, cur = [], None
        for (op, args), f in zip(D, flips):
            if cur is None:
                cur = f
            run.append((op, args))
            if op in ("closePath", "endPath"):
                cc = geom.canon(run, tol=dtol)
                exp.extend(rev_contours(cc) if cur else cc)
                run, cur = [], None
        compare(acc, "DecomposingRecordingPen(reverseFlipped)", case, geom.canon(p.value, tol=dtol), exp, tol)
        fp = filterPen.DecomposingFilterPen(RecordingPen(), G)
        gp.replay_ops(S, fp)
        compare(acc, "DecomposingFilterPen", case, geom.canon(fp._outPen.value, tol=dtol), A, tol)

    guarded(acc, "DecomposingRecordingPen", case, decomposing)

    # -- Segment -> Point -> Segment --------------------------------------
    def seg_point_seg():
        for guess in (fl["guess"], not fl["guess"]):
            rp = recordingPen.RecordingPointPen()
            sp = pointPen.SegmentToPointPen(rp, guessSmooth=guess)
            gp.replay_ops(S, sp)
            items = items_from_recording(rp.value)
            compare(acc, "SegmentToPointPen", case, canon_of(ref_items_to_ops(items)), A, tol)
            for oicl in (False, True):
                r = RecordingPen()
                rp.replay(pointPen.PointToSegmentPen(r, outputImpliedClosingLine=oicl))
                compare(acc, "Segment->Point->Segment", case, canon_of(r.value), A, tol)

    guarded(acc, "Segment->Point->Segment", case, seg_point_seg)

    # -- TransformPen vs own affine map of the canonical points -----------
    def transform():
        r = RecordingPen()
        tp = transformPen.TransformPen(r, Transform(*T) if fl["oicl"] else T)
        gp.replay_ops(S, tp)
        exp = drop_deg(aff_contours(A_all, T), dtol_t)
        got = geom.canon(dec(r.value), tol=dtol_t)
        compare(acc, "TransformPen", case, got, exp, tol_t)

    sc_t = max(sc, scale_of(ref_decompose(D, gops, chain=(T,))))
    tol_t = 0.0 if exact else 1e-9 * sc_t
    dtol_t = tol_t if mode == "int" else 0.0
    guarded(acc, "TransformPen", case, transform)

    # -- ReverseContourPen ------------------------------------------------
    def reverse():
        for oicl in (fl["oicl"], not fl["oicl"]):
            r1 = RecordingPen()
            gp.replay_ops(D, reverseContourPen.ReverseContourPen(r1, outputImpliedClosingLine=oicl))
            r2 = RecordingPen()
            gp.replay_ops(r1.value, reverseContourPen.ReverseContourPen(r2, outputImpliedClosingLine=oicl))
            c1 = geom.canon(r1.value, tol=dtol)
            compare(acc, "ReverseContourPen twice", case, geom.canon(r2.value, tol=dtol), A, tol)
            exp = rev_contours(A)
            if len(c1) != len(exp):
                _fail(acc, "ReverseContourPen once", "contour-count", "%d vs %d" % (len(c1), len(exp)), case)
                continue
            ne, ng = norm(exp), norm(c1)
            for i, (e, g) in enumerate(zip(ne, ng)):
                if not geom.contour_match(e, g, tol):
                    _fail(acc, "ReverseContourPen once" if e["closed"] or not e["segs"] else "ReverseContourPen once (open contour)", "not-the-reversed-segments", "contour %d: %s" % (i, geom.describe_diff(e, g)), case)
                    break
            # documented: closed contours keep their starting point
            cin, cout = split_contours(D), split_contours(r1.value)
            if len(cin) == len(cout):
                for a, b in zip(cin, cout):
                    if a[-1][0] == "closePath" and a[0][0] == "moveTo" and len(a) > 2:
                        if b[0][0] != "moveTo" or b[0][1][0] != a[0][1][0]:
                            _fail(acc, "ReverseContourPen once", "closed-contour-start-point-moved", "%r -> %r" % (a[:3], b[:3]), case)
                            break
            if all(c["closed"] or not c["segs"] for c in A):
                a0, a1 = geom.exact_area(A), geom.exact_area(c1)
                if abs(a0 + a1) > 1e-9 * sc * sc:
                    _fail(acc, "ReverseContourPen area", "area-not-negated", "%r vs %r" % (a0, a1), case)
                ap0, ap1 = areaPen.AreaPen(None), areaPen.AreaPen(None)
                gp.replay_ops(close_all(D), ap0)
                gp.replay_ops(close_all(r1.value), ap1)
                if abs(ap0.value + ap1.value) > 1e-9 * sc * sc:
                    _fail(acc, "ReverseContourPen area", "AreaPen-not-negated", "%r vs %r" % (ap0.value, ap1.value), case)
        # components pass through unchanged
        r = RecordingPen()
        gp.replay_ops(S, reverseContourPen.ReverseContourPen(r))
        if [x for x in r.value if x[0] == "addComponent"] != [x for x in S if x[0] == "addComponent"]:
            _fail(acc, "ReverseContourPen once", "components-changed", "", case)

    guarded(acc, "ReverseContourPen", case, reverse)

    # -- RoundingPen ------------------------------------------------------
    def rounding():
        S2 = []
        for c in _split_with_components(S):
            S2.extend(c)
        r = RecordingPen()
        gp.replay_ops(S2, roundingPen.RoundingPen(r))
        exp_ops = []
        for op, args in S2:
            if op == "addComponent":
                t = args[1]
                exp_ops.append((op, (args[0], (t[0], t[1], t[2], t[3], ot_round(t[4]), ot_round(t[5])))))
            else:
                exp_ops.append((op, tuple((ot_round(p[0]), ot_round(p[1])) if p is not None else None for p in args)))
        for op, args in r.value:
            if op != "addComponent" and not all(type(p[0]) is int and type(p[1]) is int for p in args if p is not None):
                _fail(acc, "RoundingPen", "non-integer-output", repr((op, args)), case)
                break
        compare(acc, "RoundingPen", case, canon_of(r.value), canon_of(exp_ops), 0.0 if not has_super(dec(exp_ops)) and mode == "int" else 1e-9 * sc)
        if [(o, len(a)) for o, a in r.value] != [(o, len(a)) for o, a in S2]:
            _fail(acc, "RoundingPen", "call-structure-changed", "", case)

    guarded(acc, "RoundingPen", case, rounding)

    # -- pass-through filters --------------------------------------------
    def filters():
        r = RecordingPen()
        gp.replay_ops(S, filterPen.FilterPen(r))
        if [(o, tuple(a)) for o, a in r.value] != S:
            _fail(acc, "FilterPen", "not-identity", "%r vs %r" % (r.value[:6], S[:6]), case)
        r = RecordingPen()
        gp.replay_ops(S, filterPen.ContourFilterPen(r))
        if [(o, tuple(a)) for o, a in r.value] != S:
            _fail(acc, "ContourFilterPen", "not-identity", "%r vs %r" % (r.value[:6], S[:6]), case)
        compare(acc, "ContourFilterPen", case, canon_of(r.value), A, tol)

    guarded(acc, "FilterPen", case, filters)

    # -- SVGPathPen -> parse_path ------------------------------------------
    def svg():
        from fontTools.svgLib.path import parse_path

        sp = svgPathPen.SVGPathPen(G)
        gp.replay_ops(S, sp)
        d = sp.getCommands()
        r = RecordingPen()
        parse_path(d, r)
        compare(acc, "SVGPathPen->parse_path", case, geom.canon(r.value, tol=dtol), A, tol)

    guarded(acc, "SVGPathPen->parse_path", case, svg)

    # -- bounds / control bounds / area -----------------------------------
    def bounds():
        cb = boundsPen.ControlBoundsPen(G)
        gp.replay_ops(S, cb)
        bp = boundsPen.BoundsPen(G)
        gp.replay_ops(S, bp)
        cbi = boundsPen.ControlBoundsPen(G, ignoreSinglePoints=True)
        gp.replay_ops(S, cbi)
        btol = tol if mode == "int" else 1e-9 * sc
        e_cb = geom.control_bounds(A_all)
        e_cbi = geom.control_bounds([c for c in A_all if c["segs"]])
        for name, got, exp, t in (("ControlBoundsPen", cb.bounds, e_cb, btol), ("ControlBoundsPen(ignoreSinglePoints)", cbi.bounds, e_cbi, btol)):
            if (got is None) != (exp is None) or (got is not None and max(abs(a - b) for a, b in zip(got, exp)) > t):
                _fail(acc, name, "bounds-differ", "%r vs reference %r" % (got, exp), case)
        e_tb = geom.tight_bounds(A_all)
        got = bp.bounds
        if (got is None) != (e_tb is None):
            _fail(acc, "BoundsPen", "bounds-differ", "%r vs reference %r" % (got, e_tb), case)
        elif got is not None:
            if max(abs(a - b) for a, b in zip(got, e_tb)) > 1e-6 * sc:
                # confirm with dense sampling before reporting (root finding in the
                # reference is ill-conditioned for nearly degenerate curves)
                sb = _sampled_bounds(A_all)
                if max(abs(a - b) for a, b in zip(got, sb)) > 1e-6 * sc:
                    _fail(acc, "BoundsPen", "bounds-differ", "%r vs reference %r (sampled %r)" % (got, e_tb, sb), case)
                else:
                    acc.label("BoundsPen:reference-roots-imprecise(sampling agrees)")
            c = cb.bounds
            s = 1e-9 * sc
            if not (got[0] >= c[0] - s and got[1] >= c[1] - s and got[2] <= c[2] + s and got[3] <= c[3] + s):
                _fail(acc, "BoundsPen within ControlBoundsPen", "not-contained", "%r not within %r" % (got, c), case)

    guarded(acc, "BoundsPen", case, bounds)

    def area():
        ap = areaPen.AreaPen(None)
        gp.replay_ops(close_all(D), ap)
        exp = geom.exact_area(geom.canon(close_all(D)))
        if abs(ap.value - exp) > 1e-9 * sc * sc:
            _fail(acc, "AreaPen", "area-differs", "%r vs reference %r" % (ap.value, exp), case)

    guarded(acc, "AreaPen", case, area)

    # -- T2CharStringPen --------------------------------------------------
    def t2():
        from types import SimpleNamespace

        from fontTools.misc.psCharStrings import T2CharString

        priv = SimpleNamespace(nominalWidthX=0, defaultWidthX=0)
        opt = fl["opt"]
        # (b) no rounding, any segment types, whole call sequence with components
        pen = t2CharStringPen.T2CharStringPen(None, G, roundTolerance=0)
        gp.replay_ops(S, pen)
        cs = pen.getCharString(private=priv, optimize=opt)
        r = RecordingPen()
        cs.draw(r)
        # relative coordinates are accumulated in floating point: the implicit closing
        # point carries a residue of a few ulp, so degenerate means "within t" here
        t = 1e-9 * sc
        exp = elevate(geom.canon(close_all(D), tol=t, drop_empty=True))
        got = elevate(geom.canon(r.value, tol=t, drop_empty=True))
        if opt:
            exp, got = t2_normal_form(exp, t), t2_normal_form(got, t)
        compare(acc, "T2CharStringPen(roundTolerance=0)", case, got, exp, t)
        if mode != "int":
            # (c) default rounding of float input: every coordinate of the decomposed cubic
            # outline is rounded (floor(x + 0.5)); fed already decomposed so that the only
            # arithmetic before rounding is BasePen's documented segment decomposition
            pen = t2CharStringPen.T2CharStringPen(None, None)
            gp.replay_ops(close_all(D), pen)
            cs = pen.getCharString(private=priv, optimize=opt)
            r = RecordingPen()
            cs.draw(r)
            full = elevate(geom.canon(close_all(D), drop_degenerate=False))
            exp = drop_deg([dict(c, start=(ot_round(c["start"][0]), ot_round(c["start"][1])), segs=[(s_[0],) + tuple((ot_round(p[0]), ot_round(p[1])) for p in s_[1:]) for s_ in c["segs"]]) for c in full], 0.0, drop_empty=True)
            got = geom.canon(r.value, drop_empty=True)
            if opt:
                exp, got = t2_normal_form(exp), t2_normal_form(got)
            compare(acc, "T2CharStringPen(rounding)", case, got, exp, 0.0)
            # (d) a tolerance strictly between 0 and 0.5 (documented: "will only round floats which are already close to
            # their integral part"): every absolute coordinate c becomes floor(c + 0.5) when that is within the tolerance of
            # c and stays c otherwise; the drawn-back outline equals that point by point (relative operands accumulate a
            # few ulp). Tolerance chosen from the case's own data, so it is a function of the generated case.
            tolr = (0.01, 0.05, 0.1, 0.2, 0.3, 0.45)[int(abs(sc) * 7 + len(D)) % 6]

            def mr(v):
                rv = ot_round(v)
                return rv if abs(rv - v) <= tolr else v

            pen = t2CharStringPen.T2CharStringPen(None, None, roundTolerance=tolr)
            gp.replay_ops(close_all(D), pen)
            cs = pen.getCharString(private=priv, optimize=opt)
            r = RecordingPen()
            cs.draw(r)
            t = 1e-9 * max(1.0, sc)
            exp = drop_deg([dict(c, start=(mr(c["start"][0]), mr(c["start"][1])), segs=[(s_[0],) + tuple((mr(p[0]), mr(p[1])) for p in s_[1:]) for s_ in c["segs"]]) for c in full], t, drop_empty=True)
            got = geom.canon(r.value, tol=t, drop_empty=True)
            if opt:
                exp, got = t2_normal_form(exp, t), t2_normal_form(got, t)
            compare(acc, "T2CharStringPen(roundTolerance=partial)", case, got, exp, t)
            acc.label("t2:partial-tolerance-leg")
            return
        # (a) default rounding; integer lines and 3-point cubics are exact
        Da = []
        for c in split_contours(D):
            if all(op in ("moveTo", "lineTo", "closePath", "endPath") or (op == "curveTo" and len(a) == 3) for op, a in c) and all_int(c):
                Da.extend(c)
        if not Da:
            return
        acc.label("t2:exact-leg")
        pen = t2CharStringPen.T2CharStringPen(None if fl["isp"] else 500, None)
        gp.replay_ops(Da, pen)
        cs = pen.getCharString(private=priv, optimize=opt)
        if scale_of(Da) <= 16000:
            cs.compile()
            cs = T2CharString(bytecode=cs.bytecode, private=priv)
            acc.label("t2:exact-leg:compiled")
        r = RecordingPen()
        cs.draw(r)
        exp = geom.canon(close_all(Da), drop_empty=True)
        got = geom.canon(r.value, drop_empty=True)
        if opt:
            exp, got = t2_normal_form(exp), t2_normal_form(got)
        compare(acc, "T2CharStringPen", case, got, exp, 0.0)

    guarded(acc, "T2CharStringPen", case, t2)

    # -- TTGlyphPen -------------------------------------------------------
    def tt():
        if mode != "int":
            return
        keep = []
        clean = True
        for c in split_contours(D):
            if any(op == "curveTo" and len(a) > 3 for op, a in c):
                # TTGlyphPen.curveTo stores 2k off-curves as TrueType cubic with implied
                # on-curve points, which is not the pen protocol's super-bezier (reported)
                acc.exclude("TTGlyphPen:super-bezier-curveTo")
                clean = False
                continue
            if any(op == "curveTo" and len(a) < 3 for op, a in c):
                acc.exclude("TTGlyphPen:curveTo-with-fewer-than-3-points(asserts)")
                clean = False
                continue
            keep.extend(c)
        exp = geom.canon(close_all(keep), drop_empty=True)
        for oicl in (fl["oicl"], not fl["oicl"]):
            pen = ttGlyphPen.TTGlyphPen(None, outputImpliedClosingLine=oicl)
            gp.replay_ops(keep, pen)
            drop = fl["drop"] if oicl == fl["oicl"] else not fl["drop"]
            npts = len(pen.points)
            g = pen.glyph(dropImpliedOnCurves=drop)
            if drop and len(g.coordinates) < npts:
                acc.label("tt:implied-on-curve-points-dropped")
            r = RecordingPen()
            g.draw(r, None)
            compare(acc, "TTGlyphPen", case, geom.canon(r.value, drop_empty=True), exp, 0.0)
            if drop and any(op == "curveTo" for op, _ in keep):
                # Glyph.drawPoints emits an implied cubic on-curve as a 'curve' point with 4+
                # off-curves, which the point protocol reads as a super-bezier (reported)
                acc.exclude("Glyph.drawPoints:cubic-with-dropImpliedOnCurves")
                continue
            rp = recordingPen.RecordingPointPen()
            g.drawPoints(rp, None)
            compare(acc, "TTGlyphPen(drawPoints)", case, geom.canon(ref_items_to_ops(items_from_recording(rp.value)), drop_empty=True), exp, 0.0)
        comps = [a for op, a in S if op == "addComponent"]
        if clean and comps:
            # whole call sequence, components resolved by the pen (mixed) or kept (composite)
            pen = ttGlyphPen.TTGlyphPen(G)
            gp.replay_ops(S, pen)
            g = pen.glyph(dropImpliedOnCurves=fl["drop"])
            r = RecordingPen()
            g.draw(r, None)
            composite = g.isComposite()
            acc.label("tt:composite-glyph" if composite else "tt:components-decomposed-by-pen")
            # components are resolved when glyph() is called, i.e. after the glyph's own
            # contours: contour order is not geometry
            compare(acc, "TTGlyphPen(components)", case, geom.canon(close_all(dec(r.value)), drop_empty=True), exp, 0.0, ordered=False)

    guarded(acc, "TTGlyphPen", case, tt)


def _split_with_components(ops):
    out, cur = [], []
    for op in ops:
        if op[0] == "addComponent":
            out.append([op])
            continue
        cur.append(op)
        if op[0] in ("closePath", "endPath"):
            out.append(cur)
            cur = []
    if cur:
        out.append(cur)
    return out


def _sampled_bounds(contours, n=2048):
    xs, ys = [], []
    for c in contours:
        if not c["segs"]:
            xs.append(c["start"][0])
            ys.append(c["start"][1])
        for s in c["segs"]:
            if s[0] == "L":
                ts = (0.0, 1.0)
            else:
                ts = [i / n for i in range(n + 1)]
            for t in ts:
                x, y = geom._eval(s, t)
                xs.append(x)
                ys.append(y)
    return (min(xs), min(ys), max(xs), max(ys))


# ---------------------------------------------------------------------------
# point-protocol case


def pt_labels(case, items):
    L = set()
    for it in items:
        if "comp" in it:
            L.add("components")
            if it["comp"][0] == "c":
                L.add("components:nested")
            if det(it["comp"][1]) < 0:
                L.add("components:flipped")
            continue
        c = it["c"]
        types = [p[2] for p in c]
        if len(c) == 1:
            L.add("contour:single-point")
            continue
        if all(t is None for t in types):
            L.add("contour:no-on-curve")
            if (c[0][0], c[0][1]) == (c[-1][0], c[-1][1]):
                L.add("contour:no-on-curve:first-off==last-off")
            continue
        L.add("contour:open" if types[0] == "move" else "contour:closed")
        if types[0] is None:
            L.add("contour:starts-with-off-curve")
        if "curve" in types:
            L.add("seg:cubic-or-super")
        if "qcurve" in types:
            L.add("seg:quadratic")
        if "line" in types:
            L.add("seg:line")
        pts = [(p[0], p[1]) for p in c]
        if len(set(pts)) < len(pts):
            L.add("dup:coincident-points")
        if any(p[3] for p in c):
            L.add("attr:smooth")
        if any(p[4] is not None for p in c):
            L.add("attr:name")
        if any(p[5] is not None for p in c) or it.get("id"):
            L.add("attr:identifier")
    return L


PT_NONTRIVIAL = ("seg:cubic-or-super", "seg:quadratic", "contour:no-on-curve", "contour:starts-with-off-curve", "dup:coincident-points", "contour:single-point", "components")


def flatten_items(items, gitems, chain=(), depth=0):
    """Reference decomposition at the point level (for feeding builders)."""
    out = []
    for it in items:
        if "comp" in it:
            out.extend(flatten_items(gitems[it["comp"][0]], gitems, (tuple(it["comp"][1]),) + tuple(chain), depth + 1))
        else:
            c = []
            for p in it["c"]:
                q = (p[0], p[1])
                for t in chain:
                    q = aff(t, q)
                c.append([q[0], q[1]] + list(p[2:]))
            out.append({"c": c, "id": None})
    return out


def check_pt(case, acc, record=True):
    areaPen, boundsPen, filterPen, pointPen, recordingPen, reverseContourPen, roundingPen, svgPathPen, t2CharStringPen, transformPen, ttGlyphPen = _pens()
    from fontTools.misc.transform import Transform

    RecordingPen = recordingPen.RecordingPen
    RecordingPointPen = recordingPen.RecordingPointPen
    mode = case["mode"]
    fl = case["flags"]
    items = case["items"]
    gitems = case["glyphs"]
    gops = {n: ref_items_to_ops(it) for n, it in gitems.items()}
    G = {n: gp.PtGlyph(it, ref_items_to_ops) for n, it in gitems.items()}
    S = ref_items_to_ops(items)
    flips = []
    D = ref_decompose(S, gops, flips=flips)
    T = tuple(case["T"])
    sup = has_super(D)
    sc = scale_of(D)
    exact = mode == "int" and not sup
    tol = 0.0 if exact else 1e-9 * sc
    dtol = tol if mode == "int" else 0.0
    A = geom.canon(D, tol=dtol)
    A_all = geom.canon(D, drop_degenerate=False)
    labels = pt_labels(case, items)
    if record:
        acc.case([items, case["glyphs"]], nontrivial=bool(labels.intersection(PT_NONTRIVIAL)), labels=["pt:%s" % mode] + ["pt:" + l for l in sorted(labels)], sample=case if len(str(case)) < 1500 else None)

    def canon_items(its, **kw):
        return geom.canon(ref_decompose(ref_items_to_ops(its), gops), tol=dtol, **kw)

    def canon_ops(ops, **kw):
        return geom.canon(ref_decompose(list(ops), gops), tol=dtol, **kw)

    direct = RecordingPointPen()
    gp.replay_items(items, direct)

    def recording():
        exp = expected_recording(items)
        if direct.value != exp:
            _fail(acc, "RecordingPointPen", "recording-differs-from-calls", "%r vs %r" % (direct.value[:5], exp[:5]), case)
        r2 = RecordingPointPen()
        direct.replay(r2)
        if r2.value != direct.value:
            _fail(acc, "RecordingPointPen", "replay-differs", "%r vs %r" % (r2.value[:5], direct.value[:5]), case)
        compare(acc, "RecordingPointPen", case, canon_items(items_from_recording(r2.value)), A, tol)

    guarded(acc, "RecordingPointPen", case, recording)

    def decomposing():
        p = recordingPen.DecomposingRecordingPointPen(G)
        gp.replay_items(items, p)
        its = items_from_recording(p.value)
        if any("comp" in it for it in its):
            _fail(acc, "DecomposingRecordingPointPen", "component-left", "", case)
        else:
            compare(acc, "DecomposingRecordingPointPen", case, geom.canon(ref_items_to_ops(its), tol=dtol), A, tol)
        exp = []
        run, cur = [], None
        for (op, args), f in zip(D, flips):
            if cur is None:
                cur = f
            run.append((op, args))
            if op in ("closePath", "endPath"):
                cc = geom.canon(run, tol=dtol)
                exp.extend(rev_contours(cc) if cur else cc)
                run, cur = [], None
        for rf in (True, "on_curve_first"):
            p = recordingPen.DecomposingRecordingPointPen(G, reverseFlipped=rf)
            gp.replay_items(items, p)
            its = items_from_recording(p.value)
            compare(acc, "DecomposingRecordingPointPen(reverseFlipped=%s)" % rf, case, geom.canon(ref_items_to_ops(its), tol=dtol), exp, tol)
        fp = filterPen.DecomposingFilterPointPen(RecordingPointPen(), G)
        gp.replay_items(items, fp)
        compare(acc, "DecomposingFilterPointPen", case, geom.canon(ref_items_to_ops(items_from_recording(fp._outPen.value)), tol=dtol), A, tol)

    guarded(acc, "DecomposingRecordingPointPen", case, decomposing)

    def point_to_segment():
        for oicl in (False, True):
            r = RecordingPen()
            gp.replay_items(items, pointPen.PointToSegmentPen(r, outputImpliedClosingLine=oicl))
            compare(acc, "PointToSegmentPen", case, canon_ops(r.value), A, tol)
            # documented (BasePointToSegmentPen.endPath/_flushContour): the point list of a closed
            # contour is rotated to end with its first on-curve point, which gets the moveTo
            parts = _split_with_components([(o, tuple(a)) for o, a in r.value])
            if len(parts) == len(items):
                for it, part in zip(items, parts):
                    if "c" in it and len(it["c"]) > 1 and it["c"][0][2] != "move":
                        on = [p for p in it["c"] if p[2] is not None]
                        if on and (part[0][0] != "moveTo" or part[0][1][0] != (on[0][0], on[0][1])):
                            _fail(acc, "PointToSegmentPen", "closed-contour-not-started-at-first-on-curve", "%r -> %r" % (it["c"][:4], part[:2]), case)
                            break
            else:
                _fail(acc, "PointToSegmentPen", "contour-count", "%d items -> %d contours/components" % (len(items), len(parts)), case)
            if not oicl:
                rp = RecordingPointPen()
                gp.replay_ops(r.value, pointPen.SegmentToPointPen(rp, guessSmooth=fl["guess"]))
                compare(acc, "Point->Segment->Point", case, canon_items(items_from_recording(rp.value)), A, tol)

    guarded(acc, "PointToSegmentPen", case, point_to_segment)

    def transform():
        rp = RecordingPointPen()
        gp.replay_items(items, transformPen.TransformPointPen(rp, Transform(*T) if fl["oicl"] else T))
        sc_t = max(sc, scale_of(ref_decompose(D, gops, chain=(T,))))
        tol_t = 0.0 if exact else 1e-9 * sc_t
        dtol_t = tol_t if mode == "int" else 0.0
        its = items_from_recording(rp.value)
        got = geom.canon(ref_decompose(ref_items_to_ops(its), gops), tol=dtol_t)
        compare(acc, "TransformPointPen", case, got, drop_deg(aff_contours(A_all, T), dtol_t), tol_t)
        if _attrs_only(its) != _attrs_only(items):
            _fail(acc, "TransformPointPen", "point-attributes-changed", "%r vs %r" % (_attrs_only(its)[:4], _attrs_only(items)[:4]), case)

    guarded(acc, "TransformPointPen", case, transform)

    def reverse():
        r1 = RecordingPointPen()
        gp.replay_items(items, pointPen.ReverseContourPointPen(r1))
        its1 = items_from_recording(r1.value)
        r2 = RecordingPointPen()
        r1.replay(pointPen.ReverseContourPointPen(r2))
        its2 = items_from_recording(r2.value)
        own = [it for it in items if "c" in it]
        own1 = [it for it in its1 if "c" in it]
        own2 = [it for it in its2 if "c" in it]
        B = geom.canon(ref_items_to_ops(own), tol=dtol)
        compare(acc, "ReverseContourPointPen twice", case, geom.canon(ref_items_to_ops(own2), tol=dtol), B, tol)
        if [[(p[0], p[1]) for p in it["c"]] for it in own2] != [[(p[0], p[1]) for p in it["c"]] for it in own]:
            _fail(acc, "ReverseContourPointPen twice", "point-order-not-restored", "", case)
        c1 = geom.canon(ref_items_to_ops(own1), tol=dtol)
        exp = rev_contours(B)
        if len(c1) != len(exp):
            _fail(acc, "ReverseContourPointPen once", "contour-count", "%d vs %d" % (len(c1), len(exp)), case)
        else:
            for i, (e, g) in enumerate(zip(norm(exp), norm(c1))):
                if not geom.contour_match(e, g, tol):
                    _fail(acc, "ReverseContourPointPen once" if e["closed"] or not e["segs"] else "ReverseContourPointPen once (open contour)", "not-the-reversed-segments", "contour %d: %s" % (i, geom.describe_diff(e, g)), case)
                    break
        if len(own) == len(own1):
            for a, b in zip(own, own1):
                if a["c"] and a["c"][0][2] != "move" and (not b["c"] or (b["c"][0][0], b["c"][0][1]) != (a["c"][0][0], a["c"][0][1])):
                    _fail(acc, "ReverseContourPointPen once", "closed-contour-first-point-moved", "%r -> %r" % (a["c"][:3], b["c"][:3]), case)
                    break
        if sorted(map(repr, point_attrs(its1))) != sorted(map(repr, point_attrs(items))):
            _fail(acc, "ReverseContourPointPen once", "point-attributes-changed", "", case)
        if [it for it in its1 if "comp" in it] != [{"comp": [it["comp"][0], tuple(it["comp"][1]), it["comp"][2]]} for it in items if "comp" in it]:
            _fail(acc, "ReverseContourPointPen once", "components-changed", "", case)

    guarded(acc, "ReverseContourPointPen", case, reverse)

    def rounding():
        rp = RecordingPointPen()
        gp.replay_items(items, roundingPen.RoundingPointPen(rp))
        exp_items = []
        for it in items:
            if "comp" in it:
                n, t, ident = it["comp"]
                exp_items.append({"comp": [n, (t[0], t[1], t[2], t[3], ot_round(t[4]), ot_round(t[5])), ident]})
            else:
                exp_items.append({"c": [[ot_round(p[0]), ot_round(p[1])] + list(p[2:]) for p in it["c"]], "id": it.get("id")})
        its = items_from_recording(rp.value)
        for it in its:
            if "c" in it and not all(type(p[0]) is int and type(p[1]) is int for p in it["c"]):
                _fail(acc, "RoundingPointPen", "non-integer-output", repr(it["c"][:4]), case)
                break
        e = canon_items(exp_items)
        compare(acc, "RoundingPointPen", case, canon_items(its), e, 0.0 if mode == "int" and not sup else 1e-9 * sc)
        if _attrs_only(its) != _attrs_only(items):
            _fail(acc, "RoundingPointPen", "point-attributes-changed", "", case)

    guarded(acc, "RoundingPointPen", case, rounding)

    def filters():
        for name, cls in (("FilterPointPen", filterPen.FilterPointPen), ("ContourFilterPointPen", filterPen.ContourFilterPointPen)):
            rp = RecordingPointPen()
            gp.replay_items(items, cls(rp))
            if rp.value != direct.value:
                _fail(acc, name, "not-identity", "%r vs %r" % (rp.value[:5], direct.value[:5]), case)
        rp = RecordingPointPen()
        gp.replay_items(items, pointPen.GuessSmoothPointPen(rp))
        its = items_from_recording(rp.value)
        compare(acc, "GuessSmoothPointPen", case, canon_items(its), A, tol)
        if [[tuple(p[:3]) + tuple(p[4:]) for p in it["c"]] for it in its if "c" in it] != [[tuple(p[:3]) + tuple(p[4:]) for p in it["c"]] for it in items if "c" in it]:
            _fail(acc, "GuessSmoothPointPen", "points-changed", "", case)
        rp = RecordingPointPen()
        gp.replay_items(items, filterPen.OnCurveFirstPointPen(rp))
        its = items_from_recording(rp.value)
        compare(acc, "OnCurveFirstPointPen", case, canon_items(its), A, tol)
        for it in its:
            if "c" in it and len(it["c"]) > 1 and it["c"][0][2] is None and any(p[2] is not None for p in it["c"]):
                _fail(acc, "OnCurveFirstPointPen", "closed-contour-still-starts-off-curve", repr(it["c"][:3]), case)
                break

    guarded(acc, "FilterPointPen", case, filters)

    def tt():
        if mode != "int":
            return
        flat = flatten_items(items, gitems)
        keep = []
        for idx, it in enumerate(flat):
            c = it["c"]
            types = [p[2] for p in c]
            bad = False
            if len(c) > 1:
                n = len(c)
                for i, t in enumerate(types):
                    if t == "curve":
                        k = 0
                        j = (i - 1) % n
                        while types[j] is None and k < n:
                            k += 1
                            j = (j - 1) % n
                        if k not in (0, 2):
                            bad = True
            if bad:
                acc.exclude("TTGlyphPointPen:'curve'-segment-without-exactly-2-off-curves")
                continue
            if fl["drop"] and len(c) > 1 and types[0] is None and types[1] == "curve":
                # dropImpliedOnCurvePoints can leave a cubic contour without on-curve points whose
                # point list starts with the SECOND handle of a segment; Glyph.draw pairs handles
                # from index 0 (reported). Fed starting at its first on-curve point instead.
                acc.exclude("dropImpliedOnCurves:cubic-contour-starting-at-second-handle(rotated)")
                c = c[1:] + c[:1]
                types = [p[2] for p in c]
            if keep and len(c) > 1 and types[0] is None and any(t is not None for t in types):
                first_on = next(i for i, t in enumerate(types) if t is not None)
                if types[first_on] == "curve":
                    # TTGlyphPointPen.endPath walks back from a 'curve' point across the start of a
                    # non-first contour into the previous contour instead of wrapping (reported);
                    # the same closed contour is fed starting at its first on-curve point
                    acc.exclude("TTGlyphPointPen:cubic-off-curves-at-start-of-non-first-contour(rotated)")
                    c = c[first_on:] + c[:first_on]
            keep.append({"c": c, "id": None})
        exp = geom.canon(close_all(ref_items_to_ops([_closed_item(it) for it in keep])), drop_empty=True)
        pen = ttGlyphPen.TTGlyphPointPen(None)
        gp.replay_items(keep, pen, identifiers=False)
        npts = len(pen.points)
        g = pen.glyph(dropImpliedOnCurves=fl["drop"])
        if fl["drop"] and len(g.coordinates) < npts:
            acc.label("tt:pointpen:implied-on-curve-points-dropped")
        r = RecordingPen()
        g.draw(r, None)
        compare(acc, "TTGlyphPointPen", case, geom.canon(r.value, drop_empty=True), exp, 0.0)
        if fl["drop"] and any(p[2] == "curve" for it in keep for p in it["c"]):
            acc.exclude("Glyph.drawPoints:cubic-with-dropImpliedOnCurves")
            return
        rp = RecordingPointPen()
        g.drawPoints(rp, None)
        compare(acc, "TTGlyphPointPen(drawPoints)", case, geom.canon(ref_items_to_ops(items_from_recording(rp.value)), drop_empty=True), exp, 0.0)

    guarded(acc, "TTGlyphPointPen", case, tt)


def _closed_item(it):
    """TrueType contours are always closed: an open point-pen contour (first point
    'move') becomes the closed contour through the same points."""
    c = it["c"]
    if len(c) > 1 and c[0][2] == "move":
        c = [c[0][:2] + ["line"] + list(c[0][3:])] + c[1:]
    return {"c": c, "id": it.get("id")}


def _attrs_only(items):
    out = []
    for it in items:
        if "comp" in it:
            out.append(("comp", it["comp"][0], it["comp"][2]))
        else:
            out.append(("path", it.get("id"), [tuple(p[2:]) for p in it["c"]]))
    return out


# ---------------------------------------------------------------------------
# Transform algebra


def check_alg(case, acc, record=True):
    from fontTools.misc.transform import Identity, Offset, Scale, Transform

    mode = case["mode"]
    A, B, C = (tuple(case[k]) for k in "ABC")
    pts = [tuple(p) for p in case["pts"]]
    if record:
        acc.case(case, nontrivial=True, labels=["alg:%s" % mode], sample=case)
    tA, tB, tC = Transform(*A), Transform(*B), Transform(*C)

    def close(a, b, t):
        return all(abs(x - y) <= t for x, y in zip(a, b))

    def mat_tol(*ts):
        m = 1.0
        for t in ts:
            m = max(m, abs(t[4]), abs(t[5]))
        return 1e-9 * m

    def body():
        eps = 0.0 if mode == "int" else None
        for p in pts:
            ps = max(1.0, abs(p[0]), abs(p[1]))
            t = eps if eps is not None else 1e-9 * ps * max(1.0, abs(A[4]), abs(A[5]), abs(B[4]), abs(B[5]), abs(C[4]), abs(C[5]))
            # transformPoint is the affine map
            if not close(tA.transformPoint(p), aff(A, p), t):
                _fail(acc, "Transform.transformPoint", "differs-from-affine-map", "%r %r -> %r vs %r" % (A, p, tA.transformPoint(p), aff(A, p)), case)
            # composition: A.transform(B) applies B first, then A
            ab = tA.transform(tB)
            if not close(ab.transformPoint(p), aff(A, aff(B, p)), t * 16):
                _fail(acc, "Transform.transform", "compose-differs-from-sequential", "%r . %r at %r: %r vs %r" % (A, B, p, ab.transformPoint(p), aff(A, aff(B, p))), case)
            if not close(ab.transformPoint(p), tA.transformPoint(tB.transformPoint(p)), t * 16):
                _fail(acc, "Transform.transform", "compose-differs-from-sequential-library", "%r . %r at %r" % (A, B, p), case)
            # associativity
            l = tA.transform(tB).transform(tC).transformPoint(p)
            r_ = tA.transform(tB.transform(tC)).transformPoint(p)
            if not close(l, r_, t * 256):
                _fail(acc, "Transform.transform", "not-associative", "%r %r %r at %r: %r vs %r" % (A, B, C, p, l, r_), case)
            # reverseTransform(other) == other.transform(self)
            if not close(tA.reverseTransform(tB).transformPoint(p), tB.transform(tA).transformPoint(p), t * 16):
                _fail(acc, "Transform.reverseTransform", "differs", "%r %r" % (A, B), case)
            # inverse
            inv = tA.inverse()
            ti = 1e-9 * ps * max(1.0, abs(A[4]), abs(A[5]))
            if not close(inv.transformPoint(tA.transformPoint(p)), p, ti):
                _fail(acc, "Transform.inverse", "point-round-trip", "%r at %r -> %r" % (A, p, inv.transformPoint(tA.transformPoint(p))), case)
            if not close(tA.transformPoint(inv.transformPoint(p)), p, ti):
                _fail(acc, "Transform.inverse", "point-round-trip(right)", "%r at %r" % (A, p), case)
            # vectors ignore the offset
            v = tA.transformVector(p)
            if not close(v, (A[0] * p[0] + A[2] * p[1], A[1] * p[0] + A[3] * p[1]), t):
                _fail(acc, "Transform.transformVector", "differs", "%r %r" % (A, p), case)
        if tA.transformPoints(pts) != [tA.transformPoint(p) for p in pts] or tA.transformVectors(pts) != [tA.transformVector(p) for p in pts]:
            _fail(acc, "Transform.transformPoints", "differs-from-pointwise", "%r" % (A,), case)
        for m in (tA.inverse().transform(tA), tA.transform(tA.inverse())):
            if not close(m, (1, 0, 0, 1, 0, 0), mat_tol(A)):
                _fail(acc, "Transform.inverse", "inverse-times-self-not-identity", "%r -> %r" % (A, tuple(m)), case)
        if tuple(Identity.inverse()) != (1, 0, 0, 1, 0, 0):
            _fail(acc, "Transform.inverse", "identity", "", case)
        # convenience constructors / modifiers against explicit matrices
        x, y = case["tr"]
        sx, sy = case["sc"]
        ang = case["angle"]
        kx, ky = case["skew"]
        p = pts[0]
        ps = max(1.0, abs(p[0]), abs(p[1]), abs(x), abs(y))
        t = 1e-9 * ps * max(1.0, abs(A[4]), abs(A[5])) * 8
        checks = [
            ("translate", tA.translate(x, y), aff(A, (p[0] + x, p[1] + y))),
            ("scale", tA.scale(sx, sy), aff(A, (p[0] * sx, p[1] * sy))),
            ("scale1", tA.scale(sx), aff(A, (p[0] * sx, p[1] * sx))),
            ("rotate", tA.rotate(ang), aff(A, (math.cos(ang) * p[0] - math.sin(ang) * p[1], math.sin(ang) * p[0] + math.cos(ang) * p[1]))),
            ("skew", tA.skew(kx, ky), aff(A, (p[0] + math.tan(kx) * p[1], math.tan(ky) * p[0] + p[1]))),
        ]
        for name, tr, exp in checks:
            if not close(tr.transformPoint(p), exp, t):
                _fail(acc, "Transform.%s" % name, "differs-from-explicit-map", "%r at %r: %r vs %r" % (A, p, tr.transformPoint(p), exp), case)
        if tuple(Offset(x, y)) != (1, 0, 0, 1, x, y) or tuple(Scale(sx, sy)) != (sx, 0, 0, sy, 0, 0) or tuple(Scale(sx)) != (sx, 0, 0, sx, 0, 0):
            _fail(acc, "Transform.Offset/Scale", "differs", "", case)

    guarded(acc, "Transform", case, body)


# ---------------------------------------------------------------------------
# dispatch, jobs


def run_case(case, acc, record=True):
    k = case["kind"]
    if k == "seg":
        check_seg(case, acc, record)
    elif k == "pt":
        check_pt(case, acc, record)
    elif k == "alg":
        check_alg(case, acc, record)
    else:
        raise HarnessError("unknown case kind %r" % (k,))


def jobs(tier, seed):
    thorough = tier == "thorough"
    m = 20 if thorough else 1
    J = []

    def add(gen, kind, mode, count, n):
        for i in range(count):
            J.append(dict(gen=gen, kind=kind, mode=mode, name="%s-%s-%s-%d" % (gen, kind, mode, i), n=n, seed=subseed(seed, gen, kind, mode, i)))

    # structured Hypothesis strategies (slow to draw: ~10x the cost of the sub-checks)
    add("hyp", "seg", "int", 4 * m, 150)
    add("hyp", "seg", "float", 4 * m, 80)
    add("hyp", "pt", "int", 3 * m, 150)
    add("hyp", "pt", "float", 4 * m, 70)
    # seeded generator, one Hypothesis draw (the seed) per case
    add("fast", "seg", "int", 12 * m, 1500)
    add("fast", "seg", "float", 8 * m, 1000)
    add("fast", "pt", "int", 6 * m, 1500)
    add("fast", "pt", "float", 4 * m, 1000)
    add("fast", "alg", "mixed", 2 * m, 3000)
    J.append(dict(gen="fixed", kind="fixed", mode="int", name="fixed-cases"))
    return J


def strategy(job):
    if job.get("gen") == "fast":
        return gp.fast_case(job["kind"], job["mode"])
    if job["kind"] == "seg":
        return gp.seg_case(job["mode"])
    if job["kind"] == "pt":
        return gp.pt_case(job["mode"])
    if job["kind"] == "alg":
        return gp.algebra_case()
    raise HarnessError("unknown job kind %r" % (job["kind"],))


def _seg(ops, glyphs=None, mode="int", T=(1, 0, 0, 1, 0, 0), **fl):
    flags = dict(oicl=False, guess=True, drop=False, opt=True, isp=False)
    flags.update(fl)
    g = {"a": [["moveTo", [[0, 0]]], ["lineTo", [[10, 0]]], ["lineTo", [[10, 10]]], ["closePath", []]], "b": [], "c": [["addComponent", ["a", [1, 0, 0, 1, 5, 5]]]]}
    g.update(glyphs or {})
    return dict(kind="seg", mode=mode, glyphs=g, ops=ops, T=list(T), flags=flags)


def fixed_cases():
    """Hand-written call sequences for the special cases named in the property's
    rationale (each also reachable by the generator)."""
    m, l, c, q, z, e = "moveTo", "lineTo", "curveTo", "qCurveTo", "closePath", "endPath"
    sq = [[m, [[0, 0]]], [l, [[100, 0]]], [l, [[100, 100]]], [l, [[0, 100]]]]
    C = []
    C.append(_seg(sq + [[z, []]]))
    C.append(_seg(sq + [[l, [[0, 0]]], [z, []]]))  # closing lineTo == start
    C.append(_seg(sq + [[l, [[0, 0]]], [z, []]], oicl=True))
    C.append(_seg([[m, [[0, 0]]], [l, [[100, 0]]], [l, [[0, 0]]], [z, []]]))  # two-point closed, closing line == start
    C.append(_seg([[m, [[0, 0]]], [l, [[0, 0]]], [l, [[100, 0]]], [l, [[100, 100]]], [z, []]]))  # lineTo == moveTo
    C.append(_seg([[m, [[0, 0]]], [c, [[0, 50], [50, 100], [100, 100]]], [c, [[150, 100], [100, 0], [0, 0]]], [z, []]]))  # last on-curve == start
    C.append(_seg([[q, [[0, 0], [0, 100], [100, 100], [100, 0], None]], [z, []]]))  # no on-curve
    C.append(_seg([[q, [[0, 0], [100, 0], None]], [z, []]]))
    C.append(_seg([[q, [[5, 5], None]], [z, []]]))
    C.append(_seg([[m, [[3, 4]]], [z, []], [m, [[5, 6]]], [e, []]]))  # single points
    C.append(_seg([[m, [[0, 0]]], [q, [[50, 100], [100, 0]]], [q, [[150, -100], [250, -100], [200, 0]]], [e, []]]))  # open quadratic
    C.append(_seg([[m, [[0, 0]]], [q, [[0, 100], [50, 100], [100, 100], [100, 0]]], [z, []]], drop=True))  # implied on-curve
    C.append(_seg([[m, [[50, 100]]], [q, [[100, 100], [100, 50]]], [q, [[100, 0], [50, 0]]], [q, [[0, 0], [0, 50]]], [q, [[0, 100], [50, 100]]], [z, []]], drop=True))  # all on-curves impliable
    C.append(_seg([[m, [[0, 0]]], [c, [[0, 10], [10, 20], [20, 20], [30, 10], [30, 0]]], [z, []]]))  # super-bezier
    C.append(_seg([[m, [[0, 0]]], [c, [[10, 10]]], [c, [[20, 20], [30, 0]]], [z, []]]))  # short curveTo forms
    C.append(_seg([[m, [[0, 0]]], [l, [[50, 0]]], [l, [[100, 0]]], [l, [[60, 0]]], [l, [[60, 40]]], [z, []]]))  # collinear / back-tracking
    C.append(_seg(sq + [[z, []], ["addComponent", ["a", [-1, 0, 0, 1, 0, 0]]], ["addComponent", ["c", [0, 1, -1, 0, 7, 0]]]]))
    C.append(_seg([["addComponent", ["a", [1, 0, 0, 1, 3, 4]]], ["addComponent", ["c", [-1, 0, 0, -1, 0, 0]]]]))  # composite only
    C.append(_seg([["addComponent", ["a", [3, 0, 0, 3, 0, 0]]]]))  # overflowing transform
    C.append(_seg([[m, [[0.5, 1.5]]], [l, [[2.5, -0.5]]], [q, [[-1.5, 0.49999999], [3.5, 4.5]]], [z, []]], mode="float", T=(0.5, 0.25, -0.25, 2.0, 0.5, 10)))
    return C


def run_job(job):
    acc = Acc()
    if job["kind"] == "fixed":
        for case in fixed_cases():
            run_case(case, acc)
            acc.label("fixed-case")
        return acc

    def body(case, acc):
        run_case(case, acc)

    hyp_collect(acc, strategy(job), body, job["n"], job["seed"])
    return acc


def replay(case):
    acc = Acc()
    run_case(case, acc, record=False)
    return acc.failures


# ---------------------------------------------------------------------------
# minimisation of a failing case (used by the runner for the replay file)


def _valid_pt_contour(c):
    n = len(c)
    if n <= 1:
        return n == 1
    types = [p[2] for p in c]
    if "move" in types[1:]:
        return False
    if types[0] == "move":
        if types[-1] is None:
            return False
        for i in range(1, n):
            if types[i] == "line" and types[i - 1] is None:
                return False
        return True
    for i in range(n):
        if types[i] == "line" and types[i - 1] is None:
            return False
    return True


def _simpler_numbers(v):
    out = []
    if isinstance(v, float):
        for w in (0, int(v), round(v, 1)):
            if w != v:
                out.append(w)
    elif isinstance(v, int) and v != 0:
        out.append(0)
        if abs(v) > 10:
            out.append(int(v / 10))
        if abs(v) > 1:
            out.append(1 if v > 0 else -1)
    return out


def _candidates(case):
    """Yield structurally smaller variants of a case (all still valid call sequences)."""
    k = case["kind"]
    if k == "alg":
        for key in ("A", "B", "C", "tr", "sc", "skew"):
            for i, v in enumerate(case[key]):
                for w in _simpler_numbers(v):
                    c = copy.deepcopy(case)
                    c[key][i] = w
                    if key in "ABC" and c[key][0] * c[key][3] - c[key][1] * c[key][2] == 0:
                        continue
                    yield c
        if len(case["pts"]) > 1:
            for i in range(len(case["pts"])):
                c = copy.deepcopy(case)
                del c["pts"][i]
                yield c
        for i, p in enumerate(case["pts"]):
            for j in (0, 1):
                for w in _simpler_numbers(p[j]):
                    c = copy.deepcopy(case)
                    c["pts"][i][j] = w
                    yield c
        return
    body = "ops" if k == "seg" else "items"
    # glyph set
    for name in case["glyphs"]:
        if case["glyphs"][name]:
            c = copy.deepcopy(case)
            c["glyphs"][name] = []
            yield c
    if list(case["T"]) != [1, 0, 0, 1, 0, 0]:
        c = copy.deepcopy(case)
        c["T"] = [1, 0, 0, 1, 0, 0]
        yield c
    for f, v in case["flags"].items():
        if v:
            c = copy.deepcopy(case)
            c["flags"][f] = False
            yield c

    def glyph_variants(g):
        if k == "seg":
            parts = _split_with_components([tuple(o) for o in g])
            parts = [[list(o) for o in p] for p in parts]
            for i in range(len(parts)):
                yield [o for j, p in enumerate(parts) if j != i for o in p]
            for i, p in enumerate(parts):
                if p[0][0] == "addComponent":
                    t = p[0][1][1]
                    if list(t) != [1, 0, 0, 1, 0, 0]:
                        q = copy.deepcopy(parts)
                        q[i][0][1][1] = [1, 0, 0, 1, 0, 0]
                        yield [o for pp in q for o in pp]
                    continue
                for j in range(1, len(p) - 1):
                    q = copy.deepcopy(parts)
                    del q[i][j]
                    yield [o for pp in q for o in pp]
                for j, (op, args) in enumerate(p):
                    if op in ("curveTo", "qCurveTo") and len(args) > 1:
                        for d in range(len(args) - 1):
                            q = copy.deepcopy(parts)
                            del q[i][j][1][d]
                            if q[i][j][1] != [None]:
                                yield [o for pp in q for o in pp]
                    for d, pt in enumerate(args):
                        if pt is None or op == "addComponent":
                            continue
                        for z in (0, 1):
                            for w in _simpler_numbers(pt[z]):
                                q = copy.deepcopy(parts)
                                q[i][j][1][d][z] = w
                                yield [o for pp in q for o in pp]
        else:
            for i in range(len(g)):
                yield [copy.deepcopy(it) for j, it in enumerate(g) if j != i]
            for i, it in enumerate(g):
                if "comp" in it:
                    if list(it["comp"][1]) != [1, 0, 0, 1, 0, 0]:
                        q = copy.deepcopy(g)
                        q[i]["comp"][1] = [1, 0, 0, 1, 0, 0]
                        yield q
                    continue
                for j in range(len(it["c"])):
                    q = copy.deepcopy(g)
                    del q[i]["c"][j]
                    if _valid_pt_contour(q[i]["c"]):
                        yield q
                for j, p in enumerate(it["c"]):
                    for z in (0, 1):
                        for w in _simpler_numbers(p[z]):
                            q = copy.deepcopy(g)
                            q[i]["c"][j][z] = w
                            yield q
                    if p[3] or p[4] is not None or p[5] is not None:
                        q = copy.deepcopy(g)
                        q[i]["c"][j][3:] = [False, None, None]
                        yield q

    for v in glyph_variants(case[body]):
        c = copy.deepcopy(case)
        c[body] = v
        yield c
    for name in case["glyphs"]:
        for v in glyph_variants(case["glyphs"][name]):
            c = copy.deepcopy(case)
            c["glyphs"][name] = v
            yield c


def shrink(f, key, tier, seed, budget_s=40):
    from vf.runner import from_jsonable

    case = from_jsonable(f["case"])

    def fails(c):
        if c["kind"] == "seg" and c["mode"] == "int" and not all_int(gp.tup_ops(c["ops"])):
            return None
        try:
            fs = replay(c)
        except BaseException:
            return None
        for g in fs:
            if "%s|%s|%s" % (g["clause"], g["kind"], g["where"]) == key:
                return g
        return None

    best = fails(case)
    if best is None:
        return None
    t0 = time.time()
    improved = True
    while improved and time.time() - t0 < budget_s:
        improved = False
        for c in _candidates(case):
            if time.time() - t0 > budget_s:
                break
            g = fails(c)
            if g is not None:
                case, best, improved = c, g, True
                break
    return best


REQUIRED_LABELS = [
    "seg:int",
    "seg:float",
    "pt:int",
    "pt:float",
    "alg:int",
    "alg:float",
    "contour:no-on-curve",
    "contour:single-point",
    "contour:open",
    "contour:closed",
    "closing:lineTo-equals-start",
    "closing:last-on-curve-equals-start",
    "dup:zero-length-line",
    "dup:coincident-points-in-segment",
    "seg:cubic",
    "seg:super-bezier",
    "seg:curveTo-short",
    "seg:quadratic-multi-off",
    "seg:quadratic-0off",
    "components",
    "components:nested",
    "components:flipped",
    "components:singular",
    "pt:contour:starts-with-off-curve",
    "pt:contour:no-on-curve",
    "pt:attr:identifier",
    "pt:attr:name",
    "pt:attr:smooth",
    "t2:exact-leg:compiled",
    "tt:composite-glyph",
    "tt:components-decomposed-by-pen",
    "tt:implied-on-curve-points-dropped",
    "tt:pointpen:implied-on-curve-points-dropped",
]


def finish(total, tier, seed):
    missing = [l for l in REQUIRED_LABELS if total.labels.get(l, 0) < 5]
    if missing:
        raise HarnessError("generator classes (nearly) never produced: %s" % ", ".join(missing))
