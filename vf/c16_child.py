"""C16 child program: run a list of pipeline jobs in this process and print one JSON
line per job with the sha256 of the output (first and second save) and of every table.

usage: python c16_child.py <jobs.json> <scratch dir>
The experiment variables (PYTHONHASHSEED, cwd, LC_ALL, TZ, SOURCE_DATE_EPOCH) are set by
the parent in the environment of this process; lazy mode and table access order are part
of each job descriptor. fontTools is imported from $VERIF_REPO/Lib (default /repo/Lib)."""

import hashlib
import io
import json
import os
import signal
import sys
import traceback

VERIF = os.path.dirname(os.path.dirname(os.path.abspath(__file__)))
if VERIF not in sys.path:
    sys.path.insert(0, VERIF)

JOB_SECONDS = 240


class _Timeout(BaseException):
    pass


def _alarm(signum, frame):
    raise _Timeout()


def table_hashes(data):
    """-> ({tag: sha256[:16]}, {tag: size}, head bytes as hex or None)"""
    from fontTools.ttLib import TTFont

    f = TTFont(io.BytesIO(data), lazy=True)
    out = {}
    sizes = {}
    head = None
    for tag in f.reader.keys():
        raw = f.reader[tag]
        out[tag] = hashlib.sha256(raw).hexdigest()[:16]
        sizes[tag] = len(raw)
        if tag == "head":
            head = raw.hex()
    return out, sizes, head


def _save(font, kw):
    b = io.BytesIO()
    font.save(b, **kw)
    return b.getvalue()


def run_one(job, tmpdir):
    from vf import pipelines
    from vf.runner import innermost_frame

    rec = {"name": job["name"]}
    try:
        font, kw = pipelines.run_pipeline(job, tmpdir)
        loaded0 = set(font.tables)
        d1 = _save(font, kw)
    except _Timeout:
        raise
    except Exception as e:
        rec["exc"] = type(e).__name__
        rec["msg"] = str(e)[:200]
        rec["where"] = innermost_frame(e)
        return rec
    rec["sha"] = hashlib.sha256(d1).hexdigest()
    rec["size"] = len(d1)
    rec["tables"], rec["sizes"], rec["head"] = table_hashes(d1)
    # tables the first save decompiled by itself (they had not been loaded before)
    loaded1 = set(font.tables)
    rec["loaded_by_save"] = sorted(t for t in loaded1 - loaded0 if t != "GlyphOrder")
    # second save of the same object (and a third when the first save changed the set of loaded tables)
    prev = d1
    for n in ("2", "3"):
        try:
            d = _save(font, kw)
        except _Timeout:
            raise
        except Exception as e:
            rec["exc" + n] = type(e).__name__
            rec["msg" + n] = str(e)[:200]
            rec["where" + n] = innermost_frame(e)
            break
        rec["sha" + n] = hashlib.sha256(d).hexdigest()
        if d != prev:
            rec["tables" + n], rec["sizes" + n], rec["head" + n] = table_hashes(d)
        elif n == "3" and "tables2" in rec:
            rec["tables3"], rec["sizes3"], rec["head3"] = rec["tables2"], rec["sizes2"], rec["head2"]
        if n == "2" and (d == d1 or not rec["loaded_by_save"]):
            break
        prev = d
    return rec


def main(argv):
    from vf.runner import bootstrap

    bootstrap()
    with open(argv[1]) as fh:
        jobs = json.load(fh)
    tmpdir = argv[2]
    signal.signal(signal.SIGALRM, _alarm)
    # result lines go to the real stdout, prefixed; anything the library prints goes to stderr
    out = os.fdopen(os.dup(1), "w")
    os.dup2(2, 1)
    sys.stdout = sys.stderr
    env = {
        "hashseed": os.environ.get("PYTHONHASHSEED"),
        "cwd": os.getcwd(),
        "encoding": __import__("locale").getpreferredencoding(False),
        "tz": os.environ.get("TZ"),
        "epoch": os.environ.get("SOURCE_DATE_EPOCH"),
        "hash_of_a": hash("a") & 0xFFFF,
    }
    out.write("C16 " + json.dumps({"env": env}) + "\n")
    for job in jobs:
        signal.setitimer(signal.ITIMER_REAL, JOB_SECONDS)
        try:
            rec = run_one(job, tmpdir)
        except _Timeout:
            rec = {"name": job["name"], "timeout": True}
        except BaseException as e:  # harness problem inside the child
            rec = {"name": job["name"], "harness": "".join(traceback.format_exception(type(e), e, e.__traceback__))[-1500:]}
        finally:
            signal.setitimer(signal.ITIMER_REAL, 0)
        out.write("C16 " + json.dumps(rec) + "\n")
        out.flush()
    return 0


if __name__ == "__main__":
    sys.exit(main(sys.argv))
